"""Triage reproduction of known finding F11 (C02 R02.5/R02.6) against the real code.
Not part of any check (checks never run WallGo).  Run:  cd /repo && /venv/bin/python /verif/findings/F11_repro.py
Scans slow walls (vw = 1.5 * vMin) of random template equations of state and reports matchings that
findMatching returns although the 2x2 solve did not converge and the fluxes are not conserved."""
import sys, warnings, logging
import numpy as np
warnings.filterwarnings("ignore")
sys.path.insert(0, "/repo/tests")
import WallGo
from test_HydroTemplateModel import TestModelTemplate
from scipy.optimize import root

rng = np.random.default_rng(7)
found = 0
for k in range(400):
    psiN = 1 - 0.5 * rng.random(); alN = (1 - psiN) / 3 + rng.random() * 0.3
    cs2 = 1 / 4 + (1 / 3 - 1 / 4) * rng.random(); cb2 = cs2 - (1 / 3 - 1 / 4) * rng.random()
    try:
        th = TestModelTemplate(alN, psiN, cb2, cs2, 1, 1)
        hy = WallGo.Hydrodynamics(th, 10, 0.01, 1e-6, 1e-6)
        vw = 1.5 * hy.vMin
        if not (vw < hy.vJ):
            continue
        vp, vm, Tp, Tm = hy.findMatching(vw)
    except Exception:
        continue
    if vp is None:
        continue
    flag = hy.success
    wp, wm = th.wHighT(Tp), th.wLowT(Tm)
    e_plus = wp * vp / (1 - vp**2); e_minus = wm * vm / (1 - vm**2)
    rel = abs(e_plus - e_minus) / abs(e_minus)
    if rel > 1e-2:
        found += 1
        print(f"alN={alN:.4f} psiN={psiN:.4f} cb2={cb2:.4f} cs2={cs2:.4f} vw={vw:.5f}: returned matching has energy flux "
              f"{e_plus:.4e} in front vs {e_minus:.4e} behind (rel. {rel:.2f}); Hydrodynamics.success={flag}")
print("non-conserving matchings returned:", found)
sys.exit(1 if found else 0)
