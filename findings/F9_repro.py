"""Triage reproduction of finding F9 (C01 R01.4), fixed in /repo by a 'fix:' commit; not part of any check.
Run: cd /repo && /venv/bin/python /verif/findings/F9_repro.py   (exit 1 = unconverged evaluation reported as successful RUNAWAY)"""
import sys, warnings, logging
import numpy as np
warnings.filterwarnings("ignore")
sys.path.insert(0, "/repo")
import WallGo
from tests.Benchmarks.SingletSM_Z2.Benchmarks_singlet import BM1
from Models.SingletStandardModel_Z2.SingletStandardModel_Z2_Simple import SingletSM_Z2_Simple

model = SingletSM_Z2_Simple(BM1.inputParams)
model.getEffectivePotential().effectivePotentialError = 1e-15
bad = 0
for Tn in (93.0, 95.0):
    mgr = WallGo.WallGoManager()
    mgr.setVerbosity(logging.ERROR)
    mgr.config.configEOM.maxIterations = 2
    mgr.registerModel(model)
    phaseInfo = WallGo.PhaseInfo(temperature=Tn, phaseLocation1=WallGo.Fields([0.0, 200.0]), phaseLocation2=WallGo.Fields([246.0, 0.0]))
    mgr.setupThermodynamicsHydrodynamics(phaseInfo, WallGo.VeffDerivativeSettings(temperatureVariationScale=10.0, fieldValueVariationScale=[10.0, 10.0]))
    settings = WallGo.WallSolverSettings(bIncludeOffEquilibrium=False, meanFreePathScale=50.0, wallThicknessGuess=5.0)
    solver = mgr.setupWallSolver(settings)
    res = solver.eom.findWallVelocityDeflagrationHybrid(solver.initialWallThickness)
    print(f"Tn={Tn}: success={res.success} type={res.solutionType.name} vw={res.wallVelocity} "
          f"successWallPressure(last eval)={solver.eom.successWallPressure} msg={res.message[:60]!r}")
    if res.success and res.solutionType == WallGo.results.ESolutionType.RUNAWAY and not solver.eom.successWallPressure:
        bad += 1
sys.exit(1 if bad else 0)
