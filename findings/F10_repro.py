"""Triage reproduction of known finding F10 (C04 R04.4) against the real code; not part of any check.
Run:  cd /repo && /venv/bin/python /verif/findings/F10_repro.py
Simple singlet benchmark model, LTE (no out-of-equilibrium particles), vw = 0.5, tanh walls of decreasing width: for thin walls the
T33 equation has no root at some grid points; findPlasmaProfilePoint then returns the minimiser of the residual and
successTemperatureProfile stays True although the returned (T, v) does not reproduce c2."""
import sys, warnings, logging
import numpy as np
warnings.filterwarnings("ignore")
sys.path.insert(0, "/repo")
import WallGo
from tests.Benchmarks.SingletSM_Z2.Benchmarks_singlet import BM1
from Models.SingletStandardModel_Z2.SingletStandardModel_Z2_Simple import SingletSM_Z2_Simple

model = SingletSM_Z2_Simple(BM1.inputParams)
model.getEffectivePotential().effectivePotentialError = 1e-15
mgr = WallGo.WallGoManager()
mgr.setVerbosity(logging.ERROR)
mgr.registerModel(model)
Tn = BM1.phaseInfo["Tn"]
phaseInfo = WallGo.PhaseInfo(temperature=Tn, phaseLocation1=WallGo.Fields([0.0, 200.0]), phaseLocation2=WallGo.Fields([246.0, 0.0]))
mgr.setupThermodynamicsHydrodynamics(phaseInfo, WallGo.VeffDerivativeSettings(temperatureVariationScale=10.0, fieldValueVariationScale=[10.0, 10.0]))
settings = WallGo.WallSolverSettings(bIncludeOffEquilibrium=False, meanFreePathScale=50.0, wallThicknessGuess=5.0)
solver = mgr.setupWallSolver(settings)
eom = solver.eom
vw = 0.5
c1, c2, Tp, Tm, vMid = mgr.hydrodynamics.findHydroBoundaries(vw)
vevLow = mgr.thermodynamics.freeEnergyLow(Tm).fieldsAtMinimum
vevHigh = mgr.thermodynamics.freeEnergyHigh(Tp).fieldsAtMinimum
bad = 0
for width in (5.0, 1.0, 0.3, 0.15):
    wp = WallGo.WallParams(widths=np.array([width, width]) / Tn, offsets=np.zeros(2))
    eom._updateGrid(wp, vMid)
    fields, dPhidz = eom.wallProfile(eom.grid.xiValues, vevLow, vevHigh, wp)
    zero = WallGo.Polynomial(np.zeros((0, eom.grid.M - 1)), eom.grid, direction=("Array", "z"), basis=("Array", "Cardinal"))
    deltas = WallGo.BoltzmannDeltas(zero, zero, zero, zero)
    T, v = eom.findPlasmaProfile(c1, c2, vMid, fields, dPhidz, deltas, Tp, Tm)
    res = max(abs(eom.temperatureProfileEqLHS(fields.getFieldPoint(i), dPhidz.getFieldPoint(i), T[i], c1, c2)) for i in range(len(T)))
    print(f"width {width}/Tn: successTemperatureProfile={eom.successTemperatureProfile}, max |T33 residual| / |c2| = {res/abs(c2):.3g}")
    if eom.successTemperatureProfile and res / abs(c2) > 1e-2:
        bad += 1
sys.exit(1 if bad else 0)
