#!/bin/sh
# tools/verify_seed.sh <Cxx> <A|B> : confirm a seeded change in its scratch worktree (demo fails with / passes without; pinned suite passes with)
C="$1"; X="$2"; R="${SEEDROOT:-/tmp/seed}"; W=$R/$C; O=$R/$C.out/$X
cd "$W" || exit 2
git checkout -q -- . ; git clean -qfd
PYTHONPATH=$W/src timeout 300 /venv/bin/python "$O/demo.py" >/dev/null 2>&1; d0=$?
git apply "$O/patch.diff" || { echo "$C-$X: patch does not apply"; exit 2; }
PYTHONPATH=$W/src timeout 300 /venv/bin/python "$O/demo.py" >"$O/demo_with_change.log" 2>&1; d1=$?

PYTHONPATH=$W/src timeout 1500 /venv/bin/python -m pytest -q -p no:cacheprovider --timeout=900 --continue-on-collection-errors 2>&1 | tail -1 > "$O/pytest.log"
git checkout -q -- . ; git clean -qfd
echo "$C-$X demo_without=$d0 demo_with=$d1 pytest: $(cat $O/pytest.log)"
