#!/venv/bin/python
"""tools/try_patch.py <patch.diff> [Cxx ...] : apply a patch to a scratch copy of /repo/src (never to /repo itself), run the quick checks
of the given properties (default: all) against it, print exit codes and violated rules, remove the copy.  Exit 0 if every check exits 0."""
import re, shutil, subprocess, sys, tempfile
from pathlib import Path
sys.path.insert(0, "/verif")
from wgverif.registry import CHECKS

def run(patch, pids):
    tmp = Path(tempfile.mkdtemp(prefix="wgverif-try-"))
    out = {}
    try:
        shutil.copytree("/repo/src", tmp / "src", ignore=shutil.ignore_patterns("__pycache__"))
        r = subprocess.run(["git", "apply", "--whitespace=nowarn", str(patch)], cwd=tmp, capture_output=True, text=True)
        if r.returncode != 0:
            print("patch does not apply:", r.stderr[:300]); return None
        for pid in pids:
            r = subprocess.run(["./check", pid, "quick", "--no-evidence", "--repo", str(tmp)], cwd="/verif", capture_output=True, text=True)
            rules = sorted(set(re.findall(r"rule (R[\d.]+)", r.stdout)))
            lines = [l for l in r.stdout.splitlines() if l.strip().startswith("rule R") or "ANALYSIS-ERROR" in l]
            out[pid] = dict(exit=r.returncode, rules=rules, lines=lines[:4])
    finally:
        shutil.rmtree(tmp, ignore_errors=True)
    return out

if __name__ == "__main__":
    patch = Path(sys.argv[1]).resolve()
    pids = sys.argv[2:] or sorted(CHECKS)
    res = run(patch, pids)
    if res is None:
        sys.exit(2)
    bad = 0
    for pid, d in res.items():
        if d["exit"] != 0:
            bad = 1
            print(pid, "exit", d["exit"], d["rules"])
            for l in d["lines"]:
                print("   ", l.strip()[:300])
    if not bad:
        print("all", len(res), "checks exit 0")
    sys.exit(bad)
