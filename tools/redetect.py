#!/venv/bin/python
"""tools/redetect.py : re-run ALL quick checks against every stored seeded change (scratch copies) and rewrite `detected_by` in its meta.json."""
import json, sys
from concurrent.futures import ProcessPoolExecutor
from pathlib import Path
sys.path.insert(0, "/verif/tools")
import try_patch
from wgverif.registry import CHECKS

def one(d):
    res = try_patch.run(d / "patch.diff", sorted(CHECKS))
    return d, res

def main():
    dirs = sorted(p.parent for p in Path("/verif/seeded").glob("*/meta.json"))
    with ProcessPoolExecutor(max_workers=14) as ex:
        for d, res in ex.map(one, dirs):
            meta = json.loads((d / "meta.json").read_text())
            if res is None:
                print(d.name, "PATCH DOES NOT APPLY")
                meta["applies_to_current_tree"] = False
            else:
                det = {pid: {"exit": r["exit"], "rules": r["rules"]} for pid, r in res.items() if r["exit"] != 0}
                own = meta["breaks_property"]
                meta["detected_by"] = det
                meta["applies_to_current_tree"] = True
                print(d.name, "own" if det.get(own, {}).get("exit") == 1 else "OWN-MISSED", {k: v["rules"] for k, v in det.items()},
                      [k for k, v in det.items() if v["exit"] == 2] or "")
            (d / "meta.json").write_text(json.dumps(meta, indent=1))
main()
