#!/usr/bin/env python3
"""tools/store_seed.py <Cxx> <A|B> [extra check ids...]
Copy a verified seeded change from /tmp/seed/<Cxx>.out/<X> to /verif/seeded/<Cxx>-<X>/ and record which checks detect it."""
import json, re, shutil, subprocess, sys
from pathlib import Path
C, X = sys.argv[1], sys.argv[2]
extra = sys.argv[3:]
import os
ROOT = os.environ.get("SEEDROOT", "/tmp/seed")
NAME = os.environ.get("SEEDNAME", X)       # stored as <Cxx>-<NAME> (round 2: A -> C, B -> D)
out = Path(f"{ROOT}/{C}.out/{X}")
log = Path(f"{ROOT}/verify_{C}.log").read_text()
m = re.search(rf"{C}-{X} demo_without=(\d+) demo_with=(\d+) pytest: (.*)", log)
assert m, "not verified yet"
d0, d1, pt = int(m[1]), int(m[2]), m[3]
assert d0 == 0 and d1 != 0 and "152 passed" in pt, (d0, d1, pt)
dst = Path(f"/verif/seeded/{C}-{NAME}")
dst.mkdir(parents=True, exist_ok=True)
for f in ("patch.diff", "demo.py", "notes.md"):
    shutil.copy(out / f, dst / f)
sys.path.insert(0, "/verif/tools")
import try_patch
res = try_patch.run(dst / "patch.diff", [C] + extra)
assert res is not None, "patch does not apply"
det = {pid: {"exit": d["exit"], "rules": d["rules"]} for pid, d in res.items()}
notes = (out / "notes.md").read_text()
meta = {
    "id": f"{C}-{NAME}", "breaks_property": C,
    "needs_to_manifest": notes.strip().split("\n\n")[0][:1200],
    "confirmed": {"demo_exit_without_change": d0, "demo_exit_with_change": d1, "pinned_suite_with_change": pt,
                  "how": f"tools/verify_seed.sh {C} {X} in scratch worktree {ROOT}/{C} (PYTHONPATH=<worktree>/src)"},
    "author": "independent sub-agent given only the property text and a scratch worktree",
    "detected_by": det,
}
(dst / "meta.json").write_text(json.dumps(meta, indent=1))
print(C, X, det)
