#!/venv/bin/python
"""tools/gen_pinned_api.py : write wgverif/pinned_api.json = {module: [qualified names of all module-level functions and methods]} of the tree the
rules were written against (run once on the pinned tree + fix commits; a private function that is not listed is treated as a newly extracted helper)."""
import ast, hashlib, json, sys
from pathlib import Path
sys.path.insert(0, "/verif")
from wgverif.inline import body_hash
pkg = Path("/repo/src/WallGo")
out = {}
for p in sorted(pkg.rglob("*.py")):
    parts = p.relative_to(pkg).with_suffix("").parts
    if len(parts) > 1 and parts[-1] == "__init__":
        parts = parts[:-1]
    name = ".".join(parts)
    tree = ast.parse(p.read_text())
    q = {}

    def nested(fn, qual):
        for x in ast.walk(fn):
            if isinstance(x, ast.FunctionDef) and x is not fn:
                # direct or indirect nesting: qualify by the outermost function only (names are unique enough inside one function)
                q[f"{qual}.{x.name}"] = body_hash(x)

    for st in tree.body:
        if isinstance(st, ast.FunctionDef):
            q[st.name] = body_hash(st)
            nested(st, st.name)
        elif isinstance(st, ast.ClassDef):
            for m in st.body:
                if isinstance(m, ast.FunctionDef):
                    q[f"{st.name}.{m.name}"] = body_hash(m)
                    nested(m, f"{st.name}.{m.name}")
    out[name] = q
Path("/verif/wgverif/pinned_api.json").write_text(json.dumps(out, indent=0, sort_keys=True))
print(sum(len(v) for v in out.values()), "functions in", len(out), "modules")
