#!/usr/bin/env python3
"""Regenerate /verif/MANIFEST.json from wgverif/registry.py (checks + not_applicable)."""
import json, sys
from pathlib import Path
ROOT = Path(__file__).resolve().parent.parent
sys.path.insert(0, str(ROOT))
from wgverif.registry import CHECKS, NOT_APPLICABLE, ENGINES, NOTES

ids = [json.loads(l)["id"] for l in (ROOT / "properties.jsonl").read_text().splitlines() if l.strip()]
checks = []
for pid in ids:
    if pid not in CHECKS:
        continue
    c = CHECKS[pid]
    checks.append({
        "property_id": pid,
        "quick_cmd": f"./check {pid} quick",
        "thorough_cmd": f"./check {pid} thorough",
        "evidence_file": f"/verif/evidence/{pid}.json",
        "replay_cmd_template": f"./check {pid} --replay {{path}}",
        "engine": "wgverif",
        "level_claimed": {"category": c["level"], "text": c["text"], "design_ref": c.get("design_ref", f"DESIGN.md section 3, {pid}")},
        "level_note": c["note"],
        "technique": c["technique"],
    })
na = [{"property_id": pid, "reason": NOT_APPLICABLE.get(pid, "check not built yet (build in progress)")}
      for pid in ids if pid not in CHECKS]
m = {
    "version": 1,
    "setup_cmd": "true",
    "hooks": {
        "guard": "WALLGO_VERIF",
        "enable": "no hooks exist: every check parses /repo/src/WallGo with python's ast module and never imports or runs WallGo",
        "baseline_off_cmd": "cd /repo && /venv/bin/python -m pytest -ra -q -p no:cacheprovider --timeout=900 --continue-on-collection-errors",
        "source_commits": [],
        "add_only": True,
    },
    "engines": ENGINES,
    "checks": checks,
    "notes": NOTES,
    "not_applicable": na,
}
(ROOT / "MANIFEST.json").write_text(json.dumps(m, indent=1) + "\n")
print(f"{len(checks)} checks, {len(na)} not applicable")
