#!/bin/sh
# tools/try_seed.sh <patch.diff> <Cxx> [more Cxx...] : apply a seeded change to /repo, run the checks, restore /repo
P="$1"; shift
cd /repo || exit 2
git diff --quiet || { echo "/repo is dirty"; exit 2; }
git apply "$P" || { echo "patch does not apply"; exit 2; }
for c in "$@"; do (cd /verif && ./check "$c" quick --no-evidence 2>&1 | grep -E "VIOLATION|rule R|ANALYSIS|^\[" | head -8); done
git checkout -- . 
