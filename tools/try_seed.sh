#!/bin/sh
# tools/try_seed.sh <patch.diff> <Cxx> [more Cxx...] : run checks against a seeded change applied to a scratch copy of /repo/src (never /repo itself)
exec /verif/tools/try_patch.py "$@"
