#!/bin/sh
# tools/run_all.sh [quick|thorough] : run every registered check against /repo, print one line each
T=${1:-quick}
cd /verif || exit 2
rc=0
for i in 01 02 03 04 05 06 07 08 09 10 11 12 13 14 15 16 17 18 19 20; do
  s=$(date +%s.%N)
  out=$(./check C$i $T 2>&1); c=$?
  e=$(date +%s.%N)
  printf "C%s exit=%s %.1fs %s\n" $i $c $(echo "$e - $s" | bc) "$(echo "$out" | grep -E '^\[C' | head -1 | cut -c1-110)"
  echo "$out" | grep -E "VIOLATION|ANALYSIS-ERROR|KNOWN-FINDING" | cut -c1-200
  [ $c -ne 0 ] && rc=1
done
exit $rc
