#!/venv/bin/python
"""tools/twins.py [Cxx ...] : run the stored behaviour-preserving refactors (refactors/*/patch.diff) against the checks; print every alarm."""
import sys
from concurrent.futures import ProcessPoolExecutor
sys.path.insert(0, "/verif")
from wgverif import selftest
from wgverif.registry import CHECKS

def main():
    pids = sys.argv[1:] or sorted(CHECKS)
    jobs = []
    for pid in pids:
        for m in selftest._load_mutants(pid):
            if m.get("patch") and m["kind"] == "twin":
                jobs.append((pid, "/repo", m))
    bad = 0
    skipped = []
    with ProcessPoolExecutor(max_workers=16) as ex:
        for (pid, _, m), r in zip(jobs, ex.map(selftest._one, jobs)):
            if r["status"] == "skipped":
                skipped.append(f"{pid}:{m['id']}")
                continue
            if r["status"] != "ok":
                bad += 1
                print(f"{pid} {m['id']} {r['status']} exit={r.get('exit')} {r.get('rules')} {r.get('detail','')[:260]}")
    print(f"{len(jobs)} runs, {bad} alarms" + (f", {len(skipped)} skipped (patch no longer applies): {sorted(set(x.split(':')[1] for x in skipped))}" if skipped else ""))
main()
