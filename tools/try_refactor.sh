#!/bin/sh
# tools/try_refactor.sh <patch.diff> : apply a behaviour-preserving change to /repo, run ALL quick checks, restore /repo.
# Any VIOLATION / ANALYSIS-ERROR / non-zero exit here is a false alarm of the machinery.
P="$1"
cd /repo || exit 2
git diff --quiet || { echo "/repo is dirty"; exit 2; }
git apply "$P" || { echo "patch does not apply"; exit 2; }
bad=0
for i in 01 02 03 04 05 06 07 08 09 10 11 12 13 14 15 16 17 18 19 20; do
  out=$(cd /verif && ./check C$i quick --no-evidence 2>&1); rc=$?
  if [ $rc -ne 0 ]; then bad=1; echo "C$i exit=$rc"; echo "$out" | grep -E "VIOLATION|rule R|ANALYSIS|violat" | head -8; fi
done
git checkout -- .
[ $bad -eq 0 ] && echo "OK $P: all 20 checks silent"
exit $bad
