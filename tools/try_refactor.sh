#!/bin/sh
# tools/try_refactor.sh <patch.diff> : run ALL quick checks against a behaviour-preserving change applied to a scratch copy of /repo/src.
# Any VIOLATION / ANALYSIS-ERROR / non-zero exit here is a false alarm of the machinery.
exec /verif/tools/try_patch.py "$1"
