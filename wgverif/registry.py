"""What is claimed in MANIFEST.json (source of tools/gen_manifest.py)."""

COMMON_NOTE = ("Decides the listed structural clauses of the property on the parsed source (python ast of /repo/src/WallGo); "
               "it does not decide the numerical behaviour of iterative solvers (brentq, hybr, RK45, quad, BFGS, Nelder-Mead, "
               "dense solve). Trusted base: python ast, sympy 1.14 normalisation, the wgverif translator and rule code.")

CHECKS = {
    "C10": dict(
        level="proof",
        technique="static analysis: ast -> sympy term extraction per syntactic branch + CAS identities; CFG must-pass-through for call order",
        text="Every obligation is an algebraic identity between terms extracted from the source (dp = d/dT p and ddp = d/dT dp in all "
             "eight extrapolated branches; e, w, de, csq relations; continuity of p, dp, ddp and constancy of csq after substituting "
             "setExtrapolate's twelve assignments; table branch = -freeEnergy value / spline derivative of matching order) or a "
             "structural fact (branch guards and coefficient sets per phase, mirror symmetry of the two phases, call order in the "
             "manager). All are discharged by sympy normalisation, so the identities hold for every temperature, coefficient set and "
             "phase, which no finite test can show. setExtrapolate refreshes the four range ends before it evaluates p / w / csq at them (CFG ordering).",
        note=COMMON_NOTE + " Spline accuracy against the true minimum is not decided.",
    ),
    "C19": dict(
        level="proof",
        technique="static analysis: constant folding of the stencil tables to exact rationals + finite enumeration of the row-selection logic read from the ast",
        text="The property is a finite algebraic statement about the coefficient tables: for every row, sum c_i pos_i^k = k! delta_kn "
             "for k up to the stencil size (exact rationals folded from the ast), mixed and diagonal moments of the Hessian stencils, "
             "and for every distance-to-bound scenario the row selected by the code's own offset statements stays inside the bound. "
             "Pairing of position/coefficient tables, power of the step and stencil axis are read from the syntax tree. Also: the stencil rows are looked up with the stencil axis first and the input's axes in their order for inputs of every rank (no transpose after the selection by an input-shaped index).",
        note=COMMON_NOTE + " Result shapes for arbitrary input shapes / axis selections are not decided.",
    ),
}

CHECKS["C17"] = dict(
    level="proof",
    technique="static analysis: ast -> sympy term extraction + CAS identities (Jacobian = derivative of map, inverse, centre slope); "
              "CFG must-pass-through typestate for cache coherence; effect comparison constructor vs rescaling method; override pairing",
    text="The quantifiers of the property (all scale combinations, all sequences of rescaling calls) are discharged symbolically: the "
         "Jacobian of each of the six maps is proved equal to the derivative of the map as terms of the source (sympy cancel), the "
         "inverse of the simple map and the centre slope L/r of the three-scale map (after substituting aIn/aOut and the class's own "
         "asserts) are identities, positivity is a sign analysis, and history independence is a typestate rule: every public method "
         "that stores a map parameter re-caches on every CFG path, nobody else writes them, and every attribute whose constructor "
         "value depends on a rescaled argument is re-assigned equivalently by the rescaling method.",
    note=COMMON_NOTE + " Monotonicity of the three-scale map for 1/2 <= smoothing < 1 is not decided. Known finding F7 (inherited inverse map).",
)

CHECKS["C18"] = dict(
    level="other",
    technique="static analysis: mask-provenance dataflow on masked assignments, rank arithmetic of subscripts per branch, exhaustive match-dispatch "
              "check, single-writer state group, CFG typestate (mode change -> rebuild), writer/reader format agreement",
    text="The property quantifies over input shapes, return dimensions, mode pairs and call histories; the rules decide the structural "
         "necessary conditions that hold for all of them at once: every masked store evaluates exactly the masked points, subscript arity "
         "fits the result rank for scalar- and vector-valued functions, finiteness masks are per abscissa, both per-side dispatches are "
         "exhaustive and side-consistent, the six table attributes form one state group written only by _interpolate from one filtered "
         "(x, fx) pair, extensions keep (below, old, above) order strictly outside the old range, a mode change always rebuilds the "
         "spline, and the text writer/reader agree on columns, delimiter and precision.",
    note=COMMON_NOTE + " Interpolation accuracy and rounding in float-step arange are not decided.",
)

CHECKS["C12"] = dict(
    level="other",
    technique="static analysis: sibling-branch provenance (def-use chains per derivative mode), term extraction + CAS identities for the source "
              "and kinematics, axis-role typing of the rank-8 broadcast products, call/def-use rules for the single linear system",
    text="Decides the structural necessary conditions of the property for every background, particle set, basis and grid size: both derivative "
         "modes differentiate the same three background profiles; the source term equals the reference form of the Boltzmann source and "
         "vanishes identically for a homogeneous background; f_eq' is the derivative of f_eq for both statistics; the Lorentz-boost building "
         "blocks have their defining forms; operator and source solved are those of one assembly with consistent reshapes; every factor "
         "of the Liouville and collision products occupies the axis pair that its construction (direction, basis) dictates in both modes; "
         "the background is boosted on a deep copy. Also: the derivative and intertwiner matrices are those of the very basis functions used by changeBasis / evaluate (R12.7: index ranges and restricted Chebyshev basis, shared with C16). Methods called for their effect (changeBasis) really modify their receiver (R12.8).",
    note=COMMON_NOTE + " Convergence of finite differences to spectral derivatives and the conditioning of the dense solve are not decided.",
)

CHECKS["C13"] = dict(
    level="other",
    technique="static analysis: ast -> sympy term extraction of the four integration weights and of T30/T33, CAS identity against an "
              "independently derived covariant form; def-use pairing of tuple positions and keywords",
    text="For every grid size, momentum scale and mass profile at once: the measure and the four weights handed to the quadrature are, as "
         "terms of the source, deltaF * {1, pz^2, E^2, E pz} * (dpz/drz)(dpp/drp) p_par/(4 pi^2 E) on the (pz, pp) axes with the Jacobians "
         "on their own axes; each keyword of the container receives its own weight; T30 and T33 equal, as an algebraic identity in the "
         "moments, masses and velocity, the covariant decomposition of the direct integral of p^mu p^nu deltaF boosted to the wall frame "
         "(derived independently of the code's formula); no weight depends on deltaF; container arithmetic maps each moment to itself. Also: integrate / evaluate and the other read-only Polynomial methods never modify the stored coefficients or an alias of them (R13.7, alias analysis shared with C16), so the four moments integrate the same deltaF through the same quadrature (R13.8).",
    note=COMMON_NOTE + " Exactness of the Gauss-Chebyshev-Lobatto quadrature itself is covered structurally under C16, not here.",
)

CHECKS["C14"] = dict(
    level="other",
    technique="static analysis: def-use pairing of loader names/slices, exception-discipline rule over raise/assert/handler sites, "
              "axis-label flow (abstract interpretation of evaluate/moveaxis/transpose/reshape), CFG ordering rules",
    text="For every number of particles, grid size and fault pattern: the loader derives file name, dataset name and destination slice from "
         "the same ordered pair; the solver's array is replaced only by the value of a successful load; the listed faults leave "
         "newFromDirectory through CollisionLoadError; the basis change is an inverse-transpose confined to the polynomial axes; the "
         "axis-label flow of the interpolation shows that the reshape only splits the point axis into (pz, pp) -- which fails for more "
         "than one particle in the original code (fixed, F6); interpolation works on a deep copy in the Chebyshev basis and converts back. Also: the buffer that collects the per-pair blocks is allocated once (before the pair loops or under a first-file-only guard). loadCollisions returns normally only after installing the array it has just loaded; changeBasis, called for effect, modifies its receiver.",
    note=COMMON_NOTE + " Numerical fidelity of the interpolation is not decided.",
)

CHECKS["C02"] = dict(
    level="other",
    technique="static analysis: ast -> sympy term extraction + CAS identities (junction relations => flux conservation; residual forms; "
              "boundary constants vs definition), phase-side typing of temperatures (dataflow over tuple positions), flag-consultation rule",
    text="For every equation of state at once (the thermodynamic functions stay uninterpreted symbols): the junction relations coded in "
         "vpvmAndvpovm imply equality of energy and momentum flux; the residuals of both matching solvers vanish exactly on those "
         "relations (common positive factor); c1, c2 and vMid equal their definitions in both classes, the template's with its own "
         "equation of state (itself checked for w = T dp/dT); T+ values only reach high-T-phase functions/bounds and T- values low-T ones "
         "through all producers and consumers. Two rules fail on today's tree and are recorded as known finding F11: the convergence "
         "flag of the 2x2 solve is never read by findMatching, and its acceptance test is an absolute threshold on O(v^2) residuals. Also: the template model's closed forms are flux conservation with its own equation of state (T- from energy-flux continuity, T+ = Tn w+^(1/mu), one alpha+(v+,v-) relation, maxAl's residual is _eqWall at v- = cb; R02.7, shared with C15), and a root search entered after a sign-change test brackets between the tested points, so the exact matching is not silently replaced by the template's (R02.8). The template fallback of findMatching is never decided on a stale convergence flag (every read of self.success follows a write of the same call) and no hydrodynamics class keeps mutable class-level state.",
    note=COMMON_NOTE + " That hybr/brentq reach the root, and which approximation the template fallback returns, are not decided.",
)
CHECKS["C03"] = dict(
    level="other",
    technique="static analysis: ast -> sympy term extraction + CAS identities against the fluid equations in the similarity variable; "
              "call-argument provenance for the integrations",
    text="Independent oracle: dxi/dv and dT/dv returned by shockDE are substituted into the two relativistic fluid equations written in "
         "the similarity variable xi (energy and momentum equations with p = p(T), de = dp/cs^2) and both residuals are proved zero, "
         "for either wave and any equation of state; the Lorentz helpers have their defining forms; the front condition is one term at "
         "three sites and terminal; the front-crossing function is energy-flux continuity with the plasma at rest ahead; integration "
         "starts at mu(vw, v+) from (vw, T+); the efficiency factor integrates the same ODE from the same data with integrand "
         "xi^2 v^2 gamma^2 w and prefactor 4/(vw^3 w_n alpha_n), the rarefaction part with the low-T enthalpy and opposite sign; the "
         "template ODE agrees term-wise. Also: side typing of the functions that enforce the Tn boundary condition (R03.7, shared with C02), sign-tested root searches bracket between the tested points (R03.8), and every branch that depends on the side of the Jouguet velocity uses the model's own vJ, so the shock wave of a hybrid is not dropped from kappa (R03.9). No hydrodynamics class keeps mutable class-level state (a matching cached for one model is never served to another).",
    note=COMMON_NOTE + " Accuracy of solve_ivp / simpson and the momentum-flux condition at the front (a consequence, not coded) are not decided.",
)

CHECKS["C05"] = dict(
    level="other",
    technique="static analysis: ast -> sympy term extraction + CAS identities for the entropy relation; guard/sentinel table and flag typestate "
              "on the CFG of findvwLTE; callee-identity rules",
    text="The v+^2 imposed inside the 2x2 matching and the v+ computed after it are proved equivalent to T+ gamma+ = T- gamma- with "
         "v-^2 = min(vw^2, cs-^2), for every equation of state; the LTE root function is exactly entropy-branch matching -> shock "
         "integration -> Tn mismatch; the sentinel table is read off the guards (1 iff mismatch positive at the top of the window or the "
         "matching failed, 0 iff negative at the bottom, else the bracketed root) with the success flag reset before and read after the "
         "evaluation; manager and wall solver use this same routine; the template solver's own sentinels and shooting function are checked. Also: the re-evaluation of the v+ bracket in findMatching is entered on a sign change between the very points it brackets (R05.6), so the matching handed back at the LTE velocity is the exact one.",
    note=COMMON_NOTE + " That the mismatch keeps one sign over the whole window is not decided.",
)
CHECKS["C06"] = dict(
    level="other",
    technique="static analysis: ast -> sympy term extraction + CAS identities (Jouguet condition = derivative of v+^2; template vJ is the "
              "Chapman-Jouguet point), branch/guard structure rules, bracket provenance",
    text="vpDerivNum is proved to be N'D - ND' of v+^2 = N/D with the coded derivative pairing, and the returned vJ is v+ at that point; "
         "substituting the template's closed-form vJ into its detonation branch gives zero discriminant and v- = cb; both classes switch to "
         "the detonation branch exactly at vw > vJ, as does the labelling in the wall solver; v- = min(...) rules at every site; the "
         "detonation root is bracketed on the weak side by the minimiser of the same residual; fastestDeflag / slowestDeton / vMin "
         "bookkeeping (min of the two range-limited roots, flags per phase, window handed to the wall solver). Also: the sound speeds that classify a wall are those of their own phase, frozen at that phase's own range ends (R06.7, branch rules shared with C10), and every Jouguet-side decision of Hydrodynamics uses self.vJ (R06.8). The two range-limited velocities of fastestDeflag live in distinct variables whose minimum is returned; no comparison of vJ with a plasma velocity (R06.8).",
    note=COMMON_NOTE + " Numerical inequalities between returned speeds and temperatures are not decided.",
)

CHECKS["C04"] = dict(
    level="other",
    technique="static analysis: ast -> sympy term extraction + CAS identities (T30 and T33 equations), argument/parameter role agreement along "
              "the call chain, reaching-definition provenance of every returned temperature, flag typestate on the CFG",
    text="For every potential, wall shape and set of moments: v(T) is proved to solve w gamma^2 v = s1 with w = -T dV/dT, and the function "
         "whose root is returned is proved to be (1/2) sum (dphi/dz)^2 - V + w gamma^2 v^2 - s2, i.e. the two conserved stress-tensor "
         "components; s1/s2 pair with T30/T33; the boundary data keep their roles through all five call levels; every exit of the point "
         "solver is classified by the provenance of the returned temperature (root / failure sentinel / other) and the failure flag is "
         "reset before and lowered inside the grid loop; end-point arrays are oriented (behind, ..., in front). The early exit that "
         "returns the minimiser of the residual as a success is known finding F10. Also: the gradient entering the T33 kinetic term is the z-derivative of the very profile whose values enter V and w (R04.8, shared with C09), and the Boltzmann solver boosts a deep copy so the reported background stays in the wall frame (R04.9, shared with C12). Wherever the out-of-equilibrium T30/T33 are used they are the result of deltaToTmunu on every path, and the Jouguet velocity is never compared with a plasma velocity when the detonation root is selected (R04.10).",
    note=COMMON_NOTE + " Branch selection by |Tn - T+| < 1e-10, convergence of the bracketing loop and the far-field limits are not decided.",
)
CHECKS["C09"] = dict(
    level="other",
    technique="static analysis: ast -> sympy term extraction + CAS (derivative and limits of the tanh profile), def-use assembly rules for the "
              "pressure integrand, call-graph/CFG rule for the single grid re-mapping, shared cache-coherence typestate",
    text="The identity P = V(low) - V(high) is a total-derivative statement; its structural ingredients are decided for every wall shape and "
         "grid size: dPhidz is the exact derivative of the profile in both branches, the profile tends to the low-T vev behind and the "
         "high-T vev in front and is affine in the vevs, the integrand is sum_fields dV/dphi * dphi/dz built from one wallProfile call on "
         "grid.xiValues, integrated with weight -dz/dchi (Jacobian element 0 of the same grid, proved to be the map derivative under "
         "C17) with Gauss-Chebyshev-Lobatto weights, and the grid is re-mapped exactly once per pressure evaluation, before any "
         "integrand is built.",
    note=COMMON_NOTE + " Quadrature and finite-difference accuracy are not decided.",
)

CHECKS["C01"] = dict(
    level="other",
    technique="static analysis: reaching-definition provenance of the stored result components, CFG must-pass-through rules for labelling and "
              "flag consultation, flag typestate (single writer, reset on entry), effect table of stores to long-lived objects, who-constructs rule",
    text="Decides, for every model, setting and call history, the structural clauses: the four result components stored with a velocity are "
         "tuple positions 1-4 of one wallPressure evaluation at that very velocity, which is the brentq root of the pressure wrapper on "
         "the given bracket with xtol=errTol; success is False exactly when the label is ERROR at all 13 labelling sites and every "
         "returned result was labelled; RUNAWAY only under pressureMax < 0 and without a velocity; every success report in solveWall "
         "is preceded by reads of both failure flags on every CFG path from the evaluation it relies on (F9, fixed); the flags have "
         "one writer each and are reset on entry; the manager builds a fresh grid/BoltzmannSolver/EOM per call and caches nothing, and "
         "the hydrodynamics/thermodynamics layer stores only a closed, reasoned table of attributes. Also: the bound-saturation test of solveWall compares the wall parameters with exactly the four bounds handed to the action minimiser, and no success label carrying a velocity is reachable from its positive branch (R01.8).",
    note=COMMON_NOTE + " That the bracket contains a sign change of the true pressure, convergence of the pressure iteration and bit-identical "
                       "repeatability of scipy routines are not decided; the no-solution exits of findWallVelocityDetonation are outside rule R01.4.",
)

CHECKS["C16"] = dict(
    level="other",
    technique="static analysis: symbolic evaluation (linear forms in M, N) of every basis-index range per (direction, endpoints, basis) read from "
              "the guarded ast; term-level derivative identity for the restricted basis; finite enumeration of the axis algebra for rank <= 4",
    text="For all grid sizes at once: the index ranges used at seven sites agree with each other and with the grid's point counts for all "
         "six (direction, endpoints) combinations, with the right restriction label; the derivative-matrix correction is the derivative of "
         "the basis correction and the restricted functions vanish at the dropped end points; node formulas and quadrature weights share "
         "their denominators per direction, end-point weights are halved where a Lobatto end point is kept; for every rank <= 4 and axis "
         "the matrices land on (i, i+1), the contraction removes the old axis and all other axes are untouched (the pinned test only has "
         "rank 1, where these index tuples are empty). Also: the read-only methods of Polynomial leave self.coefficients and every alias of it untouched (R16.5), so exactness holds for every call history on one object.",
    note=COMMON_NOTE + " Exactness of Gauss-Lobatto quadrature and of barycentric differentiation are theorems about the nodes, not decided here.",
)

CHECKS["C15"] = dict(
    level="other",
    technique="static analysis: sibling comparison at term level (ast -> sympy, CAS identities) between Hydrodynamics and HydrodynamicsTemplateModel "
              "and between the template's own closed forms",
    text="Decides only that the two implementations encode the same equations, not that their numbers agree: boundary constants, fluid "
         "ODE, front condition, efficiency-factor integrand, classification threshold and v- rule agree term-wise; the template's alpha_n, "
         "Psi_n and exponents are the Thermodynamics definitions at Tn; its closed forms are mutually consistent (getVp solves the "
         "alpha(v+, v-) relation coded at three other places, _findTm is energy-flux conservation for w ~ T^mu / T^nu, the closed-form vJ "
         "is the Chapman-Jouguet point); the manager uses the template only to size the tracing range. The LTE solvers' sentinel conditions and root functions are those decided for C05 (R15.8).",
    note=COMMON_NOTE + " Numerical agreement of the two solvers over the parameter domain -- the body of the property -- is not decided; "
                       "this is the thinnest kind of claim: necessary structural conditions shared with C02, C03, C06.",
)

CHECKS["C20"] = dict(
    level="other",
    technique="static analysis: ast -> sympy term extraction + CAS identities for the six integrands (modulus and phase of the analytically "
              "continued log argument), structural comparison of the two piecewise wrappers, def-use rules for the thermal sum, and a lint "
              "of the shipped table files as data artefacts (parsed, never evaluated through WallGo)",
    text="Integrands equal the defining ones for every argument: y^2 log(1 -/+ e^(-sqrt(y^2+x))) with Jf's overall sign; for x + y^2 < 0 the "
         "log argument's modulus is |1 -/+ e^(-ia)| and the imaginary integrand its phase; both wrappers split at sqrt|x| with the same "
         "limits and use their own class's integrands; the thermal sum is T^4/(2 pi^2)[sum n_B Re Jb + sum n_F Re Jf] with m^2/T^2 "
         "arguments, jCW has the standard form and fermions the opposite sign. The shipped tables are linted row by row: layout, "
         "uniform increasing abscissae on [-20, 1000], finiteness, zero imaginary part for x >= 0, cubic-prediction residuals "
         "(resolution 2e-4 on the real part), value at 0 and large-x asymptote; ini file, file names and reader agree. Also: beyond the tabulated range the default tables are continued by a value, evaluated directly or refused, never by spline extrapolation, and the directly evaluated integral objects are constructed with adaptive interpolation off (R20.5). Under ABS_ARGUMENT the integrals are evaluated at |m^2|/T^2 on every such path; the table interpolant is the not-a-knot cubic spline.",
    note=COMMON_NOTE + " Values returned by quad, table accuracy between rows and continuity in the masses are not decided; a table "
                       "corruption below 2e-4 in a smooth region is not seen.",
)

CHECKS["C11"] = dict(
    level="other",
    technique="static analysis: CFG must-pass-through (spinodal / step-size tests before recording), reaching-definition provenance of the "
              "recorded potential per specialised control flow, def-use rules for range bookkeeping and the critical-temperature search",
    text="Only the bookkeeping clauses of the property are in the shape of the code, and only those are decided: no point is recorded "
         "without having passed the spinodal test (smallest Hessian eigenvalue at that point) and the step-size test; the recorded "
         "potential is V at exactly the recorded location for both settings of the re-minimisation option; the usable range is the "
         "tabulated range minus 2 dT, an end is flagged genuine only when the table stops short of the (clipped) requested range, the "
         "down and up lists are joined in increasing temperature for all three arrays; the critical temperature is the refined sign "
         "change of F_low - F_high scanned downward from TMax.",
    note=COMMON_NOTE + " That every tabulated point is a minimum on the same branch, interpolation accuracy and whether a stop is a genuine "
                       "disappearance of the phase -- the core of the property -- are NOT decided; this is the thinnest claim of the set.",
)

CHECKS["C07"] = dict(
    level="other",
    technique="static analysis: dimension inference (forward abstract interpretation over a lattice of powers of energy with symbolic exponents), "
              "seeded by a signature table of qualified API names; sink checks at call arguments / returns / attribute stores; closed triaged "
              "table of absolute-scale sites including scipy defaults that are absolute",
    text="Covariance under a change of units is a relation between runs; what is in the shape of the code is dimensional homogeneity. The "
         "inference types ~6600 expression nodes in 9 modules from ~330 API seeds and decides: no sum, difference, comparison, min/max of "
         "unequal kinds, no dimensionful transcendental argument or exponent, every argument of a package call / constructor, every "
         "return value and attribute store has the kind the API table states (this is the 'all lengths through 1/Tnucl' mechanism: "
         "dropping one /Tnucl is reported at the call that receives it), and the set of sites where a bare number or a dimensionless "
         "tolerance meets a dimensionful quantity equals a triaged table of 11 entries (each with the reason it is harmless for unit "
         "factors 1e-2..1e2); a new hard-wired scale is a violation.",
    note=COMMON_NOTE + " Whether a listed absolute site changes an output beyond tolerance for a particular model is a relation between two runs "
                       "and is not decided. Unknown kinds are silent (coverage and a typed-node floor are reported).",
)

CHECKS["C08"] = dict(
    level="other",
    technique="static analysis: affine-kind inference over field-space values (location / displacement / per-field number), seeded by API names; "
              "constant-index rule along the field axis; axis-role checks; term-level equivariance of the tanh ansatz and of the kinetic term",
    text="Covariance under relabelling is a relation between runs; its structural necessary conditions are decided for every model at once: "
         "field-space locations are only combined affinely (P - P, P + V, number * V) -- the non-affine uses on today's tree are a triaged "
         "table of two diagnostic/tolerance sites; no constant index is applied along the field axis except the gauge choice offsets[1:] "
         "and its inverse; reductions over fields use the field axis and profile concatenations the point axis; per-field scales are "
         "length-checked; the tanh ansatz is proved equivariant under translation and reflection of the vevs, the kinetic term depends on "
         "them only through vevHighT - vevLowT, and the grid envelope uses max/min over all fields without any vev. Also: reflection parity (the sum over fields of a quantity that is odd under the reflection of one field is flagged; products of two such quantities are even), and the width / offset bounds reach the parameters of the same name (R08.5).",
    note=COMMON_NOTE + " Equality of results between relabelled runs is not decided; model-supplied callbacks (potential, masses) are outside the package.",
)

# rules added after the fourth round of seeded changes (general rules; see DESIGN.md section 5)
ROUND4 = {
    "C01": "Also (R01.9): every read of the convergence flags judges the LAST pressure evaluation executed before it, and that evaluation is the one whose pressure is "
           "tested / whose data are reported at that exit (def-use chains on the CFG); (R01.10): the detonation scan leaves its loop early only when the pressure at the "
           "last probed point is positive, the top of the window was probed, or a solution was just stored.",
    "C02": "Also (R02.9): the junction relations contain no new hard-wired absolute scale (np.isclose / bare tolerance on an energy density): dimension inference, "
           "hydrodynamics modules.",
    "C03": "Also (R03.10): every result of a root finder / minimiser / integrator stored in a local is read before it is overwritten (liveness on the CFG), and tiny "
           "offsets of bracket ends point into the bracket.",
    "C05": "Also (R05.7): tiny offsets of bracket ends point into the bracket; solver results held in locals are read; (R05.8) initial guesses carry no bare number where "
           "a temperature is expected (a list display mixing quantities of one kind with a bare number is an absolute-scale site).",
    "C10": "Also (R10.8): range bookkeeping of the free-energy / interpolation classes is per instance (no mutable class-level attribute is mutated in place).",
    "C11": "Also (R11.7): results of root finders / minimisers stored in locals are read.",
    "C12": "Also: finite-difference derivatives of the background apply the full derivative matrix to the full profile and restrict to interior points afterwards (R12.1); "
           "the collision operator changes basis by the inverse-transpose rule (R12.9, shared with C14); no in-place update acts on a view of stored state (R12.10, alias "
           "analysis over basic indexing / reshape / asarray / getter results).",
    "C13": "Also (R13.9): no in-place update (augmented assignment, subscript store, out=) acts on an array aliased from the grid's cache, the background or a polynomial.",
    "C15": "Also (R15.9): an enthalpy sign change inside the template's shooting bracket cuts the upper end; the template's initial guess passes an np.isnan test on every "
           "path to the exact root solve; NaN guards never compare with np.nan; tiny bracket offsets point inward.",
    "C17": "Also (R17.8): with endpoints=True the three getters pad the same ends of every direction (sequence patterns evaluated from the ast); (R17.9) no in-place update of "
           "a cached array through a view.",
    "C18": "Also (R18.8): both range masks of one out-of-bounds evaluation are computed before any call that may move the table range; the result buffer's dtype does not "
           "depend on the input's (R18.2).",
    "C19": "Also (R19.5): positions and coefficients are built from one exactly representable step h = (x + h) - x (def-use chains).",
    "C20": "Also (R20.6): no default argument object escapes its call (potentials built without `integrals` do not share one Integrals object); (R20.7) the imaginary-part "
           "handling is entered for strictly negative m^2 only, identically in the zero-temperature and the thermal piece.",
}
for _k, _v in ROUND4.items():
    CHECKS[_k]["text"] = CHECKS[_k]["text"].rstrip() + " " + _v

# rules added after the fifth round of seeded changes
ROUND5 = {
    "C01": "Also (R01.11): cached pressure evaluations are handed to solveWall only by the detonation scan (where the upper pressure is proven >= 0), so the convergence guard on "
           "the runaway verdict cannot be bypassed; (R01.12): boundary data reach every pressure evaluation in the roles they were computed for (shared with C04); "
           "(R01.13): the convergence flags of solveWall's own evaluation at the top of the window are consulted on every path before the next evaluation overwrites "
           "them, short-circuit aware (F15, fixed).",
    "C02": "Also (R02.10): the v- returned by matchDeflagOrHyb is the one its junction conditions were solved with (shared with C06).",
    "C05": "Also (R05.9): without a sign change maxAl returns the end of the range at which the residual was tested; (R05.10): each sentinel of findvwLTE is drawn only "
           "after the convergence flag of the matching behind it was consulted (known finding F14 at the lower end).",
    "C06": "Also (R06.9): the template's shooting bracket is cut at its upper end and bracket offsets point inward (shared with C15 / C05).",
    "C08": "Also (R08.6): widths and relative offsets are clipped and bounded with bounds of their own kind (dimension inference restricted to the wall-parameter code).",
    "C10": "Also (R10.8): the cached range limits are stored only by the constructor and setExtrapolate (who-may-write).",
    "C12": "Also (R12.11): numerators and normalisation of the truncation estimate are read from the Chebyshev coefficients after the conversion; the raw array enters only through the polynomial.",
    "C15": "Also (R15.8): maxAl's no-sign-change exits (shared with C05 R05.9).",
    "C16": "Also (R16.6): the basis label of a Polynomial is re-assigned only by a method that transforms the coefficients (label / data coherence).",
    "C19": "Also (R19.2): the given bounds are compared as numbers, never tested for truthiness.",
    "C20": "Also (R20.8): a change of extrapolation mode rebuilds the spline whenever a table exists (typestate shared with C18 R18.6).",
}
for _k, _v in ROUND5.items():
    CHECKS[_k]["text"] = CHECKS[_k]["text"].rstrip() + " " + _v

# rules added after the sixth round of seeded changes
ROUND6 = {
    "C03": "Also (R03.11): the hybrid limit of the v+ bracket is (re-)evaluated with the high-T sound speed at the T+ of a matching, not only at Tn, so an exact "
           "matching just below the Jouguet velocity is not replaced by the template approximation.",
    "C12": "Also (R12.12): in spectral mode every non-derivative slot of the Liouville and collision operators carries the coefficient-to-grid matrix of the solver's "
           "basis; an identity stands there only in the finite-difference arm, where the unknowns are grid values.",
}
for _k, _v in ROUND6.items():
    CHECKS[_k]["text"] = CHECKS[_k]["text"].rstrip() + " " + _v

NOT_APPLICABLE = {}

ENGINES = [
    {"name": "wgverif", "path": "/verif/wgverif", "serves_properties": sorted(CHECKS),
     "kind_free_text": "repository-specific static analyser: ast source model, ast->sympy term extraction with CAS identities, "
                       "statement CFG (must-pass-through, reaching definitions), constant folding of literal tables, "
                       "axis/shape algebra, dimension and affine-kind inference"},
]

NOTES = ("All checks are static: they parse /repo's working tree on every run and never import or execute WallGo. "
         "Exit 0 = all obligations hold (known findings are printed as KNOWN-FINDING lines), exit 1 = VIOLATION, "
         "exit 2 = ANALYSIS-ERROR (anchor vanished / construct outside the analysable subset). "
         "thorough = quick + rule self-test on scratch copies (breaking edits must fire, behaviour-preserving twins must stay silent).")
