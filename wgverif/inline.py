"""Looking through *newly extracted* private helpers, for every rule at once.

"Extract method" is the most common clean-up, and the rules anchor in the functions of the pinned tree.  Every function that exists in the pinned
tree is listed in `pinned_api.json` (generated once by tools/gen_pinned_api.py).  A private function (leading underscore) that is NOT in that
list is, by construction, something a later edit introduced; before the source model is indexed, each call of such a helper is replaced by the
helper's body (parameters bound, colliding locals renamed, early returns turned into if/else), so that the rules see the code as if the helper
had never been extracted.  On the pinned tree nothing is new, so nothing is rewritten.

What is inlined (everything else is left alone and handled by the rules themselves):
  * module-level functions and methods called as `self.h(..)`, `cls.h(..)`, `Class.h(..)` or `h(..)`; name starts with one underscore;
    no decorator other than staticmethod; no *args / **kwargs; no yield / await / global / nonlocal; not recursive; not overridden or
    defined twice in the package; at most MAX_STMTS statements;
  * `return` only as the last statement of the body or of an if/elif/else arm (guard clauses), never inside a loop / try / with;
  * call sites: `x = h(..)`, `a, b = h(..)`, `x: T = h(..)`, `return h(..)`, a bare `h(..)` statement; a call nested inside a larger expression
    is replaced by the returned expression when the helper is a single `return <expr>` (after its docstring), otherwise it is hoisted into a
    fresh temporary assigned just before the statement (not for `while` tests).
"""
from __future__ import annotations

import ast
import copy
import json
from pathlib import Path
from typing import Optional

MAX_STMTS = 40
MAX_ROUNDS = 3
_PINNED: Optional[dict] = None


def pinned_api() -> dict:
    global _PINNED
    if _PINNED is None:
        p = Path(__file__).with_name("pinned_api.json")
        _PINNED = json.loads(p.read_text()) if p.exists() else {}
    return _PINNED


def body_hash(fn: ast.FunctionDef) -> str:
    """hash of a function's parameters and body with docstring, own name and the spelling of its parameters / locals abstracted away:
    equal for a function that was merely renamed (and whose locals were renamed)"""
    import hashlib
    f2 = copy.deepcopy(fn)
    f2.body = _docless(f2.body) or [ast.Pass()]
    bound: list[str] = []
    for a_ in f2.args.posonlyargs + f2.args.args + f2.args.kwonlyargs:
        if a_.arg not in bound:
            bound.append(a_.arg)
    for x in ast.walk(f2):
        if isinstance(x, ast.Name) and isinstance(x.ctx, (ast.Store, ast.Del)) and x.id not in bound:
            bound.append(x.id)
        elif isinstance(x, ast.arg) and x.arg not in bound:
            bound.append(x.arg)
        elif isinstance(x, (ast.FunctionDef, ast.AsyncFunctionDef)) and x is not f2 and x.name not in bound:
            bound.append(x.name)
    ren = {nm: f"_v{k}" for k, nm in enumerate(bound)}
    for x in ast.walk(f2):
        if isinstance(x, ast.Name) and x.id in ren:
            x.id = ren[x.id]
        elif isinstance(x, ast.arg) and x.arg in ren:
            x.arg = ren[x.arg]
            x.annotation = None
        elif isinstance(x, (ast.FunctionDef, ast.AsyncFunctionDef)) and x is not f2 and x.name in ren:
            x.name = ren[x.name]
    f2.returns = None
    txt = ast.dump(f2.args) + "|" + "|".join(ast.dump(st) for st in f2.body)
    txt = txt.replace(f"'{fn.name}'", "'<self-name>'")
    return hashlib.sha1(txt.encode()).hexdigest()[:16]


def _docless(body: list) -> list:
    return [st for st in body if not (isinstance(st, ast.Expr) and isinstance(st.value, ast.Constant) and isinstance(st.value.value, str))]


def _has_bad_nodes(fn: ast.FunctionDef) -> bool:
    for x in ast.walk(fn):
        if isinstance(x, (ast.Yield, ast.YieldFrom, ast.Await, ast.Global, ast.Nonlocal)):
            return True
    return False


def _returns_ok(stmts: list, top: bool = True) -> bool:
    """returns occur only where the if-conversion below can handle them"""
    for st in stmts:
        if isinstance(st, ast.Return):
            continue
        if isinstance(st, ast.If):
            if not _returns_ok(st.body, False) or not _returns_ok(st.orelse, False):
                return False
            continue
        if isinstance(st, (ast.FunctionDef, ast.AsyncFunctionDef, ast.ClassDef)):
            continue      # returns of nested functions are their own
        if any(isinstance(y, ast.Return) for y in _walk_no_nested(st)):
            return False      # inside a loop / try / with
    return True


def _walk_no_nested(node):
    stack = [node]
    while stack:
        x = stack.pop()
        yield x
        for c in ast.iter_child_nodes(x):
            if not isinstance(c, (ast.FunctionDef, ast.AsyncFunctionDef, ast.ClassDef, ast.Lambda)):
                stack.append(c)


def _always_returns(stmts: list) -> bool:
    for st in stmts:
        if isinstance(st, (ast.Return, ast.Raise)):
            return True
        if isinstance(st, ast.If) and st.orelse and _always_returns(st.body) and _always_returns(st.orelse):
            return True
    return False


class _Helper:
    def __init__(self, fn: ast.FunctionDef, cls: Optional[str]):
        self.fn, self.cls = fn, cls
        deco = {ast.unparse(d) for d in fn.decorator_list}
        self.static = "staticmethod" in deco
        a = fn.args
        self.params = [x.arg for x in a.posonlyargs + a.args]
        self.defaults = dict(zip(self.params[len(self.params) - len(a.defaults):], a.defaults))
        self.kwonly = [x.arg for x in a.kwonlyargs]
        for k, d in zip(self.kwonly, a.kw_defaults):
            if d is not None:
                self.defaults[k] = d
        self.body = _docless(fn.body)
        self.single_expr = len(self.body) == 1 and isinstance(self.body[0], ast.Return) and self.body[0].value is not None

    def usable(self) -> bool:
        fn = self.fn
        deco = {ast.unparse(d) for d in fn.decorator_list}
        if deco - {"staticmethod"}:
            return False
        if fn.args.vararg or fn.args.kwarg:
            return False
        if _has_bad_nodes(fn) or not self.body or len(list(_walk_stmts(self.body))) > MAX_STMTS:
            return False
        if not _returns_ok(self.body):
            return False
        # not recursive
        for x in ast.walk(fn):
            if isinstance(x, ast.Call):
                f = x.func
                if (isinstance(f, ast.Attribute) and f.attr == fn.name) or (isinstance(f, ast.Name) and f.id == fn.name):
                    return False
        return True


def _walk_stmts(stmts):
    for st in stmts:
        yield st
        for fld in ("body", "orelse", "finalbody"):
            b = getattr(st, fld, None)
            if isinstance(b, list) and not isinstance(st, (ast.FunctionDef, ast.AsyncFunctionDef, ast.ClassDef)):
                yield from _walk_stmts(b)
        if isinstance(st, ast.Try):
            for h in st.handlers:
                yield from _walk_stmts(h.body)


def _bound_names(stmts: list) -> set:
    """names bound by the statements (in their own scope: nested function bodies excluded, their names included)"""
    out = set()
    for st in stmts:
        for x in _walk_no_nested(st):
            if isinstance(x, ast.Name) and isinstance(x.ctx, (ast.Store, ast.Del)):
                out.add(x.id)
            elif isinstance(x, ast.ExceptHandler) and x.name:
                out.add(x.name)
        for x in ast.walk(st):
            if isinstance(x, (ast.FunctionDef, ast.AsyncFunctionDef, ast.ClassDef)):
                out.add(x.name)
                break
        if isinstance(st, (ast.FunctionDef, ast.AsyncFunctionDef, ast.ClassDef)):
            out.add(st.name)
    # nested defs anywhere at this level
    for st in _walk_stmts(stmts):
        if isinstance(st, (ast.FunctionDef, ast.AsyncFunctionDef, ast.ClassDef)):
            out.add(st.name)
    return out


def _all_names(fn: ast.AST) -> set:
    out = set()
    for x in ast.walk(fn):
        if isinstance(x, ast.Name):
            out.add(x.id)
        elif isinstance(x, ast.arg):
            out.add(x.arg)
        elif isinstance(x, (ast.FunctionDef, ast.AsyncFunctionDef, ast.ClassDef)):
            out.add(x.name)
    return out


class _Rename(ast.NodeTransformer):
    def __init__(self, ren: dict, subst: dict):
        self.ren, self.subst = ren, subst

    def visit_Name(self, x):
        if x.id in self.subst and isinstance(x.ctx, ast.Load):
            return copy.deepcopy(self.subst[x.id])
        if x.id in self.ren:
            return ast.copy_location(ast.Name(id=self.ren[x.id], ctx=x.ctx), x)
        return x

    def visit_arg(self, x):
        if x.arg in self.ren:
            x.arg = self.ren[x.arg]
        return x

    def visit_FunctionDef(self, x):
        if x.name in self.ren:
            x.name = self.ren[x.name]
        # parameters of a nested function shadow substitutions of the same name
        shadow = {a.arg for a in x.args.posonlyargs + x.args.args + x.args.kwonlyargs}
        saved = self.subst
        self.subst = {k: v for k, v in saved.items() if k not in shadow}
        self.generic_visit(x)
        self.subst = saved
        return x

    def visit_Lambda(self, x):
        shadow = {a.arg for a in x.args.posonlyargs + x.args.args + x.args.kwonlyargs}
        saved = self.subst
        self.subst = {k: v for k, v in saved.items() if k not in shadow}
        self.generic_visit(x)
        self.subst = saved
        return x


def _simple_arg(a: ast.AST) -> bool:
    if isinstance(a, (ast.Name, ast.Constant)):
        return True
    if isinstance(a, ast.Attribute):
        return _simple_arg(a.value)
    if isinstance(a, ast.UnaryOp) and isinstance(a.op, ast.USub):
        return _simple_arg(a.operand)
    return False


def _convert(stmts: list, make_result) -> list:
    """helper body with `return v` replaced by make_result(v) and early returns turned into if/else"""
    out = []
    for i, st in enumerate(stmts):
        if isinstance(st, ast.Return):
            out += make_result(st.value, st)
            return out
        if isinstance(st, ast.If) and any(isinstance(y, ast.Return) for y in _walk_no_nested_list([st])):
            rest = stmts[i + 1:]
            body = _convert(st.body + ([] if _always_returns(st.body) else copy.deepcopy(rest)), make_result)
            orelse = _convert((st.orelse or []) + ([] if (st.orelse and _always_returns(st.orelse)) else copy.deepcopy(rest)), make_result)
            new = ast.If(test=st.test, body=body or [ast.Pass()], orelse=orelse)
            ast.copy_location(new, st)
            out.append(new)
            return out
        out.append(st)
    return out


def _walk_no_nested_list(stmts):
    for st in stmts:
        yield from _walk_no_nested(st)


def _const_truth(test: ast.AST):
    """truth value of a test made of literals only (after a literal argument was substituted for a parameter), else None"""
    try:
        if isinstance(test, ast.Constant):
            return bool(test.value)
        if isinstance(test, ast.UnaryOp) and isinstance(test.op, ast.Not):
            v = _const_truth(test.operand)
            return None if v is None else not v
        if isinstance(test, ast.BoolOp):
            vs = [_const_truth(v) for v in test.values]
            if isinstance(test.op, ast.And):
                return False if any(v is False for v in vs) else (True if all(v is True for v in vs) else None)
            return True if any(v is True for v in vs) else (False if all(v is False for v in vs) else None)
        if isinstance(test, ast.Compare) and len(test.ops) == 1 and isinstance(test.ops[0], (ast.Is, ast.IsNot)) \
                and isinstance(test.comparators[0], ast.Constant) and test.comparators[0].value is None and not isinstance(test.left, ast.Constant):
            # `<value> is None` for an expression that certainly is not None: a signed number, a module constant (np.inf, math.pi), a display
            x = test.left
            while isinstance(x, ast.UnaryOp) and isinstance(x.op, (ast.USub, ast.UAdd)):
                x = x.operand
            notnone = (isinstance(x, ast.Constant) and x.value is not None) or isinstance(x, (ast.List, ast.Tuple, ast.Dict, ast.Set, ast.Lambda, ast.JoinedStr)) \
                or (isinstance(x, ast.Attribute) and isinstance(x.value, ast.Name) and x.value.id in ("np", "numpy", "math") and x.attr in ("inf", "pi", "e", "nan", "Inf", "PINF", "NINF"))
            if notnone:
                return isinstance(test.ops[0], ast.IsNot)
            return None
        if isinstance(test, ast.Compare) and len(test.ops) == 1 and isinstance(test.left, ast.Constant) and isinstance(test.comparators[0], ast.Constant):
            a, b, op = test.left.value, test.comparators[0].value, test.ops[0]
            if isinstance(op, ast.Eq):
                return a == b
            if isinstance(op, ast.NotEq):
                return a != b
            if isinstance(op, ast.Is):
                return a is b
            if isinstance(op, ast.IsNot):
                return a is not b
            if isinstance(op, ast.Lt):
                return a < b
            if isinstance(op, ast.LtE):
                return a <= b
            if isinstance(op, ast.Gt):
                return a > b
            if isinstance(op, ast.GtE):
                return a >= b
    except Exception:
        return None
    return None


def _fold_constant_tests(stmts: list) -> list:
    out = []
    for st in stmts:
        if isinstance(st, ast.If):
            v = _const_truth(st.test)
            if v is not None:
                out += _fold_constant_tests(st.body if v else (st.orelse or []))
                continue
            st.body = _fold_constant_tests(st.body) or [ast.Pass()]
            st.orelse = _fold_constant_tests(st.orelse or [])
        elif isinstance(st, (ast.For, ast.While, ast.With, ast.Try)):
            for fld in ("body", "orelse", "finalbody"):
                b = getattr(st, fld, None)
                if isinstance(b, list) and b:
                    setattr(st, fld, _fold_constant_tests(b) or [ast.Pass()])
        out.append(st)
    return out


def _relocate(node: ast.AST, at: ast.AST) -> ast.AST:
    """inlined code is evaluated at the call site: every node gets the line of the call (rules order statements and test the validity of
    temporaries by line)"""
    for y in ast.walk(node):
        if isinstance(y, (ast.expr, ast.stmt, ast.excepthandler, ast.arg, ast.keyword, ast.alias, ast.match_case, ast.pattern)) or hasattr(y, "lineno"):
            if "lineno" in getattr(y, "_attributes", ()):
                y.lineno = getattr(at, "lineno", 1)
                y.end_lineno = getattr(at, "end_lineno", y.lineno)
                y.col_offset = getattr(at, "col_offset", 0)
                y.end_col_offset = getattr(at, "end_col_offset", 0)
    return node


class _Inliner:
    def __init__(self, tree: ast.Module, helpers: dict, known: Optional[set] = None, pinned: Optional[dict] = None):
        self.tree = tree
        self.known = known if known is not None else set()
        self.pinned = pinned if isinstance(pinned, dict) else {}
        self.helpers = helpers       # (cls or None, name) -> _Helper
        self.counter = 0
        self.changed = False

    def find(self, call: ast.Call, cls: Optional[str]) -> Optional[_Helper]:
        f = call.func
        if isinstance(f, ast.Attribute) and isinstance(f.value, ast.Name):
            if f.value.id in ("self", "cls") and cls is not None:
                return self.helpers.get((cls, f.attr))
            h = self.helpers.get((f.value.id, f.attr))
            if h is not None and h.static:
                return h
            return None
        if isinstance(f, ast.Name):
            return self.helpers.get((None, f.id))
        return None

    def bind(self, h: _Helper, call: ast.Call):
        """(prelude statements, substitution dict) or None"""
        params = list(h.params)
        recv = None
        if h.cls is not None and not h.static:
            if not params:
                return None
            recv, params = params[0], params[1:]
        if any(isinstance(a, ast.Starred) for a in call.args) or any(k.arg is None for k in call.keywords):
            return None
        if len(call.args) > len(params):
            return None
        bound = dict(zip(params, call.args))
        for k in call.keywords:
            if k.arg in bound or k.arg not in params + h.kwonly:
                return None
            bound[k.arg] = k.value
        for p in params + h.kwonly:
            if p not in bound:
                if p in h.defaults:
                    bound[p] = h.defaults[p]
                else:
                    return None
        if recv is not None:
            bound[recv] = call.func.value      # self / cls
        return bound

    def expand(self, h: _Helper, call: ast.Call, caller_names: set, make_result) -> Optional[list]:
        bound = self.bind(h, call)
        if bound is None:
            return None
        body = copy.deepcopy(h.body)
        assigned = _bound_names(body)
        subst, prelude, ren = {}, [], {}
        self.counter += 1
        tag = f"__{h.fn.name.strip('_')}{self.counter}"
        for p, a in bound.items():
            if _simple_arg(a) and p not in assigned:
                subst[p] = a
            else:
                newp = p if (p not in caller_names or (isinstance(a, ast.Name) and a.id == p)) else p + tag
                if isinstance(a, ast.Name) and a.id == newp:
                    continue
                ren[p] = newp
                asg = ast.Assign(targets=[ast.Name(id=newp, ctx=ast.Store())], value=copy.deepcopy(a))
                ast.copy_location(asg, call)
                prelude.append(asg)
        for nm in assigned:
            if nm in caller_names and nm not in ren and nm not in bound:
                ren[nm] = nm + tag
        body = [_Rename(ren, subst).visit(st) for st in body]
        out = _fold_constant_tests(prelude + _convert(body, make_result))
        for st in out:
            _relocate(st, call)
        return out

    # ---- rewriting one function -------------------------------------------------------------------------------------------------
    def rewrite_function(self, fn: ast.FunctionDef, cls: Optional[str], qual: Optional[str] = None) -> None:
        names = _all_names(fn)
        qual = qual or (f"{cls}.{fn.name}" if cls else fn.name)
        # new nested closures that are only ever *called* (never passed around as a value) are helpers too
        local = {}
        present = {f"{qual}.{x.name}" for x in ast.walk(fn) if isinstance(x, ast.FunctionDef) and x is not fn}
        gone = {h_ for q_, h_ in self.pinned.items() if q_.startswith(qual + ".") and q_ not in present}
        for st in fn.body:
            if isinstance(st, ast.FunctionDef) and f"{qual}.{st.name}" not in self.known and not st.name.startswith("__"):
                if body_hash(st) in gone:
                    continue          # a renamed nested function of the pinned tree: the rules find it by role
                h = _Helper(st, None)
                if not h.usable():
                    continue
                uses = [x for x in ast.walk(fn) if isinstance(x, ast.Name) and x.id == st.name and isinstance(x.ctx, ast.Load)]
                callee_uses = {id(c.func) for c in ast.walk(fn) if isinstance(c, ast.Call) and isinstance(c.func, ast.Name) and c.func.id == st.name}
                attr_uses = [x for x in ast.walk(fn) if isinstance(x, ast.Attribute) and isinstance(x.value, ast.Name) and x.value.id == st.name]
                if uses and all(id(u) in callee_uses for u in uses) and not attr_uses and (None, st.name) not in self.helpers:
                    local[(None, st.name)] = h
        self.helpers.update(local)
        try:
            fn.body = self.rewrite_block([st for st in fn.body if not (isinstance(st, ast.FunctionDef) and (None, st.name) in local)], fn, cls, names)
        finally:
            for k in local:
                self.helpers.pop(k, None)
        # keep the definition of a closure that could not be inlined at some call site
        still = {x.func.id for x in ast.walk(fn) if isinstance(x, ast.Call) and isinstance(x.func, ast.Name)}
        keep = [h.fn for (c_, nm), h in local.items() if nm in still]
        if keep:
            fn.body = keep + fn.body
        if local and not keep:
            self.changed = True

    def rewrite_block(self, stmts: list, fn, cls, names: set) -> list:
        out = []
        for st in stmts:
            if isinstance(st, (ast.FunctionDef, ast.AsyncFunctionDef)):
                self.rewrite_function(st, cls)
                out.append(st)
                continue
            if isinstance(st, ast.ClassDef):
                out.append(st)
                continue
            for fld in ("body", "orelse", "finalbody"):
                b = getattr(st, fld, None)
                if isinstance(b, list):
                    setattr(st, fld, self.rewrite_block(b, fn, cls, names))
            if isinstance(st, ast.Try):
                for h in st.handlers:
                    h.body = self.rewrite_block(h.body, fn, cls, names)
            out += self.rewrite_stmt(st, fn, cls, names)
        return out

    def rewrite_stmt(self, st: ast.stmt, fn, cls, names: set) -> list:
        # statement-level forms
        call = None
        if isinstance(st, ast.Assign) and isinstance(st.value, ast.Call):
            call = st.value

            def mk(v, at, st=st):
                a = ast.Assign(targets=copy.deepcopy(st.targets), value=v if v is not None else ast.Constant(value=None))
                return [ast.copy_location(a, st)]
        elif isinstance(st, ast.AnnAssign) and isinstance(st.value, ast.Call):
            call = st.value

            def mk(v, at, st=st):
                a = ast.AnnAssign(target=copy.deepcopy(st.target), annotation=st.annotation, value=v if v is not None else ast.Constant(value=None), simple=st.simple)
                return [ast.copy_location(a, st)]
        elif isinstance(st, ast.Return) and isinstance(st.value, ast.Call):
            call = st.value

            def mk(v, at, st=st):
                return [ast.copy_location(ast.Return(value=v), st)]
        elif isinstance(st, ast.Expr) and isinstance(st.value, ast.Call):
            call = st.value

            def mk(v, at, st=st):
                return [ast.copy_location(ast.Expr(value=v), st)] if v is not None and not isinstance(v, ast.Constant) else []
        if call is not None:
            h = self.find(call, cls)
            if h is not None:
                if h.single_expr and not isinstance(st, ast.Expr):
                    pass          # handled as an expression below (keeps the statement shape)
                else:
                    new = self.expand(h, call, names, mk)
                    if new is not None:
                        self.changed = True
                        names |= {y for s_ in new for y in _all_names(s_)}
                        return new
        # calls nested in expressions
        if isinstance(st, (ast.While, ast.For, ast.AsyncFor, ast.With, ast.AsyncWith, ast.Try, ast.FunctionDef, ast.ClassDef)):
            heads = [st.test] if isinstance(st, ast.While) else ([st.iter] if isinstance(st, (ast.For, ast.AsyncFor)) else [])
        elif isinstance(st, ast.If):
            heads = [st.test]
        else:
            heads = [st]
        pre: list = []
        for hd in heads:
            self._rewrite_expr_calls(hd, st, cls, names, pre, hoist_ok=not isinstance(st, ast.While))
        return pre + [st]

    def _rewrite_expr_calls(self, root: ast.AST, st, cls, names: set, pre: list, hoist_ok: bool) -> None:
        inliner = self

        class T(ast.NodeTransformer):
            def visit_Lambda(self, x):
                return x

            def visit_FunctionDef(self, x):
                return x

            def visit_ListComp(self, x):
                return x

            def visit_GeneratorExp(self, x):
                return x

            def visit_DictComp(self, x):
                return x

            def visit_SetComp(self, x):
                return x

            def visit_Call(self, x):
                self.generic_visit(x)
                h = inliner.find(x, cls)
                if h is None:
                    return x
                if h.single_expr:
                    bound = inliner.bind(h, x)
                    if bound is None or any(not _simple_arg(a) and _count_loads(h.body[0].value, p) > 1 for p, a in bound.items()):
                        # an argument expression used several times: hoist it
                        if bound is None or not hoist_ok:
                            return x
                        for p, a in list(bound.items()):
                            if not _simple_arg(a) and _count_loads(h.body[0].value, p) > 1:
                                inliner.counter += 1
                                t = f"{p}__{h.fn.name.strip('_')}{inliner.counter}"
                                asg = ast.Assign(targets=[ast.Name(id=t, ctx=ast.Store())], value=a)
                                pre.append(ast.fix_missing_locations(ast.copy_location(asg, st)))
                                bound[p] = ast.Name(id=t, ctx=ast.Load())
                    e = _Rename({}, bound).visit(copy.deepcopy(h.body[0].value))
                    inliner.changed = True
                    return _relocate(e, x)
                if not hoist_ok:
                    return x
                inliner.counter += 1
                t = f"result__{h.fn.name.strip('_')}{inliner.counter}"

                def mk(v, at):
                    a = ast.Assign(targets=[ast.Name(id=t, ctx=ast.Store())], value=v if v is not None else ast.Constant(value=None))
                    return [ast.copy_location(a, st)]
                new = inliner.expand(h, x, names | {t}, mk)
                if new is None:
                    return x
                inliner.changed = True
                pre.extend(new)
                names.add(t)
                return ast.copy_location(ast.Name(id=t, ctx=ast.Load()), x)

        if isinstance(root, ast.stmt):
            for fld, val in ast.iter_fields(root):
                if isinstance(val, ast.expr):
                    setattr(root, fld, T().visit(val))
                elif isinstance(val, list):
                    setattr(root, fld, [T().visit(v) if isinstance(v, ast.expr) else v for v in val])
        else:
            new = T().visit(root)
            for fld, val in ast.iter_fields(st):
                if val is root:
                    setattr(st, fld, new)


def _count_loads(e: ast.AST, name: str) -> int:
    return sum(1 for x in ast.walk(e) if isinstance(x, ast.Name) and x.id == name and isinstance(x.ctx, ast.Load))


def inline_new_helpers(tree: ast.Module, modname: str, package_defs: Optional[dict] = None) -> ast.Module:
    """package_defs: {function name: number of definitions in the whole package} (a helper defined twice may be overridden: not inlined)"""
    pinned = pinned_api().get(modname, {})
    known = set(pinned)
    if not pinned_api():
        return tree       # no pinned list: do nothing
    # a pinned function that is gone and a new private function with the same body: a rename, not an extraction -- leave it alone (the rules
    # identify such helpers by role)
    present = set()
    for st in tree.body:
        if isinstance(st, ast.FunctionDef):
            present.add(st.name)
        elif isinstance(st, ast.ClassDef):
            present |= {f"{st.name}.{m.name}" for m in st.body if isinstance(m, ast.FunctionDef)}
    gone_hashes = {h for q, h in (pinned.items() if isinstance(pinned, dict) else []) if q not in present}
    renamed = set()
    for st in tree.body:
        if isinstance(st, ast.FunctionDef) and st.name not in known and body_hash(st) in gone_hashes:
            renamed.add(st.name)
        elif isinstance(st, ast.ClassDef):
            for m in st.body:
                if isinstance(m, ast.FunctionDef) and f"{st.name}.{m.name}" not in known and body_hash(m) in gone_hashes:
                    renamed.add(f"{st.name}.{m.name}")
    known |= renamed
    for _ in range(MAX_ROUNDS):
        helpers = {}
        for st in tree.body:
            if isinstance(st, ast.FunctionDef) and _is_new_private(st.name, st.name, known):
                h = _Helper(st, None)
                if h.usable() and (package_defs or {}).get(st.name, 1) <= 1:
                    helpers[(None, st.name)] = h
            elif isinstance(st, ast.ClassDef):
                for m in st.body:
                    if isinstance(m, ast.FunctionDef) and _is_new_private(m.name, f"{st.name}.{m.name}", known):
                        h = _Helper(m, st.name)
                        if h.usable() and (package_defs or {}).get(m.name, 1) <= 1:
                            helpers[(st.name, m.name)] = h
        inl = _Inliner(tree, helpers, known, pinned)
        for st in tree.body:
            if isinstance(st, ast.FunctionDef) and (None, st.name) not in helpers:
                inl.rewrite_function(st, None)
            elif isinstance(st, ast.ClassDef):
                for m in st.body:
                    if isinstance(m, ast.FunctionDef) and (st.name, m.name) not in helpers:
                        inl.rewrite_function(m, st.name)
        # helpers may call helpers: rewrite their bodies too, for the next round
        for (c, nm), h in helpers.items():
            others = {k: v for k, v in helpers.items() if k != (c, nm)}
            if others:
                sub = _Inliner(tree, others, known, pinned)
                sub.rewrite_function(h.fn, c)
                inl.changed = inl.changed or sub.changed
        ast.fix_missing_locations(tree)
        if not inl.changed:
            break
    _drop_fully_inlined(tree, known)
    return tree


def _drop_fully_inlined(tree: ast.Module, known: set) -> None:
    """a new private helper whose every call was replaced by its body is no longer part of the program the rules look at: remove its definition
    (rules that enumerate "all functions that call X" would otherwise see the helper as one more, anchor-less, function)"""
    cands = []
    for st in tree.body:
        if isinstance(st, ast.FunctionDef) and _is_new_private(st.name, st.name, known):
            cands.append((tree.body, st, st.name))
        elif isinstance(st, ast.ClassDef):
            for m in st.body:
                if isinstance(m, ast.FunctionDef) and _is_new_private(m.name, f"{st.name}.{m.name}", known):
                    cands.append((st.body, m, m.name))
    for body, fn, name in cands:
        used = False
        for x in ast.walk(tree):
            if x is fn:
                continue
            if isinstance(x, ast.Attribute) and x.attr == name and not _inside(fn, x):
                used = True
            elif isinstance(x, ast.Name) and x.id == name and not _inside(fn, x):
                used = True
        if not used and len(body) > 1:
            body.remove(fn)


def _inside(fn: ast.AST, node: ast.AST) -> bool:
    return any(y is node for y in ast.walk(fn))


def _is_new_private(name: str, qual: str, known: set) -> bool:
    return name.startswith("_") and not name.startswith("__") and qual not in known
