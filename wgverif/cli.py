"""Command line driver:  python -m wgverif.cli <Cxx> quick|thorough [--repo PATH]"""
from __future__ import annotations

import argparse
import json
import os
import sys
from pathlib import Path

from .core import DEFAULT_REPO, VERIF_ROOT, run_property
from .rules import load


def main(argv=None) -> int:
    ap = argparse.ArgumentParser()
    ap.add_argument("pid")
    ap.add_argument("tier", nargs="?", default=os.environ.get("VERIF_TIER", "quick"))
    ap.add_argument("--repo", default=str(DEFAULT_REPO))
    ap.add_argument("--replay", default=None)
    ap.add_argument("--no-evidence", action="store_true")
    a = ap.parse_args(argv)
    pid = a.pid.upper()
    seed = int(os.environ.get("VERIF_SEED", "0") or 0)
    try:
        mod = load(pid)
    except ModuleNotFoundError:
        print(f"ANALYSIS-ERROR property={pid} no rule module")
        return 2
    if a.replay:
        rp = json.loads(Path(a.replay).read_text())
        code, ev = run_property(pid, mod.rules, mod.LEVEL, "quick", Path(rp.get("repo", a.repo)) if False else Path(a.repo),
                                None, seed, getattr(mod, "extra", None), quiet=True)
        hit = [o for o in ev.get("coverage", {}).get("violations_new", []) if o["rule"] == rp["rule"] and o["key"] == rp["key"]]
        if hit:
            print(f"VIOLATION property={pid} replay={a.replay}")
            print(json.dumps(hit[0], indent=1))
            return 1
        print(f"replay: obligation {rp['rule']} / {rp['key']} no longer violated")
        return 0 if code != 2 else 2
    tier = a.tier if a.tier in ("quick", "thorough") else "quick"
    evp = None if a.no_evidence else VERIF_ROOT / "evidence" / f"{pid}.json"
    code, ev = run_property(pid, mod.rules, mod.LEVEL, tier, Path(a.repo), evp, seed, getattr(mod, "extra", None))
    if tier == "thorough" and code != 2:
        from .selftest import run_selftest
        st_code, st = run_selftest(pid, Path(a.repo))
        if evp is not None and evp.exists():
            e = json.loads(evp.read_text())
            e["coverage"]["selftest"] = st
            evp.write_text(json.dumps(e, indent=1, default=str))
        if code == 0 and st_code != 0:
            return st_code
    return code


if __name__ == "__main__":
    sys.exit(main())
