"""Shared helpers for the hydrodynamics rules (C02, C03, C05, C06, C15)."""
from __future__ import annotations

import ast
from typing import Optional

import sympy as sp

from .core import AnchorMissing, Check, Source, Undecided, dotted, own_nodes, src
from .terms import ITE, Extractor

HY = "hydrodynamics:Hydrodynamics"
TM = "hydrodynamicsTemplateModel:HydrodynamicsTemplateModel"


def fn(name: str):
    return sp.Function(name)


def th(name: str):
    """uninterpreted thermodynamics function as it appears after extraction (self.thermodynamics.X(...))"""
    return sp.Function(f"thermodynamics.{name}")


def hydro_extractor(source: Source, extra_inline=(), positive=None) -> Extractor:
    names = {f"{HY}.vpvmAndvpovm", "helpers:gammaSq", "helpers:boostVelocity"} | set(extra_inline)
    return Extractor(source, inline=lambda n: n in names, positive=positive or set())


def drop_ite(e):
    """take the regular arm of `a if cond else fallback` expressions"""
    if isinstance(e, sp.Basic):
        return e.replace(ITE, lambda c, a, b: a)
    return e


def junction_terms(source: Source):
    """(vpvm, vpovm) of Hydrodynamics.vpvmAndvpovm as terms in pH(Tp), pL(Tm), eH(Tp), eL(Tm)"""
    ex = hydro_extractor(source)
    fi = source.func(f"{HY}.vpvmAndvpovm")
    v = ex.single(fi)
    if not (isinstance(v, tuple) and len(v) == 2):
        raise Undecided("vpvmAndvpovm does not return a pair")
    return ex, fi, drop_ite(v[0]), drop_ite(v[1])


def nested(source: Source, outer: str, name: str):
    fi = source.func(f"{outer}.{name}")
    return fi


def n(x) -> str:
    return " ".join(src(x).split())


# --------------------------------------------------------------------------
# phase-side typing of temperatures:  '+' (in front of the wall, high-T phase)
# and '-' (behind the wall, low-T phase)
# --------------------------------------------------------------------------

RET_SIDES = {
    "findMatching": {2: "+", 3: "-"},
    "matchDeton": {2: "+", 3: "-"},
    "matchDeflagOrHyb": {2: "+", 3: "-"},
    "detonationVAndT": {2: "+", 3: "-"},
    "findHydroBoundaries": {2: "+", 3: "-"},
    "_inverseMappingT": {0: "+", 1: "-"},
    "matchDeflagOrHybInitial": {0: "+", 1: "-"},
    "TpTm": {0: "+", 1: "-"},
}
PARAM_SIDES = {
    "vpvmAndvpovm": {0: "+", 1: "-"},
}


def use_side(call: ast.Call) -> Optional[str]:
    """side demanded by a callee: *HighT / freeEnergyHigh -> '+', *LowT / freeEnergyLow -> '-'"""
    d = dotted(call.func) or ""
    last = d.split(".")[-1]
    if last.endswith("HighT") or d.endswith("freeEnergyHigh") or ".freeEnergyHigh." in d + ".":
        return "+"
    if last.endswith("LowT") or d.endswith("freeEnergyLow") or ".freeEnergyLow." in d + ".":
        return "-"
    return None


def attr_side(name: str) -> Optional[str]:
    """side of a bound / result attribute by its role"""
    last = name.split(".")[-1]
    if last in ("TMaxHighT", "TMinHighT", "temperaturePlus"):
        return "+"
    if last in ("TMaxLowT", "TMinLowT", "temperatureMinus"):
        return "-"
    if "freeEnergyHigh" in name:
        return "+"
    if "freeEnergyLow" in name:
        return "-"
    return None


class SideTyper:
    """flow-insensitive side inference for the local names of one function"""

    def __init__(self, fnode: ast.AST, seeds: Optional[dict] = None):
        self.fnode = fnode
        self.side: dict[str, str] = dict(seeds or {})
        self.elem: dict[str, dict[int, str]] = {}
        self._infer()

    def expr_side(self, e: ast.expr) -> Optional[str]:
        if isinstance(e, ast.Name):
            return self.side.get(e.id)
        if isinstance(e, ast.Attribute):
            d = dotted(e)
            if d is None:
                return None
            return self.side.get(d) or attr_side(d)
        if isinstance(e, ast.Subscript):
            b = dotted(e.value)
            if b and isinstance(e.slice, ast.Constant) and isinstance(e.slice.value, int):
                if b in self.elem:
                    return self.elem[b].get(e.slice.value)
            if isinstance(e.value, ast.Call) and isinstance(e.slice, ast.Constant):
                t = self.call_ret(e.value)
                if t:
                    return t.get(e.slice.value)
            return None
        if isinstance(e, ast.Call):
            d = dotted(e.func) or ""
            if d in ("max", "min", "float", "np.maximum", "np.minimum", "abs") or d.endswith("clamp"):
                ss = {self.expr_side(a) for a in e.args} - {None}
                # bounds of the same side do not change the side; mixed -> unknown
                return ss.pop() if len(ss) == 1 else None
            return None
        if isinstance(e, ast.BinOp):
            # scale factors keep the side: T * 1.01, T / x
            ls, rs = self.expr_side(e.left), self.expr_side(e.right)
            if ls and not rs:
                return ls
            if rs and not ls and isinstance(e.op, ast.Mult):
                return rs
        return None

    def call_ret(self, call: ast.Call) -> Optional[dict]:
        d = dotted(call.func) or ""
        return RET_SIDES.get(d.split(".")[-1])

    def _infer(self) -> None:
        for _ in range(4):
            for st in ast.walk(self.fnode):
                if isinstance(st, ast.Assign) and len(st.targets) == 1:
                    t, v = st.targets[0], st.value
                    if isinstance(t, (ast.Tuple, ast.List)):
                        if isinstance(v, ast.Call) and self.call_ret(v):
                            for i, e in enumerate(t.elts):
                                s = self.call_ret(v).get(i)
                                if s and isinstance(e, ast.Name):
                                    self.side.setdefault(e.id, s)
                        elif isinstance(v, (ast.Tuple, ast.List)) and len(v.elts) == len(t.elts):
                            for e, x in zip(t.elts, v.elts):
                                s = self.expr_side(x)
                                if s and isinstance(e, ast.Name):
                                    self.side.setdefault(e.id, s)
                        elif isinstance(v, ast.Name) and v.id in self.elem:
                            for i, e in enumerate(t.elts):
                                s = self.elem[v.id].get(i)
                                if s and isinstance(e, ast.Name):
                                    self.side.setdefault(e.id, s)
                    elif isinstance(t, ast.Name):
                        if isinstance(v, ast.Call) and self.call_ret(v):
                            self.elem.setdefault(t.id, {}).update(self.call_ret(v))
                        elif isinstance(v, (ast.List, ast.Tuple)):
                            for i, x in enumerate(v.elts):
                                s = self.expr_side(x)
                                if s:
                                    self.elem.setdefault(t.id, {})[i] = s
                        else:
                            s = self.expr_side(v)
                            if s:
                                self.side.setdefault(t.id, s)
                    elif isinstance(t, ast.Attribute):
                        s = self.expr_side(v)
                        d = dotted(t)
                        if s and d:
                            self.side.setdefault(d, s)

    def conflicts(self) -> list[tuple[ast.AST, str]]:
        """uses whose demanded side contradicts the flow side"""
        out = []
        for x in ast.walk(self.fnode):
            if isinstance(x, ast.Call):
                want = use_side(x)
                if want:
                    for a in x.args[:1]:
                        have = self.expr_side(a)
                        if have and have != want:
                            out.append((x, f"`{n(a)}` is a T{have} value but is passed to `{n(x.func)}` (T{want} phase)"))
                d = dotted(x.func) or ""
                ps = PARAM_SIDES.get(d.split(".")[-1])
                if ps:
                    for i, want2 in ps.items():
                        if i < len(x.args):
                            have = self.expr_side(x.args[i])
                            if have and have != want2:
                                out.append((x, f"argument {i} of `{n(x.func)}` must be T{want2}, got `{n(x.args[i])}` (T{have})"))
                for k in x.keywords:
                    want3 = attr_side(k.arg or "")
                    have = self.expr_side(k.value)
                    if want3 and have and want3 != have:
                        out.append((x, f"keyword `{k.arg}` receives `{n(k.value)}` (T{have})"))
            if isinstance(x, ast.Compare) and len(x.comparators) == 1:
                a, b = self.expr_side(x.left), self.expr_side(x.comparators[0])
                isbound = attr_side(dotted(x.left) or "") or attr_side(dotted(x.comparators[0]) or "")
                if a and b and a != b and isbound:
                    out.append((x, f"`{n(x)}` compares a T{a} value with a T{b} bound"))
            if isinstance(x, ast.BinOp) and isinstance(x.op, ast.Sub):
                a, b = self.expr_side(x.left), self.expr_side(x.right)
                if a and b and a != b and (attr_side(dotted(x.right) or "") or attr_side(dotted(x.left) or "")):
                    out.append((x, f"`{n(x)}` subtracts a T{b} bound from a T{a} value"))
        return out

    def return_sides(self) -> list[dict[int, Optional[str]]]:
        out = []
        for r in own_nodes(self.fnode):
            if isinstance(r, ast.Return) and isinstance(r.value, (ast.Tuple, ast.List)):
                out.append({i: self.expr_side(e) for i, e in enumerate(r.value.elts)})
        return out


def same_term(source: Source, module: str, cls: Optional[str], actual: ast.AST, expected_src: str) -> Optional[bool]:
    """Compare an expression of the source with an expected expression (given as python text) at term level:
    insensitive to float()/np.array wrappers, operand order, spacing, parentheses.  None = cannot tell."""
    ex = Extractor(source)
    env = {"__module__": module, "__class__": cls}
    try:
        a = ex.expr(actual, env)
        b = ex.expr(ast.parse(expected_src, mode="eval").body, dict(env))
    except AnalysisErrorT:
        return None
    if isinstance(a, sp.Basic) and isinstance(b, sp.Basic):
        if a == b:
            return True
        try:
            if a.is_Relational or b.is_Relational or a.is_Boolean or b.is_Boolean:
                return False
        except Exception:
            pass
        from .terms import is_zero as _iz
        try:
            r, _ = _iz(a - b)
        except Exception:
            return str(a) == str(b)
        return r
    if isinstance(a, (list, tuple)) and isinstance(b, (list, tuple)) and len(a) == len(b):
        return all(x == y for x, y in zip(a, b))
    return a == b


from .core import AnalysisError as AnalysisErrorT  # noqa: E402
