"""Static verifier for the WallGo properties C01-C20 (ast based; never runs WallGo)."""
