"""
E4 -- statement-level control-flow graph of one function and the queries the
rules need: reachability, must-pass-through, reaching definitions.

Nodes are ast statements (simple statements) or ast expressions (the test of an
if/while, the iterator of a for, the subject of a match).  Compound statements
are represented by their header node.
"""
from __future__ import annotations

import ast
from typing import Callable, Iterable, Optional

from .core import dotted, own_nodes


class CFG:
    ENTRY = "ENTRY"
    EXIT = "EXIT"      # normal return / fall off the end
    RAISE = "RAISE"    # exceptional exit

    def __init__(self, func: ast.AST):
        self.func = func
        self.succ: dict = {self.ENTRY: set(), self.EXIT: set(), self.RAISE: set()}
        self.nodes: list = []
        self.kind: dict = {}
        self.true_succ: dict = {}
        last = self._block(func.body, [self.ENTRY], None, None, [])  # type: ignore[attr-defined]
        for p in last:
            self._edge(p, self.EXIT)
        self.pred: dict = {n: set() for n in self.succ}
        for a, bs in self.succ.items():
            for b in bs:
                self.pred.setdefault(b, set()).add(a)

    # -- construction ----------------------------------------------------
    def _node(self, n, kind="stmt"):
        if n not in self.succ:
            self.succ[n] = set()
            self.nodes.append(n)
            self.kind[n] = kind
        return n

    def _edge(self, a, b):
        self.succ.setdefault(a, set()).add(b)
        self.succ.setdefault(b, set())

    def _block(self, stmts, preds, brk, cont, handlers):
        """returns list of dangling predecessors after the block"""
        cur = list(preds)
        for st in stmts:
            if not cur:
                break  # unreachable tail
            cur = self._stmt(st, cur, brk, cont, handlers)
        return cur

    def _stmt(self, st, preds, brk, cont, handlers):
        if isinstance(st, (ast.FunctionDef, ast.AsyncFunctionDef, ast.ClassDef)):
            n = self._node(st, "def")
            for p in preds:
                self._edge(p, n)
            return [n]
        if isinstance(st, ast.If):
            t = self._node(st.test, "test")
            self._hdr(st, t)
            for p in preds:
                self._edge(p, t)
            self._exc(t, handlers)
            before = set(self.succ[t])
            a = self._block(st.body, [t], brk, cont, handlers)
            self.true_succ[t] = set(self.succ[t]) - before
            b = self._block(st.orelse, [t], brk, cont, handlers) if st.orelse else [t]
            return a + b
        if isinstance(st, ast.While):
            t = self._node(st.test, "test")
            self._hdr(st, t)
            for p in preds:
                self._edge(p, t)
            self._exc(t, handlers)
            brks: list = []
            before = set(self.succ[t])
            body_end = self._block(st.body, [t], brks, t, handlers)
            self.true_succ[t] = set(self.succ[t]) - before
            for p in body_end:
                self._edge(p, t)
            out = []
            is_true = isinstance(st.test, ast.Constant) and st.test.value is True
            if not is_true:
                out = self._block(st.orelse, [t], brk, cont, handlers) if st.orelse else [t]
            return out + brks
        if isinstance(st, (ast.For, ast.AsyncFor)):
            t = self._node(st.iter, "iter")
            self._hdr(st, t)
            for p in preds:
                self._edge(p, t)
            self._exc(t, handlers)
            brks = []
            body_end = self._block(st.body, [t], brks, t, handlers)
            for p in body_end:
                self._edge(p, t)
            out = self._block(st.orelse, [t], brk, cont, handlers) if st.orelse else [t]
            return out + brks
        if isinstance(st, ast.Try):
            hstarts = []
            hmarks = []
            for h in st.handlers:
                m = self._node(h, "handler")
                hmarks.append(m)
            inner_handlers = handlers + [hmarks]
            body_end = self._block(st.body, preds, brk, cont, inner_handlers)
            # an exception may also occur before the first statement completes
            for m in hmarks:
                for p in preds:
                    self._edge(p, m)
            else_end = self._block(st.orelse, body_end, brk, cont, handlers) if st.orelse else body_end
            outs = list(else_end)
            for h, m in zip(st.handlers, hmarks):
                outs += self._block(h.body, [m], brk, cont, handlers)
            if st.finalbody:
                outs = self._block(st.finalbody, outs, brk, cont, handlers)
            return outs
        if isinstance(st, (ast.With, ast.AsyncWith)):
            n = self._node(st, "with")
            for p in preds:
                self._edge(p, n)
            self._exc(n, handlers)
            return self._block(st.body, [n], brk, cont, handlers)
        if isinstance(st, ast.Match):
            t = self._node(st.subject, "subject")
            self._hdr(st, t)
            for p in preds:
                self._edge(p, t)
            outs = []
            wildcard = False
            for c in st.cases:
                outs += self._block(c.body, [t], brk, cont, handlers)
                if isinstance(c.pattern, ast.MatchAs) and c.pattern.pattern is None and c.guard is None:
                    wildcard = True
            if not wildcard:
                outs.append(t)
            return outs
        # simple statements
        n = self._node(st, "stmt")
        for p in preds:
            self._edge(p, n)
        if isinstance(st, ast.Return):
            self._edge(n, self.EXIT)
            self._exc(n, handlers)
            return []
        if isinstance(st, ast.Raise):
            if handlers:
                for m in handlers[-1]:
                    self._edge(n, m)
            # may also propagate
            self._edge(n, self.RAISE)
            return []
        if isinstance(st, ast.Break):
            if brk is not None:
                brk.append(n)
            return []
        if isinstance(st, ast.Continue):
            if cont is not None:
                self._edge(n, cont)
            return []
        self._exc(n, handlers)
        return [n]

    def _hdr(self, st, t):
        self.kind[t] = self.kind.get(t, "test")
        self.header_of = getattr(self, "header_of", {})
        self.header_of[t] = st

    def _exc(self, n, handlers):
        # any statement inside a try body may jump to the handlers
        if handlers:
            for m in handlers[-1]:
                self._edge(n, m)

    # -- queries ---------------------------------------------------------
    def reachable(self, start, avoid: Optional[Callable] = None, include_start=False) -> set:
        """nodes reachable from `start` along paths whose intermediate nodes do
        not satisfy avoid(node)"""
        seen = set()
        stack = list(self.succ.get(start, ()))
        if include_start:
            stack = [start]
        while stack:
            n = stack.pop()
            if n in seen:
                continue
            seen.add(n)
            if avoid is not None and n not in (self.EXIT, self.RAISE) and avoid(n):
                continue
            stack.extend(self.succ.get(n, ()))
        return seen

    def branch(self, test, polarity: bool) -> set:
        """entry nodes of the branch taken when the if / while test `test` evaluates to `polarity`"""
        ts = self.true_succ.get(test, set())
        return set(ts) if polarity else set(self.succ.get(test, ())) - set(ts)

    def reaches(self, starts, target, avoid: Optional[Callable] = None) -> bool:
        for s_ in starts:
            if s_ is target or target in self.reachable(s_, avoid=avoid, include_start=True):
                return True
        return False

    def must_pass(self, start, target, through: Callable) -> bool:
        """True iff every path start ->* target passes a node satisfying `through`
        (strictly between them)."""
        r = self.reachable(start, avoid=lambda n: n is not target and through(n))
        if target not in r:
            return True
        # target reached; was it reached only via through-nodes?  reachable() stops
        # expanding at through-nodes, so reaching target means a through-free path exists
        return False

    def find(self, pred: Callable) -> list:
        return [n for n in self.nodes if pred(n)]

    def stmts_calling(self, suffix: str) -> list:
        out = []
        for n in self.nodes:
            if self.kind.get(n) == "def" or self.kind.get(n) == "handler":
                continue
            for c in _calls_own(n):
                d = dotted(c.func)
                if d and (d == suffix or d.endswith("." + suffix)):
                    out.append(n)
                    break
        return out

    # -- reaching definitions ---------------------------------------------
    def defs_of(self, n) -> set[str]:
        """names / dotted attributes (self.x) assigned by node n"""
        out: set[str] = set()
        if self.kind.get(n) in ("def",):
            out.add(n.name)
            return out
        if self.kind.get(n) == "iter":
            st = self.header_of[n]
            for t in ast.walk(st.target):
                if isinstance(t, ast.Name):
                    out.add(t.id)
            return out
        if self.kind.get(n) == "with":
            for it in n.items:
                if it.optional_vars is not None:
                    for t in ast.walk(it.optional_vars):
                        if isinstance(t, ast.Name):
                            out.add(t.id)
            return out
        if isinstance(n, ast.Assign):
            tg = list(n.targets)
        elif isinstance(n, (ast.AugAssign, ast.AnnAssign)):
            tg = [n.target] if getattr(n, "value", None) is not None or isinstance(n, ast.AugAssign) else []
        else:
            tg = []
        while tg:
            t = tg.pop()
            if isinstance(t, (ast.Tuple, ast.List)):
                tg.extend(t.elts)
            elif isinstance(t, ast.Starred):
                tg.append(t.value)
            elif isinstance(t, ast.Name):
                out.add(t.id)
            elif isinstance(t, ast.Attribute):
                d = dotted(t)
                if d:
                    out.add(d)
            elif isinstance(t, ast.Subscript):
                d = dotted(t.value)
                if d:
                    out.add(d + "[]")
        return out

    def reaching_defs(self, use_node, name: str) -> list:
        """definitions of `name` that may reach `use_node` (backward search)."""
        seen = set()
        out = []
        stack = list(self.pred.get(use_node, ()))
        while stack:
            n = stack.pop()
            if n in seen:
                continue
            seen.add(n)
            if n in (self.ENTRY,):
                out.append(self.ENTRY)
                continue
            if n not in (self.EXIT, self.RAISE) and name in self.defs_of(n):
                out.append(n)
                continue
            stack.extend(self.pred.get(n, ()))
        return out

    def node_of(self, sub: ast.AST):
        """CFG node containing ast node `sub`."""
        for n in self.nodes:
            if self.kind.get(n) in ("def",):
                continue
            if self.kind.get(n) == "handler":
                continue
            if self.kind.get(n) == "with":
                for it in n.items:
                    for x in ast.walk(it.context_expr):
                        if x is sub:
                            return n
                continue
            for x in ast.walk(n):
                if x is sub:
                    return n
        return None


def _calls_own(n) -> Iterable[ast.Call]:
    if isinstance(n, (ast.FunctionDef, ast.AsyncFunctionDef, ast.ClassDef, ast.ExceptHandler)):
        return []
    if isinstance(n, ast.With):
        out = []
        for it in n.items:
            out += [x for x in ast.walk(it.context_expr) if isinstance(x, ast.Call)]
        return out
    res = []
    stack = [n]
    while stack:
        x = stack.pop()
        if isinstance(x, ast.Call):
            res.append(x)
        if isinstance(x, (ast.Lambda,)):
            continue
        stack.extend(ast.iter_child_nodes(x))
    return res


def reads_of(n, name: str) -> bool:
    """does CFG node n read dotted name `name` (Load context)?"""
    if isinstance(n, (ast.FunctionDef, ast.AsyncFunctionDef, ast.ClassDef, ast.ExceptHandler)):
        return False
    nodes = []
    if isinstance(n, ast.With):
        for it in n.items:
            nodes += list(ast.walk(it.context_expr))
    else:
        nodes = list(ast.walk(n))
    for x in nodes:
        if isinstance(x, (ast.Attribute, ast.Name)) and isinstance(getattr(x, "ctx", None), ast.Load):
            if dotted(x) == name:
                return True
    return False


def specialise(fnode: ast.AST, name: str, value: bool) -> ast.AST:
    """copy of a function with tests on a fixed boolean parameter resolved: `if <name>:` / `if not <name>:` statements, conditional
    expressions, and `<name> and X` / `<name> or X` inside tests (removes the infeasible paths a path-insensitive CFG would otherwise see).
    Nested functions reading the parameter as a closure variable are specialised too."""
    import copy

    def simp(t):
        """the test with the parameter replaced by its value, constants folded through not / and / or"""
        if isinstance(t, ast.Name) and t.id == name:
            return ast.copy_location(ast.Constant(value), t)
        if isinstance(t, ast.UnaryOp) and isinstance(t.op, ast.Not):
            o = simp(t.operand)
            if isinstance(o, ast.Constant) and isinstance(o.value, bool):
                return ast.copy_location(ast.Constant(not o.value), t)
            return ast.copy_location(ast.UnaryOp(ast.Not(), o), t) if o is not t.operand else t
        if isinstance(t, ast.BoolOp):
            is_and = isinstance(t.op, ast.And)
            vals = []
            for v in t.values:
                v2 = simp(v)
                if isinstance(v2, ast.Constant) and isinstance(v2.value, bool):
                    if v2.value == is_and:
                        continue            # neutral element
                    if not vals:
                        return ast.copy_location(ast.Constant(v2.value), t)     # absorbing element first: the rest is never evaluated
                    vals.append(v2)
                    break                   # the operands after an absorbing element are never evaluated
                vals.append(v2)
            if not vals:
                return ast.copy_location(ast.Constant(is_and), t)
            if len(vals) == 1:
                return vals[0]
            return ast.copy_location(ast.BoolOp(t.op, vals), t)
        return t

    class T(ast.NodeTransformer):
        def visit_If(self, node):
            self.generic_visit(node)
            t = simp(node.test)
            if isinstance(t, ast.Constant) and isinstance(t.value, bool):
                body = node.body if t.value else node.orelse
                return body if body else ast.copy_location(ast.Pass(), node)
            node.test = t
            return node

        def visit_IfExp(self, node):
            self.generic_visit(node)
            t = simp(node.test)
            if isinstance(t, ast.Constant) and isinstance(t.value, bool):
                return node.body if t.value else node.orelse
            node.test = t
            return node

        def visit_While(self, node):
            self.generic_visit(node)
            node.test = simp(node.test)
            return node

    new = T().visit(copy.deepcopy(fnode))
    ast.fix_missing_locations(new)
    return new
