"""Normal forms of expressions: the comparison primitive of every structural rule.

A rule that asks "is this the expression E?" must give the same answer for every spelling of E that evaluates identically.
`nf(node)` maps an expression (or simple statement) to a canonical string such that the following spellings coincide:

  * commutativity / association of + and *, `a - b` vs `-b + a`, `x / 2` vs `0.5 * x` vs `1 / 2 * x`, `x * x` vs `x ** 2`,
    `-(a - b)` vs `b - a`                                      (sums of products with exact rational coefficients; no distribution)
  * `a > b` vs `b < a`, operand order of == / != / and / or / & / |
  * keyword vs positional arguments: numpy's `axis`, and every callee defined in the package (bound through its signature)
  * the numpy spellings unified by canon.py (method vs function reductions, append vs concatenate, ...)
  * redundant parentheses, line breaks, comments, type annotations on assignments

`eqx(node, text, ctx)` compares against a pattern written as source text.  With a context (function + source model) it also looks
through *temporaries* (a local assigned exactly once is replaced by its defining expression unless the pattern names it) and
through *extracted helpers* (a call of a same-module function whose body is straight-line code ending in one return is replaced
by that return expression), so that "introduce a temporary" and "extract a helper" do not change a verdict either.

None of this weakens a rule: two expressions with the same normal form compute the same value (up to floating-point
re-association), so a rule that accepted one spelling accepts exactly the spellings that are equivalent to it.
"""
from __future__ import annotations

import ast
import copy
from fractions import Fraction
from typing import Callable, Optional

from .canon import Canon

NP_AXIS_SECOND = {"sum", "all", "any", "min", "max", "mean", "prod", "flip", "concatenate", "expand_dims", "amax", "amin", "squeeze", "argmin",
                  "argmax", "cumsum", "diff_axis_unused", "stack", "take_unused"}
COMM_BITOPS = (ast.BitAnd, ast.BitOr, ast.BitXor)
CMP_SWAP = {ast.Gt: "<", ast.GtE: "<="}
CMP_TXT = {ast.Lt: "<", ast.LtE: "<=", ast.Eq: "==", ast.NotEq: "!=", ast.Is: " is ", ast.IsNot: " is not ", ast.In: " in ", ast.NotIn: " not in "}


def _num(v) -> Optional[Fraction]:
    if isinstance(v, bool):
        return None
    if isinstance(v, int):
        return Fraction(v)
    if isinstance(v, float):
        if v != v or v in (float("inf"), float("-inf")):
            return None
        return Fraction(repr(v))
    return None


def _fr(q: Fraction) -> str:
    return str(q.numerator) if q.denominator == 1 else f"{q.numerator}/{q.denominator}"


class NF:
    """sig(name, call) -> list of parameter names of the package callee (or None)"""

    def __init__(self, sig: Optional[Callable] = None):
        self.sig = sig

    # ---------------------------------------------------------------- arithmetic
    def _sum(self, e: ast.AST, c: Fraction, out: list) -> None:
        """flatten e into out: list of (coef, factors dict)"""
        if isinstance(e, ast.BinOp) and isinstance(e.op, ast.Add):
            self._sum(e.left, c, out)
            self._sum(e.right, c, out)
        elif isinstance(e, ast.BinOp) and isinstance(e.op, ast.Sub):
            self._sum(e.left, c, out)
            self._sum(e.right, -c, out)
        elif isinstance(e, ast.UnaryOp) and isinstance(e.op, ast.USub):
            self._sum(e.operand, -c, out)
        elif isinstance(e, ast.UnaryOp) and isinstance(e.op, ast.UAdd):
            self._sum(e.operand, c, out)
        else:
            coef, fac = self._prod(e)
            # coef * (single sum factor)  ->  distribute the coefficient into that sum
            if len(fac) == 1:
                (k, (ex, node)), = fac.items()
                if ex == 1 and node is not None and self._is_sum(node):
                    self._sum(node, c * coef, out)
                    return
            out.append((c * coef, fac))

    @staticmethod
    def _is_sum(e: ast.AST) -> bool:
        return (isinstance(e, ast.BinOp) and isinstance(e.op, (ast.Add, ast.Sub))) or (isinstance(e, ast.UnaryOp) and isinstance(e.op, (ast.USub, ast.UAdd))
                                                                                       and NF._is_sum(e.operand))

    def _prod(self, e: ast.AST):
        """(coef, {key: (exponent, node)})"""
        fac: dict = {}
        coef = [Fraction(1)]

        def add(key, ex, node):
            old = fac.get(key)
            nex = (old[0] if old else Fraction(0)) + ex
            if nex == 0:
                fac.pop(key, None)
            else:
                fac[key] = (nex, node)

        def walk(x, ex: Fraction):
            if isinstance(x, ast.BinOp) and isinstance(x.op, ast.Mult):
                walk(x.left, ex)
                walk(x.right, ex)
            elif isinstance(x, ast.BinOp) and isinstance(x.op, ast.Div):
                walk(x.left, ex)
                walk(x.right, -ex)
            elif isinstance(x, ast.UnaryOp) and isinstance(x.op, ast.USub):
                if ex.denominator == 1:
                    coef[0] *= Fraction(-1) ** int(ex)
                    walk(x.operand, ex)
                else:
                    add(self.nf(x), ex, x)
            elif isinstance(x, ast.UnaryOp) and isinstance(x.op, ast.UAdd):
                walk(x.operand, ex)
            elif isinstance(x, ast.BinOp) and isinstance(x.op, ast.Pow) and self._const(x.right) is not None:
                walk(x.left, ex * self._const(x.right))
            elif self._const(x) is not None:
                v = self._const(x)
                if ex.denominator == 1 and (v != 0 or ex > 0):
                    coef[0] *= v ** int(ex)
                else:
                    add(_fr(v), ex, None)
            elif self._is_sum(x):
                # a parenthesised sum as a factor: pull out its overall sign so that (a - b) and -(b - a) agree
                terms: list = []
                self._sum(x, Fraction(1), terms)
                txt, sign = self._sum_txt(terms, pull_sign=True)
                if sign < 0 and ex.denominator == 1:
                    coef[0] *= Fraction(-1) ** int(ex)
                    add("(" + txt + ")", ex, _NegatedSum(x))
                elif sign < 0:
                    add("(" + self._sum_txt(terms)[0] + ")", ex, x)
                else:
                    add("(" + txt + ")", ex, x)
            else:
                add(self.nf(x), ex, x)

        walk(e, Fraction(1))
        return coef[0], fac

    def _const(self, e: ast.AST) -> Optional[Fraction]:
        if isinstance(e, ast.Constant):
            return _num(e.value)
        if isinstance(e, ast.UnaryOp) and isinstance(e.op, ast.USub):
            v = self._const(e.operand)
            return -v if v is not None else None
        if isinstance(e, ast.BinOp) and isinstance(e.op, (ast.Add, ast.Sub, ast.Mult, ast.Div, ast.Pow)):
            a, b = self._const(e.left), self._const(e.right)
            if a is None or b is None:
                return None
            try:
                if isinstance(e.op, ast.Add):
                    return a + b
                if isinstance(e.op, ast.Sub):
                    return a - b
                if isinstance(e.op, ast.Mult):
                    return a * b
                if isinstance(e.op, ast.Div):
                    return a / b
                if b.denominator == 1 and abs(b) <= 64:
                    return a ** int(b)
            except (ZeroDivisionError, OverflowError):
                return None
        return None

    def _fac_txt(self, fac: dict) -> str:
        parts = []
        for k in sorted(fac):
            ex = fac[k][0]
            parts.append(k if ex == 1 else f"{k}^{_fr(ex)}")
        return "*".join(parts)

    def _sum_txt(self, terms: list, pull_sign: bool = False):
        acc: dict[str, Fraction] = {}
        for c, fac in terms:
            k = self._fac_txt(fac)
            acc[k] = acc.get(k, Fraction(0)) + c
        items = sorted((k, c) for k, c in acc.items() if c != 0)
        if not items:
            return "0", 1
        sign = 1
        if pull_sign and items[0][1] < 0:
            sign = -1
            items = [(k, -c) for k, c in items]
        out = []
        for k, c in items:
            if k == "":
                out.append(_fr(c))
            elif c == 1:
                out.append(k)
            else:
                out.append(f"{_fr(c)}*{k}")
        return "+".join(out), sign

    # ---------------------------------------------------------------- general
    def nf(self, e) -> str:
        if e is None:
            return "None"
        if isinstance(e, _NegatedSum):
            return self.nf(ast.UnaryOp(op=ast.USub(), operand=e.node))
        if isinstance(e, list):
            return ";".join(self.nf(x) for x in e)
        m = getattr(self, "_" + type(e).__name__, None)
        if m is not None:
            return m(e)
        if isinstance(e, ast.expr):
            return "?" + ast.dump(e)
        if isinstance(e, ast.stmt):
            return "?" + " ".join(ast.unparse(e).split())
        return "?" + repr(e)

    def _Constant(self, e):
        v = _num(e.value)
        if v is not None:
            return _fr(v)
        return repr(e.value)

    def _Name(self, e):
        return e.id

    def _Attribute(self, e):
        return self.nf(e.value) + "." + e.attr

    def _Subscript(self, e):
        return self.nf(e.value) + "[" + self._slice(e.slice) + "]"

    def _slice(self, s):
        if isinstance(s, ast.Tuple):
            return ",".join(self._slice(x) for x in s.elts)
        return self.nf(s)

    def _Slice(self, e):
        return f"{self.nf(e.lower) if e.lower else ''}:{self.nf(e.upper) if e.upper else ''}" + (f":{self.nf(e.step)}" if e.step else "")

    def _Tuple(self, e):
        return "(" + ",".join(self.nf(x) for x in e.elts) + ",)"

    def _List(self, e):
        return "[" + ",".join(self.nf(x) for x in e.elts) + "]"

    def _Set(self, e):
        return "{" + ",".join(sorted(self.nf(x) for x in e.elts)) + "}"

    def _Dict(self, e):
        return "{" + ",".join(sorted(f"{self.nf(k)}:{self.nf(v)}" for k, v in zip(e.keys, e.values))) + "}"

    def _Starred(self, e):
        return "*" + self.nf(e.value)

    def _JoinedStr(self, e):
        return ast.unparse(e)

    def _NamedExpr(self, e):
        return f"({self.nf(e.target)}:={self.nf(e.value)})"

    def _arith(self, e):
        terms: list = []
        self._sum(e, Fraction(1), terms)
        return self._sum_txt(terms)[0] if len(terms) != 1 or True else ""

    def _BinOp(self, e):
        if isinstance(e.op, (ast.Add, ast.Sub, ast.Mult, ast.Div)) or (isinstance(e.op, ast.Pow) and self._const(e.right) is not None):
            # string concatenation / list repetition are not arithmetic; they are never reordered by a maintainer either, but keep them apart
            if isinstance(e.op, (ast.Add, ast.Mult)) and any(isinstance(x, (ast.List, ast.JoinedStr)) or (isinstance(x, ast.Constant) and isinstance(x.value, str))
                                                            for x in (e.left, e.right)):
                return f"seq{type(e.op).__name__}({self.nf(e.left)},{self.nf(e.right)})"
            txt = self._arith(e)
            return txt if _atomic(txt) else "(" + txt + ")"
        if isinstance(e.op, COMM_BITOPS):
            ops = []

            def fl(x):
                if isinstance(x, ast.BinOp) and type(x.op) is type(e.op):
                    fl(x.left)
                    fl(x.right)
                else:
                    ops.append(self.nf(x))
            fl(e)
            return type(e.op).__name__ + "(" + ",".join(sorted(ops)) + ")"
        return f"{type(e.op).__name__}({self.nf(e.left)},{self.nf(e.right)})"

    def _UnaryOp(self, e):
        if isinstance(e.op, (ast.USub, ast.UAdd)):
            txt = self._arith(e)
            return txt if _atomic(txt) else "(" + txt + ")"
        return f"{type(e.op).__name__}({self.nf(e.operand)})"

    def _BoolOp(self, e):
        return type(e.op).__name__ + "(" + ",".join(sorted(self.nf(x) for x in e.values)) + ")"

    def _Compare(self, e):
        if len(e.ops) == 1:
            a, b, op = self.nf(e.left), self.nf(e.comparators[0]), e.ops[0]
            if type(op) in CMP_SWAP:
                return f"({b}{CMP_SWAP[type(op)]}{a})"
            if isinstance(op, (ast.Eq, ast.NotEq)):
                a, b = sorted((a, b))
            return f"({a}{CMP_TXT[type(op)]}{b})"
        items = [e.left] + list(e.comparators)
        ops = list(e.ops)
        if all(type(o) in CMP_SWAP for o in ops):
            items = items[::-1]
            txt = [CMP_SWAP[type(o)] for o in ops[::-1]]
        else:
            txt = [CMP_TXT.get(type(o)) or CMP_SWAP[type(o)].replace("<", ">") for o in ops]
        out = self.nf(items[0])
        for o, x in zip(txt, items[1:]):
            out += o + self.nf(x)
        return "(" + out + ")"

    def _IfExp(self, e):
        return f"ite({self.nf(e.test)},{self.nf(e.body)},{self.nf(e.orelse)})"

    def _Lambda(self, e):
        names = [a.arg for a in e.args.args]
        body = _rename(e.body, {nm: f"_l{i}" for i, nm in enumerate(names)})
        return f"lambda{len(names)}:" + self.nf(body)

    def _comp(self, e, kind):
        ren = {}
        for g in e.generators:
            for t in ast.walk(g.target):
                if isinstance(t, ast.Name):
                    ren[t.id] = f"_c{len(ren)}"
        e2 = _rename(e, ren)
        gens = ";".join(f"for {self.nf(g.target)} in {self.nf(g.iter)}" + "".join(f" if {self.nf(i)}" for i in g.ifs) for g in e2.generators)
        head = self.nf(e2.elt) if not isinstance(e2, ast.DictComp) else f"{self.nf(e2.key)}:{self.nf(e2.value)}"
        return f"{kind}({head} {gens})"

    def _ListComp(self, e):
        return self._comp(e, "listcomp")

    def _GeneratorExp(self, e):
        return self._comp(e, "listcomp")

    def _SetComp(self, e):
        return self._comp(e, "setcomp")

    def _DictComp(self, e):
        return self._comp(e, "dictcomp")

    def _Call(self, e):
        f = self.nf(e.func)
        args = list(e.args)
        kws = [(k.arg, k.value) for k in e.keywords]
        short = e.func.attr if isinstance(e.func, ast.Attribute) else (e.func.id if isinstance(e.func, ast.Name) else "")
        is_np = isinstance(e.func, ast.Attribute) and isinstance(e.func.value, ast.Name) and e.func.value.id in ("np", "numpy")
        if is_np and short in NP_AXIS_SECOND and len(args) == 2 and not any(k == "axis" for k, _ in kws):
            kws.append(("axis", args.pop()))
        elif not is_np and self.sig is not None and kws and not any(isinstance(a, ast.Starred) for a in args):
            params = self.sig(short, e)
            if params:
                # bind keywords to positions as far as they extend the positional prefix
                kwd = {k: v for k, v in kws if k is not None}
                while len(args) < len(params) and params[len(args)] in kwd:
                    args.append(kwd.pop(params[len(args)]))
                kws = [(k, v) for k, v in kws if k is None or k in kwd]
        parts = [self.nf(a) for a in args] + sorted(f"{k}={self.nf(v)}" if k else f"**{self.nf(v)}" for k, v in kws)
        return f + "(" + ",".join(parts) + ")"

    # ---------------------------------------------------------------- simple statements
    def _Assign(self, e):
        return ",".join(self.nf(t) for t in e.targets) + ":=" + self.nf(e.value)

    def _AnnAssign(self, e):
        return self.nf(e.target) + ":=" + (self.nf(e.value) if e.value is not None else "<decl>")

    def _AugAssign(self, e):
        return f"{self.nf(e.target)}{type(e.op).__name__}={self.nf(e.value)}"

    def _Return(self, e):
        return "return " + self.nf(e.value)

    def _Expr(self, e):
        return self.nf(e.value)

    def _Assert(self, e):
        return "assert " + self.nf(e.test)

    def _Raise(self, e):
        return "raise " + self.nf(e.exc)

    def _Break(self, e):
        return "break"

    def _Continue(self, e):
        return "continue"

    def _Pass(self, e):
        return "pass"


class _NegatedSum:
    def __init__(self, node):
        self.node = node


def _atomic(txt: str) -> bool:
    depth = 0
    for ch in txt:
        if ch in "([{":
            depth += 1
        elif ch in ")]}":
            depth -= 1
        elif ch in "+" and depth == 0:
            return False
    return True


def _rename(node: ast.AST, ren: dict) -> ast.AST:
    node = copy.deepcopy(node)
    for x in ast.walk(node):
        if isinstance(x, ast.Name) and x.id in ren:
            x.id = ren[x.id]
        elif isinstance(x, ast.arg) and x.arg in ren:
            x.arg = ren[x.arg]
    return node


# ------------------------------------------------------------------------------------------------ context: temporaries and helpers


class Ctx:
    """Resolution context of one function: looks through single-assignment temporaries and simple extracted helpers."""

    def __init__(self, source, fi, depth: int = 4):
        self.S = source
        self.fi = fi
        self.depth = depth
        self._defs: Optional[dict] = None
        self._loop_defs: dict = {}

    # package signature lookup for keyword binding
    def sig(self, short: str, call: ast.Call):
        return package_sig(self.S, short)

    def local_defs(self) -> dict:
        """name -> defining expression, for locals of the function assigned exactly once by a plain assignment"""
        if self._defs is not None:
            return self._defs
        fn = self.fi.node
        count: dict[str, int] = {}
        expr: dict[str, ast.AST] = {}
        loop_assign: dict[str, tuple] = {}
        params = {a.arg for a in fn.args.args + fn.args.kwonlyargs + fn.args.posonlyargs}
        if fn.args.vararg:
            params.add(fn.args.vararg.arg)
        if fn.args.kwarg:
            params.add(fn.args.kwarg.arg)

        def bump(t, val=None):
            if isinstance(t, ast.Name):
                count[t.id] = count.get(t.id, 0) + 1
                if val is not None:
                    expr[t.id] = val
            elif isinstance(t, (ast.Tuple, ast.List)):
                for x in t.elts:
                    bump(x)
            elif isinstance(t, ast.Starred):
                bump(t.value)

        def visit(body, nested):
            for st in body:
                for x in _walk_scope(st):
                    if isinstance(x, ast.Assign):
                        for t in x.targets:
                            if (isinstance(t, (ast.Tuple, ast.List)) and isinstance(x.value, (ast.Tuple, ast.List)) and len(t.elts) == len(x.value.elts)
                                    and len(x.targets) == 1 and not nested(x) and not any(isinstance(e_, ast.Starred) for e_ in list(t.elts) + list(x.value.elts))):
                                # a, b = e1, e2: each name is a temporary for its own expression (when no right-hand side reads a name assigned here)
                                names = {e_.id for e_ in t.elts if isinstance(e_, ast.Name)}
                                reads = {y.id for v_ in x.value.elts for y in ast.walk(v_) if isinstance(y, ast.Name)}
                                for tt, vv in zip(t.elts, x.value.elts):
                                    bump(tt, vv if isinstance(tt, ast.Name) and not (names & reads) else None)
                                continue
                            bump(t, x.value if len(x.targets) == 1 and not nested(x) else None)
                            if len(x.targets) == 1 and nested(x) and isinstance(t, ast.Name):
                                loop_assign[t.id] = (x.value, x)
                    elif isinstance(x, ast.AnnAssign) and x.value is not None:
                        bump(x.target, x.value if not nested(x) else None)
                        if nested(x) and isinstance(x.target, ast.Name):
                            loop_assign[x.target.id] = (x.value, x)
                    elif isinstance(x, ast.AugAssign):
                        bump(x.target)
                        bump(x.target)
                    elif isinstance(x, (ast.For, ast.AsyncFor)):
                        bump(x.target)
                        bump(x.target)
                    elif isinstance(x, (ast.With, ast.AsyncWith)):
                        for it in x.items:
                            if it.optional_vars is not None:
                                bump(it.optional_vars)
                                bump(it.optional_vars)
                    elif isinstance(x, ast.NamedExpr):
                        bump(x.target)
                        bump(x.target)
                    elif isinstance(x, ast.comprehension):
                        bump(x.target)
                        bump(x.target)
                    elif isinstance(x, (ast.Global, ast.Nonlocal)):
                        for nm in x.names:
                            count[nm] = count.get(nm, 0) + 2
                    elif isinstance(x, ast.ExceptHandler) and x.name:
                        count[x.name] = count.get(x.name, 0) + 2
                    elif isinstance(x, (ast.FunctionDef, ast.Lambda)) and x is not st:
                        pass

        # assignments inside loops are executed repeatedly: not temporaries
        in_loop: set[int] = set()
        for x in ast.walk(fn):
            if isinstance(x, (ast.For, ast.While, ast.AsyncFor)):
                for y in ast.walk(x):
                    in_loop.add(id(y))
        # nested function bodies have their own scope: a name assigned there is not a temporary of this function; conversely a
        # nested function assigning to the same name makes it ambiguous -> count it twice
        for x in ast.walk(fn):
            if isinstance(x, (ast.FunctionDef, ast.AsyncFunctionDef)) and x is not fn:
                for y in ast.walk(x):
                    if isinstance(y, ast.Nonlocal):
                        for nm in y.names:
                            count[nm] = count.get(nm, 0) + 2
        visit(fn.body, lambda x: id(x) in in_loop)
        self._defs = {k: v for k, v in expr.items() if count.get(k) == 1 and k not in params}
        # a name assigned exactly once, inside a loop body, is a temporary *within one iteration*: usable at a later statement of the block it
        # is assigned in, as long as nothing it reads is re-bound / mutated in between (checked per use in resolve)
        self._loop_defs = {}
        for k, (v, st) in loop_assign.items():
            if count.get(k) == 1 and k not in params:
                blk = _block_of(fn, st)
                if blk is not None:
                    self._loop_defs[k] = (v, st, blk)
        # closure variables: a name that this (nested) function neither binds nor receives is read from the enclosing function;
        # if it is a single-assignment temporary there, it is one here too
        parent = getattr(self.fi, "parent", None)
        if parent is not None:
            outer = Ctx(self.S, parent, depth=self.depth).local_defs()
            mine = set(count) | params
            for k, v in outer.items():
                if k not in mine and k not in self._defs:
                    self._defs[k] = v
        return self._defs

    def helper_body(self, call: ast.Call):
        """(params, return expression) of a simple same-module helper called here, else None"""
        f = call.func
        name = None
        if isinstance(f, ast.Attribute) and isinstance(f.value, ast.Name) and (f.value.id in ("self", "cls") or (self.fi.cls and f.value.id == self.fi.cls)):
            name = f.attr
            cands = [self.S.modules[self.fi.module].funcs.get(f"{c}.{name}") for c in ([self.fi.cls] if self.fi.cls else [])]
            skip_first = True
        elif isinstance(f, ast.Name):
            name = f.id
            cands = [self.S.modules[self.fi.module].funcs.get(f"{self.fi.qual}.{name}"), self.S.modules[self.fi.module].funcs.get(name)]
            skip_first = False
        else:
            return None
        cands = [c for c in cands if c is not None]
        if not cands:
            return None
        h = cands[0]
        body = [st for st in h.node.body if not (isinstance(st, ast.Expr) and isinstance(st.value, ast.Constant) and isinstance(st.value.value, str))]
        if not body or not isinstance(body[-1], ast.Return) or body[-1].value is None:
            return None
        if any(not isinstance(st, (ast.Assign, ast.AnnAssign)) for st in body[:-1]) or len(body) > 8:
            return None
        params = [a.arg for a in h.node.args.args]
        # a helper that re-binds one of its own parameters (`matrix = np.expand_dims(matrix, ..)`) is not "body + return of the arguments":
        # substituting the call's arguments for the parameters would drop that statement -- do not look through it
        rebound = {t.id for st in body[:-1] for t in ast.walk(st.targets[0] if isinstance(st, ast.Assign) else st.target) if isinstance(t, ast.Name)}
        if rebound & set(params):
            return None
        deco = {ast.unparse(d) for d in h.node.decorator_list}
        if skip_first and "staticmethod" not in deco and params:
            params = params[1:]
        if h.node.args.vararg or h.node.args.kwarg:
            return None
        ret = body[-1].value
        # inline the helper's own temporaries
        sub = Ctx(self.S, h, depth=self.depth)
        ret = sub.resolve(ret, keep=set(params) | {"self", "cls"}, helpers=False)
        return params, h.node.args.defaults, ret

    def resolve(self, node: ast.AST, keep: set[str] = frozenset(), helpers: bool = True, _depth: int = 0, maxdepth: Optional[int] = None,
                keep_calls: Optional[set[str]] = None) -> ast.AST:
        """copy of node with temporaries (not in `keep`) and simple helper calls (not named in `keep`) replaced by their definitions"""
        defs = self.local_defs()
        ctx = self
        if maxdepth is None:
            maxdepth = self.depth
        if keep_calls is None:
            keep_calls = keep

        class R(ast.NodeTransformer):
            def visit_Name(self, x):
                if isinstance(x.ctx, ast.Load) and x.id in defs and x.id not in keep and _depth < maxdepth:
                    return ctx.resolve(defs[x.id], keep, helpers, _depth + 1, maxdepth, keep_calls)
                if isinstance(x.ctx, ast.Load) and x.id in ctx._loop_defs and x.id not in keep and _depth < maxdepth:
                    v, st, blk = ctx._loop_defs[x.id]
                    if _usable_at(v, st, blk, getattr(x, "lineno", None)):
                        r = ctx.resolve(v, keep, helpers, _depth + 1, maxdepth, keep_calls)
                        for y in ast.walk(r):            # the inlined expression is evaluated where the temporary was assigned
                            if hasattr(y, "lineno"):
                                y.lineno = st.lineno
                        return r
                return x

            def visit_Lambda(self, x):
                return x

            def visit_FunctionDef(self, x):
                return x

            def visit_Call(self, x):
                self.generic_visit(x)
                if not helpers or _depth >= maxdepth:
                    return x
                short = x.func.attr if isinstance(x.func, ast.Attribute) else (x.func.id if isinstance(x.func, ast.Name) else None)
                if short is None or short in keep_calls:
                    return x
                hb = ctx.helper_body(x)
                if hb is None:
                    return x
                params, defaults, ret = hb
                if any(isinstance(a, ast.Starred) for a in x.args) or any(k.arg is None for k in x.keywords) or len(x.args) > len(params):
                    return x
                bind = dict(zip(params, x.args))
                for k in x.keywords:
                    if k.arg not in params or k.arg in bind:
                        return x
                    bind[k.arg] = k.value
                for p, d in zip(params[len(params) - len(defaults):], defaults):
                    bind.setdefault(p, d)
                if set(params) - set(bind):
                    return x
                return _subst(ret, bind)

        return Canon().visit(R().visit(copy.deepcopy(node)))


def _block_of(fn, stmt):
    """the statement list that directly contains stmt"""
    for x in ast.walk(fn):
        for fld in ("body", "orelse", "finalbody"):
            b = getattr(x, fld, None)
            if isinstance(b, list) and any(y is stmt for y in b):
                return b
        if isinstance(x, ast.Try):
            for h in x.handlers:
                if any(y is stmt for y in h.body):
                    return h.body
    return None


def _usable_at(value, stmt, block, use_line) -> bool:
    """the temporary assigned by `stmt` (inside a loop) still holds `value` at line use_line: the use is in a later statement of the same block
    (same iteration, after the assignment) and no statement in between re-binds a name the value reads, stores to an attribute / item of such a
    name, or calls a method on it"""
    if use_line is None or stmt not in block:
        return False
    later = block[block.index(stmt) + 1:]
    if not later:
        return False
    end = max(getattr(s_, "end_lineno", s_.lineno) for s_ in later)
    if not (later[0].lineno <= use_line <= end):
        return False
    reads = {y.id for y in ast.walk(value) if isinstance(y, ast.Name)}
    # the temporary itself must not be mutated either (an object that is stepped / written to is not a value)
    tgt = stmt.targets[0] if isinstance(stmt, ast.Assign) else stmt.target
    if isinstance(tgt, ast.Name):
        reads = reads | {tgt.id}
    for s_ in later:
        if s_.lineno > use_line:
            break
        for y in ast.walk(s_):
            if getattr(y, "lineno", 0) > use_line:
                continue
            if isinstance(y, ast.Name) and isinstance(y.ctx, ast.Store) and y.id in reads:
                return False
            if isinstance(y, (ast.Attribute, ast.Subscript)) and isinstance(y.ctx, ast.Store):
                base = y
                while isinstance(base, (ast.Attribute, ast.Subscript)):
                    base = base.value
                if isinstance(base, ast.Name) and base.id in reads:
                    return False
            if isinstance(y, ast.Expr) and isinstance(y.value, ast.Call) and isinstance(y.value.func, ast.Attribute):
                base = y.value.func.value
                while isinstance(base, (ast.Attribute, ast.Subscript)):
                    base = base.value
                if isinstance(base, ast.Name) and base.id in reads and base.id not in ("self", "np", "logging"):
                    return False
    return True


def _walk_scope(st):
    """nodes of st that belong to the enclosing function's scope (bodies of nested functions / lambdas / classes excluded)"""
    if isinstance(st, (ast.FunctionDef, ast.AsyncFunctionDef, ast.ClassDef, ast.Lambda)):
        return
    stack = [st]
    while stack:
        x = stack.pop()
        yield x
        for c in ast.iter_child_nodes(x):
            if not isinstance(c, (ast.FunctionDef, ast.AsyncFunctionDef, ast.ClassDef, ast.Lambda)):
                stack.append(c)


def _subst(node: ast.AST, bind: dict) -> ast.AST:
    class Sb(ast.NodeTransformer):
        def visit_Name(self, x):
            if isinstance(x.ctx, ast.Load) and x.id in bind:
                return copy.deepcopy(bind[x.id])
            return x
    return Sb().visit(copy.deepcopy(node))


_SIG_CACHE: dict = {}


def package_sig(S, short: str):
    """parameter names (without self/cls) of the package callable `short` when every definition of that name agrees"""
    key = (id(S), short)
    if key in _SIG_CACHE:
        return _SIG_CACHE[key]
    sigs = set()
    for m in S.modules.values():
        for q, fi in m.funcs.items():
            if q.split(".")[-1] == short and fi.parent is None:
                ps = [a.arg for a in fi.node.args.args]
                deco = {ast.unparse(d) for d in fi.node.decorator_list}
                if fi.cls and "staticmethod" not in deco and ps:
                    ps = ps[1:]
                sigs.add(tuple(ps))
        if short in m.classes:
            ci = m.classes[short]
            init = ci.methods.get("__init__")
            if init is not None:
                sigs.add(tuple(a.arg for a in init.node.args.args[1:]))
            else:
                flds = tuple(st.target.id for st in ci.node.body if isinstance(st, ast.AnnAssign) and isinstance(st.target, ast.Name))
                if flds:
                    sigs.add(flds)
    r = list(next(iter(sigs))) if len(sigs) == 1 else None
    _SIG_CACHE[key] = r
    return r


# ------------------------------------------------------------------------------------------------ public helpers

_PCACHE: dict = {}


def parse_pattern(text: str) -> ast.AST:
    if text in _PCACHE:
        return _PCACHE[text]
    try:
        t = ast.parse(text.strip(), mode="eval").body
    except SyntaxError:
        mod = ast.parse(text.strip())
        t = mod.body[0] if len(mod.body) == 1 else mod.body
    if isinstance(t, list):
        t = [Canon().visit(x) for x in t]
    else:
        t = Canon().visit(t)
        ast.fix_missing_locations(t)
    _PCACHE[text] = t
    return t


def names_in(node) -> set[str]:
    out = set()
    for x in (ast.walk(node) if not isinstance(node, list) else (y for n_ in node for y in ast.walk(n_))):
        if isinstance(x, ast.Name):
            out.add(x.id)
        elif isinstance(x, ast.Attribute):
            out.add(x.attr)
    return out


def ids_in(node) -> set[str]:
    return {x.id for r in (node if isinstance(node, list) else [node]) for x in ast.walk(r) if isinstance(x, ast.Name)}


def nf(node, ctx: Optional[Ctx] = None) -> str:
    return NF(ctx.sig if ctx is not None else None).nf(node)


def P(text: str, ctx: Optional[Ctx] = None) -> str:
    return nf(parse_pattern(text), ctx)


def eqx(node, text: str, ctx: Optional[Ctx] = None) -> bool:
    """node is (a spelling of) the expression / simple statement `text`"""
    if node is None:
        return False
    pat = parse_pattern(text)
    want = nf(pat, ctx)
    if nf(node, ctx) == want:
        return True
    if ctx is not None:
        keep, kc = ids_in(pat), names_in(pat)
        for d in range(1, ctx.depth + 1):
            if nf(ctx.resolve(node, keep=keep, maxdepth=d, keep_calls=kc), ctx) == want:
                return True
    return False


def eq_any(node, texts, ctx: Optional[Ctx] = None) -> bool:
    return any(eqx(node, t, ctx) for t in texts)


def has(node, text: str, ctx: Optional[Ctx] = None) -> bool:
    """some sub-expression of node is (a spelling of) `text`"""
    if node is None:
        return False
    pat = parse_pattern(text)
    want = nf(pat, ctx)
    h = NF(ctx.sig if ctx is not None else None)
    nodes = [node] if not isinstance(node, list) else node
    for root in nodes:
        for x in ast.walk(root):
            if isinstance(x, (ast.expr, ast.stmt)) and not isinstance(x, (ast.Load, ast.Store)) and h.nf(x) == want:
                return True
    if ctx is not None:
        keep, kc = ids_in(pat), names_in(pat)
        for d in range(1, ctx.depth + 1):
            for root in nodes:
                r = ctx.resolve(root, keep=keep, maxdepth=d, keep_calls=kc)
                for x in ast.walk(r):
                    if isinstance(x, (ast.expr, ast.stmt)) and h.nf(x) == want:
                        return True
    return False


def same(a, b, ctx: Optional[Ctx] = None) -> bool:
    return nf(a, ctx) == nf(b, ctx)


# ------------------------------------------------------------------------------------------------ patterns with metavariables
# A name starting with two underscores in a pattern (`__L`) is a metavariable: it stands for any one local name, consistently.
# Rules use them to identify a variable by its *role* (what is assigned to it / how it is used) instead of by its spelling, so
# that renaming a local does not change a verdict.

import itertools


def _metas(pat) -> list[str]:
    nodes = pat if isinstance(pat, list) else [pat]
    return sorted({x.id for r in nodes for x in ast.walk(r) if isinstance(x, ast.Name) and x.id.startswith("__") and not x.id.endswith("__")})


def _name_ids(node) -> list[str]:
    nodes = node if isinstance(node, list) else [node]
    seen: list[str] = []
    for r in nodes:
        for x in ast.walk(r):
            if isinstance(x, ast.Name) and x.id not in seen:
                seen.append(x.id)
    return seen


def match(node, text: str, ctx: Optional[Ctx] = None, fixed: Optional[dict] = None) -> Optional[dict]:
    """binding {metavariable: local name} under which node is (a spelling of) the pattern, else None.  `fixed` pre-binds metavariables."""
    if node is None:
        return None
    pat = parse_pattern(text)
    fixed = {("__" + k if not k.startswith("__") else k): v for k, v in (fixed or {}).items()}
    metas = [m for m in _metas(pat) if m not in fixed]
    h = NF(ctx.sig if ctx is not None else None)

    def attempt(nd) -> Optional[dict]:
        got = h.nf(nd)
        cand = _name_ids(nd)
        if len(metas) > len(cand):
            return None
        for asg in itertools.permutations(cand, len(metas)):
            ren = dict(zip(metas, asg))
            ren.update(fixed)
            if h.nf(_rename(pat, ren) if not isinstance(pat, list) else [_rename(p_, ren) for p_ in pat]) == got:
                return {k[2:]: v for k, v in ren.items()}
        return None

    r = attempt(node)
    if r is None and ctx is not None:
        keep, kc = ids_in(pat) | set(fixed.values()), names_in(pat)
        for d in range(1, ctx.depth + 1):
            r = attempt(ctx.resolve(node, keep=keep, maxdepth=d, keep_calls=kc))
            if r is not None:
                break
    return r


def find(nodes, text: str, ctx: Optional[Ctx] = None, fixed: Optional[dict] = None) -> list[tuple[ast.AST, dict]]:
    """all (node, binding) among `nodes` matching the pattern"""
    out = []
    for x in nodes:
        b = match(x, text, ctx, fixed)
        if b is not None:
            out.append((x, b))
    return out


def with_closure_temporaries(S, fi):
    """copy of the nested function `fi` in which every free name that is a single-assignment temporary of the enclosing function is replaced by
    its definition (so that a term extracted from the nested function is expressed in the enclosing function's primary names)"""
    parent = getattr(fi, "parent", None)
    if parent is None:
        return fi
    outer = Ctx(S, parent).local_defs()
    fn = fi.node
    bound = {a.arg for a in fn.args.posonlyargs + fn.args.args + fn.args.kwonlyargs}
    for x in _walk_scope_fn(fn):
        if isinstance(x, ast.Name) and isinstance(x.ctx, ast.Store):
            bound.add(x.id)
    pc = Ctx(S, parent)

    class R(ast.NodeTransformer):
        def visit_Name(self, x):
            if isinstance(x.ctx, ast.Load) and x.id in outer and x.id not in bound:
                return pc.resolve(outer[x.id])
            return x

    new = R().visit(copy.deepcopy(fn))
    ast.fix_missing_locations(new)
    import dataclasses
    return dataclasses.replace(fi, node=new)


def _walk_scope_fn(fn):
    for st in fn.body:
        yield from _walk_scope(st)
