"""C04 -- plasma profile inside the wall conserves energy-momentum pointwise.

R04.1 v(T) solves the T30 equation: w gamma^2 v == s1 with w = -T dV/dT
R04.2 the LHS is the T33 residual: (1/2) sum (dphi/dz)^2 - V + w gamma^2 v^2 - s2
R04.3 s1 = c1 - Tout30, s2 = c2 - Tout33; boundary data keep their roles through the call chain (argument/parameter role agreement)
R04.4 every returned temperature is a root of that residual or is accompanied by a failure signal
R04.5 orientation: profiles with end points put the T-/low-T item first and the T+/high-T item last
R04.6 the minimised and the root-solved function are the same residual with the same data
R04.7 the out-of-equilibrium T30 / T33 assembled from the moments equal the direct integral of p^mu p^nu deltaF (shared with C13)

Recognition is by role, not by spelling: locals are identified by what is assigned to them (result of minimize_scalar / root_scalar,
tuple position of a known API call, `c1 - T30_out`, ...), expressions are compared through normal forms (`nf.eqx` / `nf.match`) that look
through temporaries and simple helpers, and the residual function may be a lambda or a local closure.  A pair may be assigned as a pair
(`a, b = e1, e2`: what is left of an inlined helper returning it), be returned by a simple helper, or be read by index from a local holding it.
Calls made through a `functools.partial` object are written out with all their arguments first (`partials_written_out`), values packed into a
namedtuple are read as the tuple of their fields (c03 `records_written_out`); the bracketing loop of the point solver may be one `while` or a
bounded `for` with an `else` clause / `while True` with guard clauses (R04.6 demands the same of every form: the root solve is reached only
after a test that found residual >= 0 at the final bracket end).
"""
from __future__ import annotations

import ast
import copy

import sympy as sp

from ..core import AnchorMissing, Check, FuncInfo, Undecided, calls_in, dotted, kwarg, own_nodes, src, walk_guarded
from ..flow import CFG
from ..hydro import n, same_term
from ..nf import Ctx, eqx, has, match, nf, same
from ..terms import Extractor, SUM, is_zero

LEVEL = "other"
EOM = "equationOfMotion:EOM"
ROLE_NAMES = {"c1", "c2", "velocityMid", "Tplus", "Tminus", "vevLowT", "vevHighT", "s1", "s2", "fields", "dPhidz"}
# roles of the elements of tuples returned by the public API (return order)
RET_ROLES = {"findHydroBoundaries": ("c1", "c2", "Tplus", "Tminus", "velocityMid"), "wallProfile": ("fields", "dPhidz")}


def _params(fi) -> list[str]:
    return [p for p in fi.params() if p not in ("self", "cls")]


# ------------------------------------------------------------------------------------------------ functools.partial written out
#
# `N = functools.partial(F, *a, **k)` (F a method `self.m` or a function of the package, N a local assigned once, the bound values plain
# expressions of parameters / single-assignment locals) is F with those parameters bound: on a copy of the routine
#   * a call `N(x, .., kw=..)` becomes `F(*a, x, .., **k, kw=..)`, keywords moved to their positions by F's signature;
#   * N used as a value (handed to a solver) becomes `lambda p, ..: F(*a, p, .., **k)` over F's remaining required parameters;
#   * the assignment itself goes.
# The rules then see the evaluations of F with all their arguments, as they were before the partial object was introduced.

_PARTIALS: dict = {}


def _plain_value(e, stable: set) -> bool:
    """an expression without calls over names that keep their value throughout the routine"""
    for x in ast.walk(e):
        if isinstance(x, ast.Name):
            if x.id not in stable:
                return False
        elif not isinstance(x, (ast.Constant, ast.Attribute, ast.BinOp, ast.UnaryOp, ast.Subscript, ast.Tuple, ast.Load, ast.operator, ast.unaryop, ast.Slice)):
            return False
    return True


def partials_written_out(S, fi) -> FuncInfo:
    key = (id(S), fi.name, id(fi.node))
    hit = _PARTIALS.get(key)
    if hit is not None:
        return hit[1]
    out = _partials_written_out(S, fi)
    _PARTIALS[key] = (fi.node, out)
    return out


def _partials_written_out(S, fi) -> FuncInfo:
    from .c03 import _is_partial, _replace_child, _scope_info, _static
    if not any(isinstance(x, ast.Call) and _is_partial(S, fi, x) for x in own_nodes(fi.node)):
        return fi
    node = copy.deepcopy(fi.node)
    cur = FuncInfo(fi.module, fi.qual, node, fi.cls, fi.parent)
    defs = Ctx(S, cur).local_defs()
    own, own_ids, nested_bound, parent = _scope_info(node)
    stored = {x.id for x in own if isinstance(x, ast.Name) and isinstance(x.ctx, (ast.Store, ast.Del))}
    # names that keep one value throughout: parameters never re-bound, locals bound exactly once outside every loop
    nstores: dict = {}
    for x in own:
        if isinstance(x, ast.Name) and isinstance(x.ctx, (ast.Store, ast.Del)):
            nstores[x.id] = nstores.get(x.id, 0) + 1
        elif isinstance(x, ast.AugAssign) and isinstance(x.target, ast.Name):
            nstores[x.target.id] = nstores.get(x.target.id, 0) + 1
    looped = {y.id for x in own if isinstance(x, (ast.For, ast.AsyncFor, ast.While, ast.ListComp, ast.SetComp, ast.DictComp, ast.GeneratorExp))
              for y in ast.walk(x) if isinstance(y, ast.Name) and isinstance(y.ctx, (ast.Store, ast.Del))}
    once = {nm for nm, k_ in nstores.items() if k_ == 1 and nm not in looped and nm not in cur.params()}
    stable = ({p for p in cur.params() if p not in stored} | set(defs) | once | {"self", "cls"}) - nested_bound
    mod = S.modules[fi.module]
    changed = False
    for st in [x for x in own if isinstance(x, ast.Assign)]:
        if not (len(st.targets) == 1 and isinstance(st.targets[0], ast.Name) and st.targets[0].id in defs and defs[st.targets[0].id] is st.value
                and isinstance(st.value, ast.Call) and _is_partial(S, fi, st.value) and st.value.args):
            continue
        N, call = st.targets[0].id, st.value
        if N in nested_bound or any(isinstance(a, ast.Starred) for a in call.args) or any(k.arg is None for k in call.keywords):
            continue
        F = call.args[0]
        callee = None
        if isinstance(F, ast.Attribute) and isinstance(F.value, ast.Name) and F.value.id == "self" and fi.cls:
            callee = S.method(f"{fi.module}:{fi.cls}", F.attr)
            skip = 0 if callee is None or _static(callee) else 1
        elif isinstance(F, ast.Name) and F.id not in stored and F.id not in cur.params() and F.id not in nested_bound:
            q = f"{fi.module}:{F.id}" if F.id in mod.funcs else S.resolve_import(fi.module, F.id)
            callee = S.func(q) if q and S.has_func(q) and S.func(q).parent is None and S.func(q).cls is None else None
            skip = 0
        if callee is None or callee.node.args.vararg or callee.node.args.kwarg or callee.node.args.posonlyargs:
            continue
        a_ = callee.node.args
        pos = [x.arg for x in a_.args][skip:]
        dflt = dict(zip(pos[len(pos) - len(a_.defaults):], a_.defaults)) if a_.defaults else {}
        kwonly = {x.arg for x in a_.kwonlyargs}
        bpos, bkw = list(call.args[1:]), {k.arg: k.value for k in call.keywords}
        if len(bpos) > len(pos) or any(k not in pos[len(bpos):] and k not in kwonly for k in bkw) or not all(_plain_value(e, stable) for e in bpos + list(bkw.values())):
            continue
        open_ = [p for p in pos[len(bpos):] if p not in bkw]
        required = [p for p in open_ if p not in dflt]
        if any(k.arg for k in a_.kwonlyargs if k.arg not in bkw and a_.kw_defaults[a_.kwonlyargs.index(k)] is None):
            continue

        def build(args, kws):
            """F(*bound, *args, **bound keywords, **kws) with the keywords moved to their positions as far as they continue the positional prefix"""
            allpos = [copy.deepcopy(e) for e in bpos] + list(args)
            allkw = {k: copy.deepcopy(v) for k, v in bkw.items()}
            allkw.update(kws)
            while len(allpos) < len(pos) and pos[len(allpos)] in allkw:
                allpos.append(allkw.pop(pos[len(allpos)]))
            return ast.Call(func=copy.deepcopy(F), args=allpos, keywords=[ast.keyword(arg=k, value=v) for k, v in allkw.items()])

        uses = [x for x in ast.walk(node) if isinstance(x, ast.Name) and x.id == N and isinstance(x.ctx, ast.Load)]
        plan = []
        ok = True
        for x in uses:
            p_ = parent.get(id(x))
            if isinstance(p_, ast.Call) and p_.func is x:
                if any(isinstance(a, ast.Starred) for a in p_.args) or any(k.arg is None for k in p_.keywords) or len(bpos) + len(p_.args) > len(pos) \
                        or any(k.arg in pos[:len(bpos) + len(p_.args)] or (k.arg not in pos and k.arg not in kwonly) for k in p_.keywords):
                    ok = False
                    break
                plan.append((p_, build(list(p_.args), {k.arg: k.value for k in p_.keywords})))
            elif isinstance(p_, ast.Attribute) and p_.value is x:
                ok = False                   # .func / .args / an attribute set on the object
                break
            elif not required:
                ok = False
                break
            else:
                taken = {y.id for e in bpos + list(bkw.values()) for y in ast.walk(e) if isinstance(y, ast.Name)} | {"self", "cls"}
                names = []
                for p in required:
                    nm = p
                    while nm in taken:
                        nm += "_"
                    taken.add(nm)
                    names.append(nm)
                lam = ast.Lambda(args=ast.arguments(posonlyargs=[], args=[ast.arg(arg=nm) for nm in names], kwonlyargs=[], kw_defaults=[], defaults=[]),
                                 body=build([ast.Name(id=nm, ctx=ast.Load()) for nm in names], {}))
                plan.append((x, lam))
        if not ok or not plan:
            continue
        for old, new in plan:
            ast.copy_location(new, old)
            for y in ast.walk(new):
                if not hasattr(y, "lineno"):
                    ast.copy_location(y, old)
            _replace_child(parent.get(id(old)), old, new)
            for c in ast.iter_child_nodes(new):
                parent[id(c)] = new
        _replace_child(parent.get(id(st)), st, ast.copy_location(ast.Pass(), st))
        changed = True
    # a partial object of a method that takes boundary data, which could not be written out, hides how those data are handed on
    for x in own_nodes(node):
        if isinstance(x, ast.Call) and _is_partial(S, fi, x) and x.args and isinstance(x.args[0], ast.Attribute) and isinstance(x.args[0].value, ast.Name) \
                and x.args[0].value.id == "self" and fi.cls and (m_ := S.method(f"{fi.module}:{fi.cls}", x.args[0].attr)) is not None \
                and any(_base(p) in ROLE_NAMES for p in m_.params()):
            raise Undecided(f"{fi.qual}: functools.partial of self.{x.args[0].attr} could not be written out (line {x.lineno})")
    if not changed:
        return fi
    ast.fix_missing_locations(node)
    return FuncInfo(fi.module, fi.qual, node, fi.cls, fi.parent)


def _plain(S, fi) -> FuncInfo:
    """the routine with partial objects and small records written out (see partials_written_out, c03.records_written_out)"""
    from .c03 import records_written_out
    return partials_written_out(S, records_written_out(S, fi))


def r04_12(chk: Check):
    S = chk.src
    fv = S.func(f"{EOM}.plasmaVelocity")
    fl = S.func(f"{EOM}.temperatureProfileEqLHS")
    chk.touch(fv.name, fl.name)
    pv, pl = _params(fv), _params(fl)
    if len(pv) != 3 or len(pl) != 5:
        raise AnchorMissing("plasmaVelocity(fields, T, s1) / temperatureProfileEqLHS(fields, dPhidz, T, s1, s2): parameter lists changed")
    # parameters are addressed by position; the symbols below are the roles
    ex = Extractor(S, positive={"T"})
    fields, dphi, T, s1, s2 = ex.sym("fields"), ex.sym("dPhidz"), ex.sym("T"), ex.sym("s1"), ex.sym("s2")
    v = ex.single(fv, dict(zip(pv, (fields, T, s1))))
    dVdT = sp.Function("thermo.effectivePotential.derivT")(fields, T)
    chk.ob("R04.1", fv.where(), "plasmaVelocity uses the enthalpy w = -T dV/dT(fields, T) of the potential at the local field value",
           v.has(dVdT), str(v)[:160], key="enthalpy-def")
    W = sp.Symbol("W", positive=True)
    S1 = sp.Symbol("S1", real=True, nonzero=True)
    vv = v.subs(dVdT, -W / T).subs(s1, S1)
    res = sp.simplify(sp.radsimp(W * vv / (1 - vv**2)) - S1)
    ok, how = is_zero(res, chk.seed)
    chk.ob("R04.1", fv.where(), "v(T) satisfies w gamma^2(v) v == s1  (the T30 equation), for either sign of s1", ok, how, key="T30", how=how)
    # R04.2
    ps = [p for p in ex.paths(fl, dict(zip(pl, (fields, dphi, T, s1, s2)))) if p.raised is None]

    def strip0(e):
        if isinstance(e, sp.Basic) and isinstance(e, sp.core.function.AppliedUndef) and e.func.__name__ == "getitem" and e.args[1] == 0:
            return e.args[0]
        return e
    for p_ in ps:
        p_.value = strip0(p_.value)
    vals = {str(p.value) for p in ps}
    if len(vals) != 1:
        raise Undecided(f"temperatureProfileEqLHS: return branches differ: {vals}")
    lhs = ps[0].value
    V = sp.Function("thermo.effectivePotential.evaluate")(fields, T)
    K = lhs.subs({dVdT: 0, V: 0, s1: 0, s2: 0})
    ref = K - V + W * vv**2 / (1 - vv**2) - s2
    ok, how = is_zero(sp.simplify(lhs.subs(dVdT, -W / T).subs(s1, S1) - sp.radsimp(ref)), chk.seed)
    chk.ob("R04.2", fl.where(), "LHS == kinetic - V(fields, T) + w gamma^2 v^2 - s2 with v = v(T) of R04.1  (the T33 equation)", ok, how,
           key="T33", how=how)
    okk = sp.simplify(K - sp.Rational(1, 2) * SUM(dphi**2)) == 0
    chk.ob("R04.2", fl.where(), "kinetic term == (1/2) sum over fields of (dphi/dz)^2", okk, str(K), key="kinetic")
    chk.floor("R04.1", 2)
    chk.floor("R04.2", 2)


# ------------------------------------------------------------------------------------------------ the point solver: roles of its locals


class _Point:
    """findPlasmaProfilePoint: its parameters (by position) and the roles of its locals"""

    def __init__(self, S):
        self.S = S
        # (a residual bound with functools.partial is written out: every evaluation shows all its arguments again)
        self.fp = fp = _plain(S, S.func(f"{EOM}.findPlasmaProfilePoint"))
        self.cx = Ctx(S, fp)
        prm = _params(fp)
        if len(prm) != 9:
            raise AnchorMissing("findPlasmaProfilePoint: parameter list changed (expected index, c1, c2, velocityMid, fields, dPhidz, offEquilDeltas, Tplus, Tminus)")
        self.C1, self.C2, self.F, self.D = prm[1], prm[2], prm[4], prm[5]
        self.TP, self.TM = prm[7], prm[8]
        # the out-of-equilibrium stress: (T30, T33) = self.deltaToTmunu(...)
        self.out = None
        for st in own_nodes(fp.node):
            if isinstance(st, ast.Assign) and isinstance(st.value, ast.Call) and eqx(st.value.func, "self.deltaToTmunu") and len(st.targets) == 1:
                t = st.targets[0]
                if isinstance(t, ast.Tuple) and len(t.elts) == 2 and all(isinstance(e, ast.Name) for e in t.elts):
                    self.out = (t.elts[0].id, t.elts[1].id)
                elif isinstance(t, ast.Name):
                    self.out = (f"{t.id}[0]", f"{t.id}[1]")
        if self.out is None:
            raise AnchorMissing("findPlasmaProfilePoint: the (T30, T33) result of self.deltaToTmunu(...) not found")
        self.S1 = f"{self.C1} - {self.out[0]}"
        self.S2 = f"{self.C2} - {self.out[1]}"
        # every evaluation of the residual / of the velocity, also inside lambdas and local closures
        self.lhs_calls = sorted([c for c in ast.walk(fp.node) if isinstance(c, ast.Call) and eqx(c.func, "self.temperatureProfileEqLHS")], key=lambda c: (c.lineno, c.col_offset))
        self.vel_calls = sorted([c for c in ast.walk(fp.node) if isinstance(c, ast.Call) and eqx(c.func, "self.plasmaVelocity")], key=lambda c: (c.lineno, c.col_offset))
        if not self.lhs_calls:
            raise AnchorMissing("findPlasmaProfilePoint: no call of self.temperatureProfileEqLHS found")

    # -- the residual as a function of the temperature alone
    def residual_of(self, T: str) -> str:
        return f"self.temperatureProfileEqLHS({self.F}, {self.D}, {T}, {self.S1}, {self.S2})"

    def callable_body(self, f):
        """(parameter, body) of a one-parameter callable expression: a lambda, or the name of a local closure with a straight-line body"""
        S, fp = self.S, self.fp
        f = self.cx.resolve(f, helpers=False) if isinstance(f, ast.Name) and f.id in self.cx.local_defs() else f
        if isinstance(f, ast.Lambda) and len(f.args.args) == 1 and not f.args.defaults:
            return f.args.args[0].arg, f.body
        if isinstance(f, ast.Name):
            from .c06 import _local_func
            fi = _local_func(S, fp, f.id)
            if fi is not None and fi.parent is fp:
                prm = fi.params()
                body = [st for st in fi.node.body if not (isinstance(st, ast.Expr) and isinstance(st.value, ast.Constant) and isinstance(st.value.value, str))]
                rebound = sum(1 for x in own_nodes(fp.node) if isinstance(x, (ast.Assign, ast.AugAssign, ast.AnnAssign)) and f.id in {t.id for t in ast.walk(x) if isinstance(t, ast.Name) and isinstance(t.ctx, ast.Store)})
                if len(prm) == 1 and not fi.node.args.defaults and body and isinstance(body[-1], ast.Return) and body[-1].value is not None \
                        and all(isinstance(st, (ast.Assign, ast.AnnAssign)) for st in body[:-1]) and not rebound:
                    return prm[0], Ctx(S, fi).resolve(body[-1].value, keep={prm[0]}, helpers=False)
        return None

    def is_residual(self, f) -> bool:
        """f is (a spelling of) T -> temperatureProfileEqLHS(fields, dPhidz, T, c1 - T30out, c2 - T33out) with this point's data"""
        pb = self.callable_body(f)
        return pb is not None and eqx(pb[1], self.residual_of(pb[0]), self.cx)

    def residual_at(self, e):
        """if e evaluates the residual at some temperature: that temperature expression (else None)"""
        if isinstance(e, ast.Call) and eqx(e.func, "self.temperatureProfileEqLHS"):
            T = kwarg(e, "T", 2)
            if T is not None and eqx(e, self.residual_of(n(T)), self.cx):
                return T
            return None
        if isinstance(e, ast.Call) and len(e.args) == 1 and not e.keywords and self.is_residual(e.func):
            return e.args[0]
        return None


def _base(name: str) -> str:
    if name in ROLE_NAMES:
        return name
    b = name.rstrip("0123456789")
    return b[:-5] if b.endswith("Input") and len(b) > 5 else b


def _returned_tuple(S, fi, v, length: int):
    """the tuple display a call of a simple helper (straight-line body + one `return a, b, ...`) evaluates to, written over the caller's names"""
    if S is None or not isinstance(v, ast.Call):
        return None
    cx = Ctx(S, fi)
    if cx.helper_body(v) is None:
        return None
    r = cx.resolve(v, keep=set(cx.local_defs()), keep_calls=set())
    return r if isinstance(r, (ast.Tuple, ast.List)) and length in (None, len(r.elts)) else None


def _int_index(sl):
    if isinstance(sl, ast.Constant) and isinstance(sl.value, int) and not isinstance(sl.value, bool):
        return sl.value
    if isinstance(sl, ast.UnaryOp) and isinstance(sl.op, ast.USub) and isinstance(sl.operand, ast.Constant) and isinstance(sl.operand.value, int):
        return -sl.operand.value
    return None


def _role_map(fi, outer: dict | None = None, S=None) -> dict:
    """local name -> role (None: no role established).  Parameters carry the role their name declares (API); a local gets the role of what
    is assigned to it: a tuple position of findHydroBoundaries / wallProfile, a phase location, `c1 - ...` (s1), `c2 - ...` (s2), a copy;
    `a, b = e1, e2` assigns element by element (also when the pair is held in a temporary or returned by a simple helper)."""
    roles: dict = dict(outer or {})
    for p in fi.params():
        roles[p] = _base(p)
    assigned: dict[str, list] = {}
    # single-assignment locals holding a call result (`res = self.f(...)` followed by `a, b = res`)
    stores: dict[str, list] = {}
    for st in own_nodes(fi.node):
        if isinstance(st, ast.Name) and isinstance(st.ctx, ast.Store):
            stores.setdefault(st.id, []).append(st)
    temps = {st.targets[0].id: st.value for st in own_nodes(fi.node) if isinstance(st, ast.Assign) and len(st.targets) == 1 and isinstance(st.targets[0], ast.Name)
             and isinstance(st.value, (ast.Call, ast.Tuple)) and len(stores.get(st.targets[0].id, [])) == 1}

    def add(name, what):
        assigned.setdefault(name, []).append(what)

    for st in own_nodes(fi.node):
        tv = None
        if isinstance(st, ast.Assign):
            tv = [(t, st.value) for t in st.targets]
        elif isinstance(st, ast.AnnAssign) and st.value is not None:
            tv = [(st.target, st.value)]
        elif isinstance(st, ast.AugAssign) and isinstance(st.target, ast.Name):
            add(st.target.id, ("none",))
        elif isinstance(st, (ast.For, ast.comprehension)):
            for x in ast.walk(st.target):
                if isinstance(x, ast.Name):
                    add(x.id, ("none",))
        elif isinstance(st, ast.NamedExpr) and isinstance(st.target, ast.Name):
            add(st.target.id, ("none",))
        for t, v in tv or []:
            if isinstance(t, ast.Name):
                add(t.id, ("expr", v))
            elif isinstance(t, (ast.Tuple, ast.List)):
                if isinstance(v, ast.Name) and v.id in temps:
                    v = temps[v.id]
                v = _returned_tuple(S, fi, v, len(t.elts)) or v
                if isinstance(v, (ast.Tuple, ast.List)) and len(v.elts) == len(t.elts) and not any(isinstance(e, ast.Starred) for e in list(t.elts) + list(v.elts)):
                    # `a, b = e1, e2` (what is left of an extracted helper returning a pair, or a pair held in a temporary): element by element
                    for e, ve in zip(t.elts, v.elts):
                        if isinstance(e, ast.Name):
                            add(e.id, ("expr", ve))
                        else:
                            for x in ast.walk(e):
                                if isinstance(x, ast.Name) and isinstance(x.ctx, ast.Store):
                                    add(x.id, ("none",))
                    continue
                short = (dotted(v.func) or "").split(".")[-1] if isinstance(v, ast.Call) else ""
                for i, e in enumerate(t.elts):
                    if isinstance(e, ast.Name):
                        add(e.id, ("role", RET_ROLES[short][i]) if short in RET_ROLES and i < len(RET_ROLES[short]) else ("none",))
                    else:
                        for x in ast.walk(e):
                            if isinstance(x, ast.Name) and isinstance(x.ctx, ast.Store):
                                add(x.id, ("none",))
    params = set(fi.params())
    for nm in assigned:
        if nm not in params:
            roles[nm] = None

    def expr_role(v):
        if isinstance(v, ast.Name):
            return roles.get(v.id)
        if isinstance(v, ast.BinOp):
            # boundary constant minus the out-of-equilibrium stress (any spelling of `c - out` / `c - out[k]`)
            b = match(v, "__c - __o") or match(v, "__c - __o[0]") or match(v, "__c - __o[1]")
            return {"c1": "s1", "c2": "s2"}.get(roles.get(b["c"])) if b else None
        if isinstance(v, ast.Subscript) and (i := _int_index(v.slice)) is not None:
            # element i of a call result / of a pair held in a single-assignment local: `res[0]` is what `a, b = res` puts in `a`.  The elements of
            # an API result belong together (the fields and the gradient of one wall, the boundary data of one velocity): the role is established
            # only when every element is read from that one evaluation -- `self.wallProfile(..)[0]` alone, which drops its partner, has none
            src_ = temps.get(v.value.id) if isinstance(v.value, ast.Name) else None
            src_ = _returned_tuple(S, fi, src_, None) or src_
            if isinstance(src_, ast.Call):
                rr = RET_ROLES.get((dotted(src_.func) or "").split(".")[-1], ())
                taken = {k % len(rr) for x in own_nodes(fi.node) if isinstance(x, ast.Subscript) and isinstance(x.value, ast.Name) and x.value.id == v.value.id
                         and (k := _int_index(x.slice)) is not None and -len(rr) <= k < len(rr)} if rr else set()
                return rr[i] if -len(rr) <= i < len(rr) and taken == set(range(len(rr))) else None
            if isinstance(src_, (ast.Tuple, ast.List)) and not any(isinstance(e, ast.Starred) for e in src_.elts) and -len(src_.elts) <= i < len(src_.elts):
                return expr_role(src_.elts[i])
            return None
        if isinstance(v, ast.Call) and isinstance(v.func, ast.Attribute) and v.func.attr == "getFieldPoint" and isinstance(v.func.value, ast.Name):
            return roles.get(v.func.value.id)          # one point of a profile keeps the profile's role
        if isinstance(v, ast.Attribute) and v.attr == "fieldsAtMinimum" and isinstance(v.value, ast.Call):
            d = dotted(v.value.func) or ""
            return "vevLowT" if d.endswith(".freeEnergyLow") else "vevHighT" if d.endswith(".freeEnergyHigh") else None
        return None

    for _ in range(4):
        for nm, hows in assigned.items():
            if nm in params:
                # a parameter that is reassigned keeps its declared role only if every assignment agrees
                rs = {h[1] if h[0] == "role" else expr_role(h[1]) if h[0] == "expr" else None for h in hows} | {roles[nm]}
            else:
                rs = {h[1] if h[0] == "role" else expr_role(h[1]) if h[0] == "expr" else None for h in hows}
            if nm in params and roles[nm] not in ROLE_NAMES:
                continue
            roles[nm] = rs.pop() if len(rs) == 1 else None
    return roles


def r04_3(chk: Check, P: "_Point"):
    S = chk.src
    fp, cx = P.fp, P.cx
    chk.touch(fp.name)
    # s1, s2: the values handed to the residual (positions 3, 4) and to the velocity (position 2)
    bad = []
    for c in P.lhs_calls:
        a1, a2 = kwarg(c, "s1", 3), kwarg(c, "s2", 4)
        if not (a1 is not None and eqx(a1, P.S1, cx)):
            bad.append(f"line {c.lineno}: s1 = `{n(a1) if a1 is not None else ''}`")
        if not (a2 is not None and eqx(a2, P.S2, cx)):
            bad.append(f"line {c.lineno}: s2 = `{n(a2) if a2 is not None else ''}`")
    for c in P.vel_calls:
        a1 = kwarg(c, "s1", 2)
        if not (a1 is not None and eqx(a1, P.S1, cx)):
            bad.append(f"line {c.lineno}: plasmaVelocity s1 = `{n(a1) if a1 is not None else ''}`")
    chk.ob("R04.3", fp.where(), "s1 = c1 - T30_out and s2 = c2 - T33_out (tuple positions 0, 1 of deltaToTmunu)",
           not bad, "; ".join(bad)[:300], key="s1s2")
    # role agreement of arguments through the EOM call chain
    methods = S.cls(EOM).methods
    from .c06 import _nested_funcs
    for cname, fm in sorted(methods.items()):
        # (calls made through a functools.partial object are written out first, so that their arguments take part in the role discipline)
        scopes = [(_plain(S, fm), None)]
        scopes[0] = (scopes[0][0], _role_map(scopes[0][0], S=S))
        todo = list(scopes)
        while todo:
            f0, outer = todo.pop()
            for f_ in _nested_funcs(S, f0, 1):
                # closures see the enclosing function's locals
                scopes.append((f_, _role_map(f_, outer, S)))
                todo.append(scopes[-1])
        for fi, roles in scopes:
            for c in sorted([x for x in own_nodes(fi.node) if isinstance(x, ast.Call)], key=lambda x: (-x.lineno, -x.col_offset)):
                if not (isinstance(c.func, ast.Attribute) and isinstance(c.func.value, ast.Name) and c.func.value.id == "self" and c.func.attr in methods):
                    continue
                callee = methods[c.func.attr]
                params = _params(callee)
                # an extracted helper (straight-line body + one return, looked through by every other rule) whose parameters declare no role
                # does not take part in the nominal role discipline: what it does with its arguments is judged where it is inlined
                formal = Ctx(S, fi).helper_body(c) is not None and not any(_base(p) in ROLE_NAMES for p in params)
                bad = []
                checked = 0
                pairs = list(zip(params, c.args)) + [(k.arg, k.value) for k in c.keywords if k.arg]
                for p, a in pairs:
                    if not isinstance(a, ast.Name):
                        continue
                    role_a = roles.get(a.id)
                    base_p = _base(p)
                    if base_p in ROLE_NAMES or (role_a in ROLE_NAMES and not formal):
                        checked += 1
                        if role_a != base_p:
                            bad.append(f"parameter `{p}` receives `{a.id}` ({'role ' + role_a if role_a else 'no role established'})")
                if checked:
                    chk.ob("R04.3", fi.where(c), f"{cname} -> {c.func.attr}: boundary data (c1, c2, vMid, T+, T-, vevs, s1, s2) are passed to the parameters "
                           "of the same role", not bad, "; ".join(bad), key=f"roles|{cname}->{c.func.attr}|{len(bad)}")
    # wallPressure unpacks findHydroBoundaries in its return order
    fw = _plain(S, S.func(f"{EOM}.wallPressure"))
    chk.touch(fw.name)
    cw = Ctx(S, fw)
    unp = [(st, cw.resolve(st.value, helpers=False)) for st in own_nodes(fw.node) if isinstance(st, ast.Assign) and isinstance(st.targets[0], ast.Tuple)]
    unp = [(st, v) for st, v in unp if isinstance(v, ast.Call) and eqx(v.func, "self.hydrodynamics.findHydroBoundaries")]
    ok = len(unp) == 1 and len(unp[0][0].targets[0].elts) == 5 and all(isinstance(e, ast.Name) for e in unp[0][0].targets[0].elts) \
        and eqx(kwarg(unp[0][1], "vwTry", 0), _params(fw)[0], cw)
    names = [e.id for e in unp[0][0].targets[0].elts] if ok else []
    if not unp:
        # ... or reads the five elements by index from a local holding the result: `res = findHydroBoundaries(v)`, `c1 = res[0]`, ...
        held = [st for st in own_nodes(fw.node) if isinstance(st, ast.Assign) and len(st.targets) == 1 and isinstance(st.targets[0], ast.Name)
                and isinstance(st.value, ast.Call) and eqx(st.value.func, "self.hydrodynamics.findHydroBoundaries")]
        if len(held) == 1 and held[0].targets[0].id in cw.local_defs() and eqx(kwarg(held[0].value, "vwTry", 0), _params(fw)[0], cw):
            R = held[0].targets[0].id
            by_pos: dict = {}
            for st in own_nodes(fw.node):
                if not (isinstance(st, ast.Assign) and len(st.targets) == 1):
                    continue
                t, v = st.targets[0], st.value
                pairs = [(t, v)] if isinstance(t, ast.Name) else list(zip(t.elts, v.elts)) if isinstance(t, ast.Tuple) and isinstance(v, ast.Tuple) and len(t.elts) == len(v.elts) else []
                for tt, vv in pairs:
                    if isinstance(tt, ast.Name) and isinstance(vv, ast.Subscript) and isinstance(vv.value, ast.Name) and vv.value.id == R and (i := _int_index(vv.slice)) is not None:
                        by_pos.setdefault(i % 5 if -5 <= i < 5 else i, []).append(tt.id)
            other = sum(1 for x in own_nodes(fw.node) if isinstance(x, ast.Name) and x.id == R and isinstance(x.ctx, ast.Load)) - sum(len(v) for v in by_pos.values())
            if sorted(by_pos) == [0, 1, 2, 3, 4] and all(len(v) == 1 and v[0] in cw.local_defs() for v in by_pos.values()) and other == 0:
                names = [by_pos[i][0] for i in range(5)]
                ok = True
    if ok:
        # the element at position i is handed on under the role of position i (at least once; every hand-over is checked above)
        handed = {}
        for c in own_nodes(fw.node):
            if isinstance(c, ast.Call) and isinstance(c.func, ast.Attribute) and isinstance(c.func.value, ast.Name) and c.func.value.id == "self" and c.func.attr in methods:
                prm = _params(methods[c.func.attr])
                for p, a in list(zip(prm, c.args)) + [(k.arg, k.value) for k in c.keywords if k.arg]:
                    if isinstance(a, ast.Name):
                        handed.setdefault(a.id, set()).add(_base(p))
        ok = len(set(names)) == 5 and all(handed.get(nm, set()) & ROLE_NAMES == {role} for nm, role in zip(names, RET_ROLES["findHydroBoundaries"]))
    chk.ob("R04.3", fw.where(), "wallPressure unpacks findHydroBoundaries(wallVelocity) as (c1, c2, T+, T-, vMid), its return order", ok, key="unpack")
    # the phase locations handed on as vevLowT / vevHighT are those of the temperatures behind / in front of the wall: the low-T minimum is
    # evaluated at (the clamped) T-, the high-T minimum at (the clamped) T+ -- also when that is computed by a helper returning the pair
    roles_w = _role_map(fw, S=S)
    seen: dict = {"freeEnergyLow": {}, "freeEnergyHigh": {}}
    for st in own_nodes(fw.node):
        if isinstance(st, (ast.Assign, ast.AnnAssign)) and st.value is not None:
            for x in ast.walk(cw.resolve(st.value, keep={nm for nm, r_ in roles_w.items() if r_ in ("Tplus", "Tminus")}, keep_calls=set())):
                if isinstance(x, ast.Attribute) and x.attr == "fieldsAtMinimum" and isinstance(x.value, ast.Call):
                    br = (dotted(x.value.func) or "").split(".")[-1]
                    T = kwarg(x.value, "x", 0)
                    if br in seen and T is not None:
                        seen[br][nf(x)] = {roles_w.get(y.id) for y in ast.walk(T) if isinstance(y, ast.Name)} & {"Tplus", "Tminus"}
    for br, temp, what in (("freeEnergyLow", "Tminus", "low-T phase at T-"), ("freeEnergyHigh", "Tplus", "high-T phase at T+")):
        chk.ob("R04.3", fw.where(), f"wallPressure locates the {what} (the temperature handed to {br} is computed from {temp} alone)",
               bool(seen[br]) and all(r == {temp} for r in seen[br].values()), str({k[:60]: sorted(v) for k, v in seen[br].items()})[:300], key=f"phase-temperature|{br}")
    fo = _plain(S, S.func(f"{EOM}.findPlasmaProfile"))
    chk.touch(fo.name)
    co = Ctx(S, fo)
    call = [c for c in calls_in(fo.node, "findPlasmaProfilePoint")]
    po = _params(fo)
    ok = False
    if len(call) == 1 and len(po) == 8:
        c1, c2, vmid, fields, dphi, deltas, tp, tm = po
        b = match(call[0], f"self.findPlasmaProfilePoint(__i, {c1}, {c2}, {vmid}, {fields}.getFieldPoint(__i), {dphi}.getFieldPoint(__i), {deltas}, {tp}, {tm})",
                  _LoopCtx(S, fo))
        # the index is the variable of the grid loop around the call
        ok = b is not None and any(isinstance(lp, ast.For) and any(y is call[0] for y in ast.walk(lp)) and _grid_index(lp, co) == b["i"] for lp in own_nodes(fo.node))
    chk.ob("R04.3", fo.where(), "findPlasmaProfile solves every grid index with that index's field point, gradient and moments", ok,
           n(call[0])[:200] if call else "", key="per-point")
    chk.floor("R04.3", 8)


def _grid_index(lp: ast.For, cx=None):
    """the name that runs over the grid indices in `for i in range(len(self.grid.xiValues))` / `for i, x in enumerate(self.grid.xiValues)`"""
    if isinstance(lp.target, ast.Name) and eqx(lp.iter, "range(len(self.grid.xiValues))", cx):
        return lp.target.id
    if isinstance(lp.target, ast.Tuple) and len(lp.target.elts) == 2 and isinstance(lp.target.elts[0], ast.Name) and eqx(lp.iter, "enumerate(self.grid.xiValues)", cx):
        return lp.target.elts[0].id
    return None


class _LoopCtx(Ctx):
    """Ctx that also looks through a temporary assigned once inside a loop body from loop-invariant data and the loop variable
    (the value is recomputed in every iteration before it is used, so replacing the name by its definition is exact)"""

    def local_defs(self) -> dict:
        if self._defs is not None:
            return self._defs
        defs = dict(super().local_defs())
        fn = self.fi.node
        count: dict[str, int] = {}
        for x in own_nodes(fn):
            if isinstance(x, ast.Name) and isinstance(x.ctx, (ast.Store, ast.Del)):
                count[x.id] = count.get(x.id, 0) + 1
            elif isinstance(x, ast.AugAssign) and isinstance(x.target, ast.Name):
                count[x.target.id] = count.get(x.target.id, 0) + 1
            elif isinstance(x, (ast.Global, ast.Nonlocal)):
                for nm in x.names:
                    count[nm] = count.get(nm, 0) + 2
        for x in ast.walk(fn):                  # names rebound by closures are never temporaries
            if isinstance(x, ast.Nonlocal):
                for nm in x.names:
                    count[nm] = count.get(nm, 0) + 2
        params = set(self.fi.params())
        for lp in own_nodes(fn):
            if not isinstance(lp, ast.For):
                continue
            for st in lp.body:       # top level of the loop body only: executed in every iteration, before the statements after it
                if isinstance(st, ast.Assign) and len(st.targets) == 1 and isinstance(st.targets[0], ast.Name):
                    nm = st.targets[0].id
                    used_before = any(isinstance(y, ast.Name) and y.id == nm for s0 in lp.body[:lp.body.index(st)] for y in ast.walk(s0))
                    operands = {y.id for y in ast.walk(st.value) if isinstance(y, ast.Name)}
                    loopvars = {y.id for y in ast.walk(lp.target) if isinstance(y, ast.Name)}
                    stable = all(count.get(o, 0) == 0 or (o in loopvars and count.get(o) == 1) for o in operands)
                    if count.get(nm) == 1 and nm not in params and not used_before and stable and not any(isinstance(y, ast.Call) and not isinstance(y.func, ast.Attribute) for y in ast.walk(st.value)):
                        defs[nm] = st.value
        self._defs = defs
        return defs


def _positive_when(test, T: str):
    """True: `test` holds iff T > 0;  False: `test` holds iff T <= 0;  None: neither"""
    if isinstance(test, ast.UnaryOp) and isinstance(test.op, ast.Not):
        r = _positive_when(test.operand, T)
        return None if r is None else not r
    if eqx(test, f"{T} > 0"):
        return True
    if eqx(test, f"{T} <= 0"):
        return False
    return None


def r04_4(chk: Check, P: "_Point"):
    S = chk.src
    fp = P.fp
    g = CFG(fp.node)
    rets = [x for x in g.nodes if isinstance(x, ast.Return)]

    def name_def(at, name):
        """the single plain assignment `name = value` reaching `at` (else None)"""
        dd = g.reaching_defs(at, name)
        if len(dd) == 1 and isinstance(dd[0], ast.Assign) and len(dd[0].targets) == 1 and isinstance(dd[0].targets[0], ast.Name):
            return dd[0]
        return None

    def solver_result(at, e, solver):
        """e is the result object of a scipy `solver` call (directly, or a local holding it)"""
        hop = 0
        while isinstance(e, ast.Name) and hop < 4:
            d = name_def(at, e.id)
            if d is None:
                return False
            at, e = d, d.value
            hop += 1
        return isinstance(e, ast.Call) and (dotted(e.func) or "").split(".")[-1] == solver

    def classify(at, val):
        hop = 0
        while isinstance(val, ast.Name) and hop < 4:
            d = name_def(at, val.id)
            if d is None:
                break
            at, val = d, d.value
            hop += 1
        if isinstance(val, ast.Attribute) and val.attr == "root" and solver_result(at, val.value, "root_scalar"):
            return "root", val
        if isinstance(val, ast.Attribute) and val.attr == "x" and solver_result(at, val.value, "minimize_scalar"):
            return "minimiser.x", val
        return "other", val

    seen = 0
    for r in sorted(rets, key=lambda x: x.lineno):
        v = r.value
        first = v.elts[0] if isinstance(v, ast.Tuple) else v
        if isinstance(first, ast.Constant) and first.value == 0:
            seen += 1
            chk.ob("R04.4", fp.where(r), "failure exit returns the non-positive sentinel temperature (0, 0)", eqx(v, "(0, 0)"), n(v), key="exit|sentinel")
            continue
        provs: dict[str, list] = {}
        if isinstance(first, ast.Name):
            for d in g.reaching_defs(r, first.id):
                if isinstance(d, ast.Assign) and len(d.targets) == 1 and isinstance(d.targets[0], ast.Name):
                    k, val = classify(d, d.value)
                    provs.setdefault(k, []).append(n(val))
                else:
                    provs.setdefault("other", []).append("<unknown>" if d is CFG.ENTRY else n(d))
        elif first is not None:
            k, val = classify(r, first)
            provs.setdefault(k, []).append(n(val))
        if not provs:
            provs["other"] = ["<unknown>"]
        for k in sorted(provs):
            seen += 1
            if k == "root":
                chk.ob("R04.4", fp.where(r), "returned temperature is the root of the T33 residual", True, key="exit|root")
            else:
                # a non-root temperature may only be returned together with a failure signal (none is given here: the flag of the point solver
                # is lowered by the caller for the sentinel only)
                shown = "; ".join(sorted(set(provs[k])))
                chk.ob("R04.4", fp.where(r), "a positive temperature that is not a root of the T33 residual is returned only together with a failure signal",
                       False, f"returns `{shown}` ({'the minimiser of the residual' if k == 'minimiser.x' else 'not a root'}) while successTemperatureProfile stays True",
                       key=f"nonroot-return|findPlasmaProfilePoint|{k}")
    if seen < 3:
        raise AnchorMissing("findPlasmaProfilePoint: fewer than 3 exits found")
    # caller lowers the flag for the sentinel
    fo = _plain(S, S.func(f"{EOM}.findPlasmaProfile"))
    go = CFG(fo.node)
    FLAG = "self.successTemperatureProfile"
    low = [x for x in go.nodes if isinstance(x, ast.Assign) and eqx(x.targets[0], FLAG) and eqx(x.value, "False")]
    # the temperature of the point: element 0 of the point solver's result
    TN = None
    for x in go.nodes:
        if isinstance(x, ast.Assign) and len(x.targets) == 1 and isinstance(x.value, ast.Call) and eqx(x.value.func, "self.findPlasmaProfilePoint"):
            t = x.targets[0]
            if isinstance(t, ast.Tuple) and t.elts and isinstance(t.elts[0], ast.Name):
                TN = t.elts[0].id
            elif isinstance(t, ast.Name):
                TN = f"{t.id}[0]"
    ok = False
    if TN is not None and len(low) == 1:
        tests = [(t, _positive_when(t, TN)) for t in go.nodes if go.kind.get(t) == "test"]
        tests = [(t, pw) for t, pw in tests if pw is not None]
        loops = [x for x in go.nodes if go.kind.get(x) == "iter"]
        for t, pw in tests:
            only = go.must_pass(CFG.ENTRY, low[0], lambda q: q is t) and not go.reaches(go.branch(t, pw), low[0], avoid=lambda q: q is t)
            always = all(b is low[0] or all(go.must_pass(b, tgt, lambda q: q is low[0]) for tgt in loops + [CFG.EXIT]) for b in go.branch(t, not pw))
            ok = ok or (only and always and bool(go.branch(t, not pw)))
    chk.ob("R04.4", fo.where(), "findPlasmaProfile lowers successTemperatureProfile when a point returns T <= 0", ok and len(low) == 1, key="flag-lowered")
    res = [x for x in go.nodes if isinstance(x, ast.Assign) and eqx(x.targets[0], FLAG) and eqx(x.value, "True")]
    loops = [x for x in go.nodes if go.kind.get(x) == "iter"]
    ok = len(res) == 1 and bool(loops) and all(go.must_pass(CFG.ENTRY, l_, lambda q: q in res) for l_ in loops)
    chk.ob("R04.4", fo.where(), "the flag is reset to True before the grid loop of every profile computation", ok, key="flag-reset")
    chk.floor("R04.4", 5)


def _unwrap(e):
    """the scalar / array inside `np.array([x])`, `[x]`, `np.array(x)`, `np.atleast_1d(x)`, `x.view(...)`"""
    while True:
        if isinstance(e, ast.Call) and (dotted(e.func) or "") in ("np.array", "np.asarray", "np.atleast_1d") and len(e.args) == 1 and not e.keywords:
            e = e.args[0]
        elif isinstance(e, ast.Call) and isinstance(e.func, ast.Attribute) and e.func.attr == "view" and (dotted(e.func) or "x").split(".")[0] not in ("np", "numpy"):
            e = e.func.value
        elif isinstance(e, (ast.List, ast.Tuple)) and len(e.elts) == 1:
            e = e.elts[0]
        else:
            return e


def r04_5(chk: Check):
    S = chk.src
    fi = _plain(S, S.func(f"{EOM}._intermediatePressureResults"))
    chk.touch(fi.name)
    ci = Ctx(S, fi)
    # roles: (temperature, velocity) profile = result of findPlasmaProfile (or the *Input parameters), fields = wallProfile(...)[0]
    TPn, VPn, Fn = set(), set(), set()
    for st in own_nodes(fi.node):
        if isinstance(st, ast.Assign) and isinstance(st.targets[0], ast.Tuple) and isinstance(st.value, ast.Call) and all(isinstance(e, ast.Name) for e in st.targets[0].elts):
            names = [e.id for e in st.targets[0].elts]
            if eqx(st.value.func, "self.findPlasmaProfile") and len(names) == 2:
                TPn.add(names[0])
                VPn.add(names[1])
            elif eqx(st.value.func, "self.wallProfile") and len(names) == 2:
                Fn.add(names[0])
    if len(TPn) != 1 or len(VPn) != 1 or len(Fn) != 1:
        raise AnchorMissing("_intermediatePressureResults: the unpacked results of findPlasmaProfile / wallProfile not found")
    TP, VP, F = TPn.pop(), VPn.pop(), Fn.pop()
    prm = _params(fi)
    VL, VH, VMID, TPL, TMI = prm[1], prm[2], prm[5], prm[7], prm[8]
    # every three-part concatenation of the function (also behind a temporary or an extracted helper), classified by its middle part
    bg = [c for c in calls_in(fi.node, "BoltzmannBackground")]
    roots = [st.value for st in own_nodes(fi.node) if isinstance(st, (ast.Assign, ast.AnnAssign)) and st.value is not None] + [a for c in bg for a in list(c.args) + [k.value for k in c.keywords]]
    cats = {}
    seen_nf = set()
    for root in roots:
        r = ci.resolve(root, keep={TP, VP, F})
        for c in ast.walk(r):
            if isinstance(c, ast.Call) and (eqx(c.func, "np.concatenate") or eqx(c.func, "np.hstack")) and c.args and isinstance(c.args[0], (ast.Tuple, ast.List)) and len(c.args[0].elts) == 3:
                key = nf(c, ci)
                if key in seen_nf:
                    continue
                seen_nf.add(key)
                parts = [_unwrap(e) for e in c.args[0].elts]
                kind = "T" if eqx(parts[1], TP) else "v" if eqx(parts[1], VP) else "fields" if eqx(parts[1], F) else None
                if kind == "fields" and not eqx(c.func, "np.concatenate"):
                    kind = None          # hstack joins one-dimensional parts only like concatenate
                if kind and kind not in cats:
                    cats[kind] = (c, parts)
                elif kind:
                    cats[kind] = (None, [])
    want = {"TWithEndpoints": ("T", TMI, "temperatureProfile", TPL), "fieldsWithEndpoints": ("fields", VL, "fields", VH),
            "vWithEndpoints": ("v", f"{VP}[0]", "velocityProfile", f"{VP}[-1]")}
    for k, (kind, a, b, c) in want.items():
        call, e = cats.get(kind, (None, []))
        ok = call is not None and len(e) == 3 and eqx(e[0], a) and eqx(e[2], c)
        chk.ob("R04.5", fi.where(), f"{k} = ({a}, {b}, {c}): behind-the-wall value first, in-front value last", ok, str([n(x) for x in e]), key=f"orientation|{k}")
    ok = len(bg) == 1 and eqx(kwarg(bg[0], "velocityMid", 0), VMID, ci)
    if ok:
        for pname, pos, kind in (("velocityProfile", 1, "v"), ("fieldProfiles", 2, "fields"), ("temperatureProfile", 3, "T")):
            a = kwarg(bg[0], pname, pos)
            call = cats.get(kind, (None, []))[0]
            ok = ok and a is not None and call is not None and same(_unwrap(ci.resolve(a, keep={TP, VP, F})), call, ci)
    chk.ob("R04.5", fi.where(), "BoltzmannBackground(velocityMid, v, fields, T) receives the arrays in its parameter order", ok, key="background-args")
    fb = S.func("containers:BoltzmannBackground.__init__")
    chk.touch(fb.name)
    ok = [p for p in fb.params() if p != "self"][:4] == ["velocityMid", "velocityProfile", "fieldProfiles", "temperatureProfile"]
    chk.ob("R04.5", fb.where(), "BoltzmannBackground.__init__ parameter order is (velocityMid, velocityProfile, fieldProfiles, temperatureProfile)", ok,
           key="background-params")
    chk.floor("R04.5", 5)


def r04_6(chk: Check, P: "_Point"):
    S = chk.src
    fp, cx = P.fp, P.cx
    g = CFG(fp.node)
    mn = calls_in(fp.node, "minimize_scalar")
    rs = calls_in(fp.node, "root_scalar")
    fmin = kwarg(mn[0], "fun", 0) if len(mn) == 1 else None
    froot = kwarg(rs[0], "f", 0) if len(rs) == 1 else None
    shown = {n(x) if not isinstance(x, ast.Lambda) else n(x.body) for x in (fmin, froot) if x is not None}
    chk.ob("R04.6", fp.where(), "the minimised function and the root-solved function are the same residual with the same (fields, dPhidz, s1, s2)",
           fmin is not None and froot is not None and P.is_residual(fmin) and P.is_residual(froot), str(shown), key="same-function")
    other = []
    for c in P.lhs_calls:
        T = kwarg(c, "T", 2)
        if T is None or not eqx(c, P.residual_of(n(T)), cx):
            other.append(c)
    chk.ob("R04.6", fp.where(), "every evaluation of the residual in findPlasmaProfilePoint uses this point's data", not other,
           "; ".join(n(c) for c in other), key="same-data")
    bnd = kwarg(mn[0], "bounds", 2) if len(mn) == 1 else None
    ok = bnd is not None and same_term(S, "equationOfMotion", "EOM", cx.resolve(bnd), f"[0, 2 * max({P.TP}, {P.TM})]")
    chk.ob("R04.6", fp.where(), "the minimum is searched on [0, 2 max(T+, T-)]", bool(ok), key="min-bounds")
    # bracket (A, B): A starts at the minimiser and B = A * factor; both are moved by the same factor while residual(B) < 0
    ok = False
    br = kwarg(rs[0], "bracket") if len(rs) == 1 else None
    rs_node = g.node_of(rs[0]) if len(rs) == 1 else None
    if br is not None and isinstance(br, (ast.Tuple, ast.List)) and len(br.elts) == 2 and all(isinstance(e, ast.Name) for e in br.elts) and rs_node is not None and len(mn) == 1:
        A, B = br.elts[0].id, br.elts[1].id
        mres = [st for st in own_nodes(fp.node) if isinstance(st, ast.Assign) and st.value is mn[0] and isinstance(st.targets[0], ast.Name)]
        M = mres[0].targets[0].id if len(mres) == 1 else None

        def split(name):
            init, steps, rest = [], [], []
            for d in g.reaching_defs(rs_node, name):
                if isinstance(d, ast.AugAssign) and isinstance(d.op, ast.Mult):
                    steps.append(d.value)
                elif isinstance(d, ast.Assign) and (b_ := match(d.value, f"{name} * __k")) is not None:
                    steps.append(ast.Name(id=b_["k"], ctx=ast.Load()))
                elif isinstance(d, ast.Assign):
                    init.append(d.value)
                else:
                    rest.append(d)
            return init, steps, rest
        ia, sa, ra = split(A)
        ib, sb, rb = split(B)
        okA = M is not None and A != B and len(ia) == 1 and eqx(ia[0], f"{M}.x") and not ra
        okB = len(ib) == 1 and not rb and bool(sa) and bool(sb) and all(isinstance(k, ast.Name) for k in sa + sb) and len({k.id for k in sa + sb}) == 1
        if okA and okB:
            K = sa[0].id
            okB = match(ib[0], f"{A} * {K}") is not None
            # the bracket is moved while residual(B) < 0, and the root solve is reached only after a test that found residual(B) >= 0 at the
            # final B: every path to the root solve passes such a test, none leaves a test on its `residual(B) < 0` side and arrives without being
            # tested again, and the bracket is not moved between the last test and the root solve (one `while` test, or several tests of a
            # bounded `for` loop with an `else` clause)
            def negative_when(t):
                """polarity of the test t under which residual(B) < 0 (None: t is not such a test)"""
                pol = True
                while isinstance(t, ast.UnaryOp) and isinstance(t.op, ast.Not):
                    t, pol = t.operand, not pol
                if not (isinstance(t, ast.Compare) and len(t.ops) == 1):
                    return None
                l_, op, r_ = t.left, t.ops[0], t.comparators[0]
                for x, zero, lt, ge in ((l_, r_, ast.Lt, ast.GtE), (r_, l_, ast.Gt, ast.LtE)):
                    if eqx(zero, "0") and isinstance(op, (lt, ge)) and (tt := P.residual_at(x)) is not None and eqx(tt, B):
                        return pol if isinstance(op, lt) else not pol
                return None

            tests = {t: pw for t in g.nodes if g.kind.get(t) == "test" and (pw := negative_when(t)) is not None}
            is_test = lambda q: any(q is t for t in tests)
            moves = [d for d in g.nodes if g.kind.get(d) not in ("def", "handler") and g.defs_of(d) & {A, B}]
            okL = bool(tests) and g.must_pass(CFG.ENTRY, rs_node, is_test) \
                and not any(g.reaches(g.branch(t, pw), rs_node, avoid=is_test) for t, pw in tests.items()) \
                and not any(g.reaches(g.branch(t, not pw), d, avoid=is_test) and g.reaches(set(g.succ.get(d, ())), rs_node, avoid=is_test)
                            for t, pw in tests.items() for d in moves)
            ok = okA and okB and okL
    chk.ob("R04.6", fp.where(), "the root is bracketed between the minimiser side and the test temperature", ok, n(br) if br is not None else "", key="bracket")
    # velocity: every non-sentinel exit returns plasmaVelocity(fields, T, s1) at the returned temperature
    okv = bool(P.vel_calls)
    for c in P.vel_calls:
        okv = okv and eqx(kwarg(c, "fields", 0), P.F, cx) and eqx(kwarg(c, "s1", 2), P.S1, cx)
    nret = 0
    for r in [x for x in g.nodes if isinstance(x, ast.Return)]:
        v = r.value
        if not (isinstance(v, ast.Tuple) and len(v.elts) == 2):
            okv = False
            continue
        t, vel = v.elts
        if isinstance(t, ast.Constant):
            continue
        nret += 1
        at = r
        if isinstance(vel, ast.Name):
            dd = g.reaching_defs(r, vel.id)
            if len(dd) == 1 and isinstance(dd[0], ast.Assign) and isinstance(dd[0].targets[0], ast.Name):
                at, vel = dd[0], dd[0].value
        # ... evaluated at the returned temperature: the same expression, with the same definitions of its names reaching both places
        good = isinstance(vel, ast.Call) and eqx(vel.func, "self.plasmaVelocity") and kwarg(vel, "T", 1) is not None and same(kwarg(vel, "T", 1), t) \
            and (at is r or all({id(d) for d in g.reaching_defs(at, nm)} == {id(d) for d in g.reaching_defs(r, nm)}
                                for nm in {x.id for x in ast.walk(t) if isinstance(x, ast.Name)}))
        okv = okv and good
    chk.ob("R04.6", fp.where(), "the returned velocity is plasmaVelocity(fields, T, s1) at the returned temperature", okv and nret >= 1, key="velocity")
    chk.floor("R04.6", 5)


def rules(chk: Check) -> None:
    chk.stage(r04_12, chk)
    chk.stage(r04_5, chk)
    P = _Point(chk.src)
    chk.stage(r04_3, chk, P)
    chk.stage(r04_4, chk, P)
    chk.stage(r04_6, chk, P)
    # the out-of-equilibrium stress components subtracted from c1, c2 are the direct moment expressions (shared with C13)
    from ..core import Remap
    from .c13 import r13_2
    # (the two caller-side clauses of r13_2 address locals of findPlasmaProfilePoint by their spelling; they are decided here by role instead)
    chk.stage(r13_2, Remap(chk, {"R13.2": "R04.7"}, only=lambda rule, key, where: key not in ("pairing|c1c2", "call-args")))
    # R04.8: the field gradient that enters the kinetic term of the T33 equation is the z-derivative of the very profile whose values enter V and w
    # (shared with C09 R09.1);  R04.9: the Boltzmann solver boosts a deep copy, so the background whose profiles are reported stays in the wall frame
    # (shared with C12 R12.5)
    from . import c09, c12
    chk.stage(c09.r09_12, Remap(chk, {"R09.1": "R04.8"}))
    chk.stage(c12.r12_5, Remap(chk, {"R12.5": "R04.9"}))
    # R04.10: the detonation / deflagration choice of the temperature root is never taken by comparing a plasma velocity with the Jouguet velocity
    from .shared import jouguet_compared_with_wall_velocity
    chk.stage(jouguet_compared_with_wall_velocity, chk, "R04.10")
    chk.floor("R04.8", 2)
    chk.floor("R04.9", 1)
    fp, cx = P.fp, P.cx
    ok = all(eqx(kwarg(c, "s1", 3), P.S1, cx) and eqx(kwarg(c, "s2", 4), P.S2, cx) for c in P.lhs_calls)
    chk.ob("R04.7", fp.where(), "T30 is subtracted from c1 and T33 from c2 (tuple positions 0 and 1 of deltaToTmunu)", ok, f"s1 = {P.S1}; s2 = {P.S2}", key="R13.2|pairing|c1c2")
    dc = [c for c in calls_in(fp.node, "deltaToTmunu")]
    prm = _params(fp)
    ok = len(dc) == 1 and all(eqx(kwarg(dc[0], nm, i), prm[j], cx) for nm, i, j in (("index", 0, 0), ("fields", 1, 4), ("velocityMid", 2, 3), ("offEquilDeltas", 3, 6)))
    chk.ob("R04.7", fp.where(), "deltaToTmunu is called with (index, fields, velocityMid, offEquilDeltas)", ok, n(dc[0]) if dc else "", key="R13.2|call-args")
    # on every path: the stress subtracted from c1, c2 is that of the supplied Deltas (not a default that survives when some switch is off --
    # the field equation uses the same Deltas unconditionally)
    from ..flow import CFG as _CFG
    g_ = _CFG(fp.node)
    bad = []
    for nm in {x.split("[")[0] for x in P.out}:
        for q in g_.nodes:
            if g_.kind.get(q) in ("def", "handler"):
                continue
            if not any(isinstance(x, ast.Name) and x.id == nm and isinstance(x.ctx, ast.Load) for x in ast.walk(q)):
                continue
            for d in g_.reaching_defs(q, nm):
                if d is _CFG.ENTRY or not (isinstance(getattr(d, "value", None), ast.Call) and eqx(d.value.func, "self.deltaToTmunu")):
                    bad.append(f"line {getattr(q, 'lineno', '?')}: `{nm}` may hold `{n(getattr(d, 'value', d)) if d is not _CFG.ENTRY else 'nothing'}`")
    chk.ob("R04.7", fp.where(), "wherever the out-of-equilibrium T30 / T33 are used they are the result of deltaToTmunu on every path", not bad, "; ".join(sorted(set(bad)))[:300],
           key="stress-on-every-path")
    chk.floor("R04.7", 5)
