"""C04 -- plasma profile inside the wall conserves energy-momentum pointwise.

R04.1 v(T) solves the T30 equation: w gamma^2 v == s1 with w = -T dV/dT
R04.2 the LHS is the T33 residual: (1/2) sum (dphi/dz)^2 - V + w gamma^2 v^2 - s2
R04.3 s1 = c1 - Tout30, s2 = c2 - Tout33; boundary data keep their roles through the call chain (argument/parameter role agreement)
R04.4 every returned temperature is a root of that residual or is accompanied by a failure signal
R04.5 orientation: profiles with end points put the T-/low-T item first and the T+/high-T item last
R04.6 the minimised and the root-solved function are the same residual with the same data
R04.7 the out-of-equilibrium T30 / T33 assembled from the moments equal the direct integral of p^mu p^nu deltaF (shared with C13)
"""
from __future__ import annotations

import ast

import sympy as sp

from ..core import AnchorMissing, Check, Undecided, calls_in, dotted, kwarg, own_nodes, src, walk_guarded
from ..flow import CFG
from ..hydro import n, same_term
from ..terms import Extractor, SUM, is_zero

LEVEL = "other"
EOM = "equationOfMotion:EOM"
ROLE_NAMES = {"c1", "c2", "velocityMid", "Tplus", "Tminus", "vevLowT", "vevHighT", "s1", "s2", "fields", "dPhidz"}
ALIASES = {"dfieldsdz": "dPhidz"}


def r04_12(chk: Check):
    S = chk.src
    ex = Extractor(S, positive={"T"})
    fv = S.func(f"{EOM}.plasmaVelocity")
    fl = S.func(f"{EOM}.temperatureProfileEqLHS")
    chk.touch(fv.name, fl.name)
    v = ex.single(fv)
    T, s1, s2 = ex.sym("T"), ex.sym("s1"), ex.sym("s2")
    dVdT = sp.Function("thermo.effectivePotential.derivT")(ex.sym("fields"), T)
    chk.ob("R04.1", fv.where(), "plasmaVelocity uses the enthalpy w = -T dV/dT(fields, T) of the potential at the local field value",
           v.has(dVdT), str(v)[:160], key="enthalpy-def")
    W = sp.Symbol("W", positive=True)
    S1 = sp.Symbol("S1", real=True, nonzero=True)
    vv = v.subs(dVdT, -W / T).subs(s1, S1)
    res = sp.simplify(sp.radsimp(W * vv / (1 - vv**2)) - S1)
    ok, how = is_zero(res, chk.seed)
    chk.ob("R04.1", fv.where(), "v(T) satisfies w gamma^2(v) v == s1  (the T30 equation), for either sign of s1", ok, how, key="T30", how=how)
    # R04.2
    ps = [p for p in ex.paths(fl) if p.raised is None]
    def strip0(e):
        if isinstance(e, sp.Basic) and isinstance(e, sp.core.function.AppliedUndef) and e.func.__name__ == "getitem" and e.args[1] == 0:
            return e.args[0]
        return e
    for p_ in ps:
        p_.value = strip0(p_.value)
    vals = {str(p.value) for p in ps}
    if len(vals) != 1:
        raise Undecided(f"temperatureProfileEqLHS: return branches differ: {vals}")
    lhs = ps[0].value
    V = sp.Function("thermo.effectivePotential.evaluate")(ex.sym("fields"), T)
    K = lhs.subs({dVdT: 0, V: 0, s1: 0, s2: 0})
    ref = K - V + W * vv**2 / (1 - vv**2) - s2
    ok, how = is_zero(sp.simplify(lhs.subs(dVdT, -W / T).subs(s1, S1) - sp.radsimp(ref)), chk.seed)
    chk.ob("R04.2", fl.where(), "LHS == kinetic - V(fields, T) + w gamma^2 v^2 - s2 with v = v(T) of R04.1  (the T33 equation)", ok, how,
           key="T33", how=how)
    dphi = ex.sym("dPhidz")
    okk = sp.simplify(K - sp.Rational(1, 2) * SUM(dphi**2)) == 0
    chk.ob("R04.2", fl.where(), "kinetic term == (1/2) sum over fields of (dphi/dz)^2", okk, str(K), key="kinetic")
    chk.floor("R04.1", 2)
    chk.floor("R04.2", 2)


def r04_3(chk: Check):
    S = chk.src
    fp = S.func(f"{EOM}.findPlasmaProfilePoint")
    chk.touch(fp.name)
    tup = None
    for st in own_nodes(fp.node):
        if isinstance(st, ast.Assign) and isinstance(st.value, ast.Call) and n(st.value.func) == "self.deltaToTmunu" and isinstance(st.targets[0], ast.Tuple):
            tup = [n(e) for e in st.targets[0].elts]
    s = {}
    for st in own_nodes(fp.node):
        if isinstance(st, ast.Assign) and isinstance(st.targets[0], ast.Name) and isinstance(st.value, ast.BinOp) \
                and isinstance(st.value.op, ast.Sub) and tup and n(st.value.right) in tup:
            s[st.targets[0].id] = (n(st.value.left), tup.index(n(st.value.right)))
    chk.ob("R04.3", fp.where(), "s1 = c1 - T30_out and s2 = c2 - T33_out (tuple positions 0, 1 of deltaToTmunu)",
           s == {"s1": ("c1", 0), "s2": ("c2", 1)}, str(s), key="s1s2")
    # role agreement of arguments through the EOM call chain
    methods = S.cls(EOM).methods
    n_calls = 0
    for cname, fi in sorted(methods.items()):
        for c in own_nodes(fi.node):
            if not (isinstance(c, ast.Call) and isinstance(c.func, ast.Attribute) and isinstance(c.func.value, ast.Name)
                    and c.func.value.id == "self" and c.func.attr in methods):
                continue
            callee = methods[c.func.attr]
            params = [p for p in callee.params() if p != "self"]
            bad = []
            checked = 0
            pairs = list(zip(params, c.args)) + [(k.arg, k.value) for k in c.keywords if k.arg]
            for p, a in pairs:
                if not isinstance(a, ast.Name):
                    continue
                an = ALIASES.get(a.id, a.id)
                # strip numeric suffixes used for iterates (wallParams1, boltzmannResults2)
                base_a = an.rstrip("0123456789")
                base_p = p.rstrip("0123456789")
                if base_p in ROLE_NAMES or base_a in ROLE_NAMES:
                    checked += 1
                    if base_a != base_p and not (base_p + "Input" == base_a or base_a + "Input" == base_p):
                        bad.append(f"parameter `{p}` receives `{a.id}`")
            if checked:
                n_calls += 1
                chk.ob("R04.3", fi.where(c), f"{cname} -> {c.func.attr}: boundary data (c1, c2, vMid, T+, T-, vevs, s1, s2) are passed to the parameters "
                       "of the same role", not bad, "; ".join(bad), key=f"roles|{cname}->{c.func.attr}|{c.lineno - fi.node.lineno if False else len(bad)}")
    # wallPressure unpacks findHydroBoundaries in its return order
    fw = S.func(f"{EOM}.wallPressure")
    chk.touch(fw.name)
    unp = [st for st in own_nodes(fw.node) if isinstance(st, ast.Assign) and isinstance(st.value, ast.Call)
           and n(st.value.func) == "self.hydrodynamics.findHydroBoundaries" and isinstance(st.targets[0], ast.Tuple)]
    ok = len(unp) == 1 and [n(e) for e in unp[0].targets[0].elts] == ["c1", "c2", "Tplus", "Tminus", "velocityMid"] and n(unp[0].value.args[0]) == "wallVelocity"
    chk.ob("R04.3", fw.where(), "wallPressure unpacks findHydroBoundaries(wallVelocity) as (c1, c2, T+, T-, vMid), its return order", ok, key="unpack")
    fo = S.func(f"{EOM}.findPlasmaProfile")
    chk.touch(fo.name)
    call = [c for c in calls_in(fo.node, "findPlasmaProfilePoint")]
    ok = len(call) == 1 and [n(a) for a in call[0].args] == ["index", "c1", "c2", "velocityMid", "fields.getFieldPoint(index)",
                                                             "dPhidz.getFieldPoint(index)", "offEquilDeltas", "Tplus", "Tminus"]
    chk.ob("R04.3", fo.where(), "findPlasmaProfile solves every grid index with that index's field point, gradient and moments", ok,
           n(call[0])[:200] if call else "", key="per-point")
    chk.floor("R04.3", 8)


def r04_4(chk: Check):
    S = chk.src
    fp = S.func(f"{EOM}.findPlasmaProfilePoint")
    g = CFG(fp.node)
    rets = [x for x in g.nodes if isinstance(x, ast.Return)]
    seen = 0
    for r in sorted(rets, key=lambda x: x.lineno):
        v = r.value
        first = v.elts[0] if isinstance(v, ast.Tuple) else v
        if isinstance(first, ast.Constant) and first.value == 0:
            seen += 1
            chk.ob("R04.4", fp.where(r), "failure exit returns the non-positive sentinel temperature (0, 0)", n(v).strip("()") == "0, 0", n(v), key="exit|sentinel")
            continue
        prov = "unknown"
        if isinstance(first, ast.Name):
            defs = g.reaching_defs(r, first.id)
            srcs = set()
            for d in defs:
                if isinstance(d, ast.Assign):
                    val = d.value
                    hop = 0
                    while isinstance(val, ast.Name) and hop < 3:
                        dd = g.reaching_defs(d, val.id)
                        if len(dd) == 1 and isinstance(dd[0], ast.Assign):
                            d, val = dd[0], dd[0].value
                        hop += 1
                    srcs.add(n(val))
            if srcs and all("root_scalar(" in s_ and s_.endswith(".root") for s_ in srcs):
                prov = "root"
            elif srcs:
                prov = "; ".join(sorted(srcs))
        seen += 1
        if prov == "root":
            chk.ob("R04.4", fp.where(r), "returned temperature is the root of the T33 residual", True, key="exit|root")
        else:
            # a non-root temperature may only be returned together with a failure signal
            lowered = any(isinstance(x, ast.Assign) and n(x.targets[0]) == "self.successTemperatureProfile" and n(x.value) == "False"
                          for x in g.nodes if r in g.reachable(x, include_start=True)) if False else False
            chk.ob("R04.4", fp.where(r), "a positive temperature that is not a root of the T33 residual is returned only together with a failure signal",
                   lowered, f"returns `{prov}` (the minimiser of the residual) while successTemperatureProfile stays True",
                   key=f"nonroot-return|findPlasmaProfilePoint|{prov[:40]}")
    if seen < 3:
        raise AnchorMissing("findPlasmaProfilePoint: fewer than 3 exits found")
    # caller lowers the flag for the sentinel
    fo = S.func(f"{EOM}.findPlasmaProfile")
    go = CFG(fo.node)
    low = [x for x in go.nodes if isinstance(x, ast.Assign) and n(x.targets[0]) == "self.successTemperatureProfile" and n(x.value) == "False"]
    ok = False
    for guards, st in walk_guarded(fo.node):
        if st in low:
            ok = any((not pol and n(t).replace(" ", "") == "T>0") or (pol and n(t).replace(" ", "") in ("T<=0", "notT>0")) for t, pol in guards if not isinstance(t, tuple))
    chk.ob("R04.4", fo.where(), "findPlasmaProfile lowers successTemperatureProfile when a point returns T <= 0", ok and len(low) == 1, key="flag-lowered")
    res = [x for x in go.nodes if isinstance(x, ast.Assign) and n(x.targets[0]) == "self.successTemperatureProfile" and n(x.value) == "True"]
    loops = [x for x in go.nodes if go.kind.get(x) == "iter"]
    ok = len(res) == 1 and bool(loops) and all(go.must_pass(CFG.ENTRY, l_, lambda q: q in res) for l_ in loops)
    chk.ob("R04.4", fo.where(), "the flag is reset to True before the grid loop of every profile computation", ok, key="flag-reset")
    chk.floor("R04.4", 5)


def r04_5(chk: Check):
    S = chk.src
    fi = S.func(f"{EOM}._intermediatePressureResults")
    chk.touch(fi.name)
    cats = {}
    for st in own_nodes(fi.node):
        tgt = None
        val = None
        if isinstance(st, ast.AnnAssign) and isinstance(st.target, ast.Name):
            tgt, val = st.target.id, st.value
        elif isinstance(st, ast.Assign) and isinstance(st.targets[0], ast.Name):
            tgt, val = st.targets[0].id, st.value
        if tgt and tgt.endswith("WithEndpoints") and val is not None:
            for c in ast.walk(val):
                if isinstance(c, ast.Call) and (dotted(c.func) or "").endswith("concatenate") and isinstance(c.args[0], ast.Tuple):
                    cats[tgt] = [n(e) for e in c.args[0].elts]
    want = {"TWithEndpoints": ("Tminus", "temperatureProfile", "Tplus"), "fieldsWithEndpoints": ("vevLowT", "fields", "vevHighT"),
            "vWithEndpoints": ("velocityProfile[0]", "velocityProfile", "velocityProfile[-1]")}
    for k, (a, b, c) in want.items():
        e = cats.get(k)
        ok = e is not None and len(e) == 3 and a in e[0] and b in e[1] and c in e[2] and (k != "TWithEndpoints" or "Tplus" not in e[0])
        chk.ob("R04.5", fi.where(), f"{k} = ({a}, {b}, {c}): behind-the-wall value first, in-front value last", ok, str(e), key=f"orientation|{k}")
    bg = [c for c in calls_in(fi.node, "BoltzmannBackground")]
    ok = len(bg) == 1 and [n(a) for a in bg[0].args] == ["velocityMid", "vWithEndpoints", "fieldsWithEndpoints", "TWithEndpoints"]
    chk.ob("R04.5", fi.where(), "BoltzmannBackground(velocityMid, v, fields, T) receives the arrays in its parameter order", ok, key="background-args")
    fb = S.func("containers:BoltzmannBackground.__init__")
    chk.touch(fb.name)
    ok = [p for p in fb.params() if p != "self"][:4] == ["velocityMid", "velocityProfile", "fieldProfiles", "temperatureProfile"]
    chk.ob("R04.5", fb.where(), "BoltzmannBackground.__init__ parameter order is (velocityMid, velocityProfile, fieldProfiles, temperatureProfile)", ok,
           key="background-params")
    chk.floor("R04.5", 5)


def r04_6(chk: Check):
    S = chk.src
    fp = S.func(f"{EOM}.findPlasmaProfilePoint")
    lam = [x for x in own_nodes(fp.node) if isinstance(x, ast.Lambda)]
    bodies = {n(l.body) for l in lam}
    chk.ob("R04.6", fp.where(), "the minimised function and the root-solved function are the same residual with the same (fields, dPhidz, s1, s2)",
           len(lam) == 2 and bodies == {"self.temperatureProfileEqLHS(fields, dPhidz, T, s1, s2)"}, str(bodies), key="same-function")
    other = [c for c in calls_in(fp.node, "temperatureProfileEqLHS") if [n(a) for a in c.args[:2] + c.args[3:]] != ["fields", "dPhidz", "s1", "s2"]]
    chk.ob("R04.6", fp.where(), "every evaluation of the residual in findPlasmaProfilePoint uses this point's data", not other,
           "; ".join(n(c) for c in other), key="same-data")
    mn = calls_in(fp.node, "minimize_scalar")
    ok = len(mn) == 1 and same_term(S, "equationOfMotion", "EOM", kwarg(mn[0], "bounds"), "[0, 2 * max(Tplus, Tminus)]")
    chk.ob("R04.6", fp.where(), "the minimum is searched on [0, 2 max(T+, T-)]", bool(ok), key="min-bounds")
    rs = calls_in(fp.node, "root_scalar")
    ok = len(rs) == 1 and n(kwarg(rs[0], "bracket")).replace(" ", "") == "(tempAtMinimum,testTemp)"
    chk.ob("R04.6", fp.where(), "the root is bracketed between the minimiser side and the test temperature", ok, key="bracket")
    pv = [c for c in calls_in(fp.node, "plasmaVelocity")]
    ok = len(pv) == 2 and all([n(a) for a in c.args] == ["fields", "T", "s1"] for c in pv)
    chk.ob("R04.6", fp.where(), "the returned velocity is plasmaVelocity(fields, T, s1) at the returned temperature", ok, key="velocity")
    chk.floor("R04.6", 5)


def rules(chk: Check) -> None:
    r04_12(chk)
    r04_3(chk)
    r04_4(chk)
    r04_5(chk)
    r04_6(chk)
    # the out-of-equilibrium stress components subtracted from c1, c2 are the direct moment expressions (shared with C13)
    from ..core import Remap
    from .c13 import r13_2
    r13_2(Remap(chk, {"R13.2": "R04.7"}))
    chk.floor("R04.7", 4)
