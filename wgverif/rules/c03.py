"""C03 -- matched flow reaches the nucleation temperature ahead of the wall.

R03.1 shockDE satisfies the two relativistic fluid equations written in the similarity variable xi
R03.2 shock-front condition mu(xi,v)*xi = cs^2(T) is the same term at all three sites and terminates the integration
R03.3 TiiShock is energy-flux continuity across the front with the plasma at rest ahead
R03.4 initial data: integration starts at v = mu(vw, v+) from (vw, T+); kappa integrates the same ODE from the same data
R03.5 kappa integrand xi^2 v^2 gamma^2 w, prefactor 4/(vw^3 w_n alpha_n), rarefaction with opposite sign and low-T enthalpy
R03.6 the template model's fluid ODE agrees term-wise with shockDE

Locals and nested helper functions are identified by their role (the function handed to solve_ivp as `events`, the function whose root
is searched, the local holding a solve_ivp result, the summand of the returned efficiency factor that integrates over a given
solution ...), never by their spelling; everything arithmetic is compared at term level.  A function with such a role need not be a nested
closure: a method (`self.<m>`), a module-level function, a lambda, and `functools.partial(f, *a, **k)` (= f with those parameters bound) are
followed as well ("callables by role" below); the `.terminal` flag is looked for where solve_ivp finds it (on the local holding the event
object; for a plain method / function also where it is defined).  Values packed into a namedtuple / small dataclass are read as the tuple of
their fields (`records_written_out`).
"""
from __future__ import annotations

import ast
import copy

import sympy as sp

from ..core import Remap, AnchorMissing, Check, FuncInfo, Undecided, calls_in, dotted, kwarg, own_nodes, src
from ..flow import CFG
from ..hydro import HY, TM, fn, hydro_extractor, n, th
from ..nf import with_closure_temporaries, Ctx, eqx, has, match
from ..terms import Extractor, ITE, is_zero
from .c06 import _local_func, written_out

LEVEL = "other"
SIMPSON = sp.Function("simpson")
COMP = sp.Function("COMP")


# ------------------------------------------------------------------------------------------------ roles


def _params(fi) -> list:
    return [a.arg for a in fi.node.args.args if a.arg not in ("self", "cls")]


def _definition(cx: Ctx, e):
    """the expression a chain of single-assignment temporaries stands for (node identity is kept)"""
    defs = cx.local_defs()
    for _ in range(8):
        if isinstance(e, ast.Name) and e.id in defs:
            e = defs[e.id]
        else:
            break
    return e


def _assigned_name(fnode, call) -> str | None:
    """the local a call's result is stored in"""
    for st in own_nodes(fnode):
        if isinstance(st, (ast.Assign, ast.AnnAssign)) and st.value is call:
            t = st.targets[0] if isinstance(st, ast.Assign) else st.target
            if isinstance(t, ast.Name):
                return t.id
    return None


# ------------------------------------------------------------------------------------------------ callables by role
#
# The function handed to solve_ivp as `events` / to root_scalar as `f` is identified by that role.  It may be a nested function of the
# routine, a method of the class (`self.<m>`), a module-level function, a lambda, any of these held in a local, or a `functools.partial`
# of one of them: `partial(f, *a, **k)` is f with those parameters bound (the bound values are written as assignments at the top of a copy
# of f's body, so that everything downstream reads one ordinary function).


class _Callable:
    def __init__(self, fi, base, kind: str, holders: set, partial: bool):
        self.fi = fi                # the function (parameters bound by functools.partial are assigned at the top of its body)
        self.base = base            # the function as defined
        self.kind = kind            # 'nested' | 'method' | 'module' | 'lambda'
        self.holders = holders      # locals of the routine that hold this very object (for a nested function: its own name too)
        self.partial = partial      # a functools.partial object: a new object, attributes of the wrapped function are not seen through it
        self.bound = {}             # parameter of the function as defined -> the expression functools.partial binds it to
        self.skip_first = False     # a bound method: positional arguments start at the second parameter

    def ident(self):
        return (id(self.base.node), ast.dump(self.fi.node), self.partial)


def _is_partial(S, fo, call) -> bool:
    d = dotted(call.func) if isinstance(call, ast.Call) else None
    if d == "functools.partial":
        return S.modules[fo.module].imports.get("functools") == "functools"
    return d is not None and "." not in d and S.modules[fo.module].imports.get(d) == "functools:partial"


def _static(fi) -> bool:
    return any((dotted(d) or "") == "staticmethod" for d in fi.node.decorator_list)


def _bound_names(fnode) -> set:
    a = fnode.args
    out = {x.arg for x in a.posonlyargs + a.args + a.kwonlyargs} | ({a.vararg.arg} if a.vararg else set()) | ({a.kwarg.arg} if a.kwarg else set())
    for x in ast.walk(fnode):
        if isinstance(x, ast.Name) and isinstance(x.ctx, (ast.Store, ast.Del)):
            out.add(x.id)
        elif isinstance(x, ast.arg):
            out.add(x.arg)
        elif isinstance(x, (ast.FunctionDef, ast.AsyncFunctionDef, ast.ClassDef)) and x is not fnode:
            out.add(x.name)
    return out


def _bind(S, fo, fi, pos: list, kws: dict, skip_first: bool):
    """fi with its leading positional parameters bound to `pos` and the named ones to `kws` (values are expressions of the routine fo):
    the bound parameters leave the signature and are assigned at the top of the body"""
    if not pos and not kws:
        return fi, {}
    co = Ctx(S, fo)
    node = copy.deepcopy(fi.node)
    a = node.args
    if a.vararg is not None or a.kwarg is not None:
        raise Undecided(f"{fi.qual}: functools.partial of a function with *args / **kwargs")
    plain = list(a.posonlyargs) + list(a.args)
    dflt = [None] * (len(plain) - len(a.defaults)) + list(a.defaults)
    first = 1 if skip_first and plain else 0
    if len(pos) > len(plain) - first:
        raise Undecided(f"{fi.qual}: functools.partial binds more positional arguments than the function has")
    bind = {plain[first + i].arg: e for i, e in enumerate(pos)}
    named = {x.arg for x in list(a.args) + list(a.kwonlyargs)} - ({plain[0].arg} if first else set())
    for k, e in kws.items():
        if k not in named or k in bind:
            raise Undecided(f"{fi.qual}: functools.partial binds `{k}`, which is not a free parameter")
        bind[k] = e
    vals = {k: co.resolve(e) for k, e in bind.items()}
    given = dict(bind)
    # the bound values are expressions of the routine: a local of the function that has the name of something they read is renamed
    reads = {y.id for e in vals.values() for y in ast.walk(e) if isinstance(y, ast.Name)}
    clash = (reads & _bound_names(node)) - {"self", "cls"}
    if clash:
        taken = _bound_names(node) | reads | {y.id for y in ast.walk(node) if isinstance(y, ast.Name)}
        ren = {}
        for nm in sorted(clash):
            k_ = 1
            while f"{nm}__{k_}" in taken:
                k_ += 1
            ren[nm] = f"{nm}__{k_}"
            taken.add(ren[nm])
        for y in ast.walk(node):
            if isinstance(y, ast.Name) and y.id in ren:
                y.id = ren[y.id]
            elif isinstance(y, ast.arg) and y.arg in ren:
                y.arg = ren[y.arg]
        vals = {ren.get(k, k): e for k, e in vals.items()}
    keep = [(x, d) for x, d in zip(plain, dflt) if x.arg not in vals]
    npos = len([x for x in a.posonlyargs if x.arg not in vals])
    a.posonlyargs, a.args = [x for x, _ in keep[:npos]], [x for x, _ in keep[npos:]]
    a.defaults = [d for _, d in keep if d is not None]
    kwkeep = [(x, d) for x, d in zip(a.kwonlyargs, a.kw_defaults) if x.arg not in vals]
    a.kwonlyargs, a.kw_defaults = [x for x, _ in kwkeep], [d for _, d in kwkeep]
    head = [ast.Assign(targets=[ast.Name(id=k, ctx=ast.Store())], value=e) for k, e in vals.items()]
    doc = 1 if node.body and isinstance(node.body[0], ast.Expr) and isinstance(node.body[0].value, ast.Constant) and isinstance(node.body[0].value.value, str) else 0
    for st in head:
        ast.copy_location(st, node.body[doc] if len(node.body) > doc else node)
    node.body[doc:doc] = head
    ast.fix_missing_locations(node)
    # `self` in the bound values is the routine's: the copy is read as a function of the routine's class
    return FuncInfo(fi.module, fi.qual, node, fi.cls or fo.cls, fi.parent), given


def _resolve_callable(S, fo, e, _depth: int = 0):
    """the function a callable expression of routine fo denotes (None when it is none of the recognised forms)"""
    cx = Ctx(S, fo)
    defs = cx.local_defs()
    stored = {x.id for x in own_nodes(fo.node) if isinstance(x, ast.Name) and isinstance(x.ctx, (ast.Store, ast.Del))} | set(_params(fo)) | {"self", "cls"}
    holders: set = set()
    for _ in range(8):
        if isinstance(e, ast.Name) and e.id in defs:
            holders.add(e.id)
            e = defs[e.id]
        else:
            break
    mod = S.modules[fo.module]
    if isinstance(e, ast.Name):
        loc = _local_func(S, fo, e.id)
        if loc is not None:
            return _Callable(loc, loc, "nested", holders | {e.id}, False)
        if e.id in stored:
            return None
        q = f"{fo.module}:{e.id}" if e.id in mod.funcs else S.resolve_import(fo.module, e.id)
        if q and S.has_func(q) and S.func(q).parent is None and S.func(q).cls is None:
            return _Callable(S.func(q), S.func(q), "module", holders, False)
        return None
    if isinstance(e, ast.Attribute) and isinstance(e.value, ast.Name) and fo.cls and e.value.id in ("self", "cls", fo.cls):
        m = S.method(f"{fo.module}:{fo.cls}", e.attr)
        if m is None:
            return None
        if e.value.id != "self" and not _static(m):
            return None              # an unbound method: its first parameter is not bound to the object
        c = _Callable(m, m, "method", holders, False)
        c.skip_first = not _static(m)
        return c
    if isinstance(e, ast.Lambda):
        f = ast.FunctionDef(name="lambda__", args=copy.deepcopy(e.args), body=[ast.Return(value=copy.deepcopy(e.body))], decorator_list=[], returns=None, type_params=[])
        ast.copy_location(f, e)
        ast.copy_location(f.body[0], e.body)
        ast.fix_missing_locations(f)
        fi = FuncInfo(fo.module, f"{fo.qual}.<lambda>", f, fo.cls, fo)
        return _Callable(fi, fi, "lambda", holders, False)
    if isinstance(e, ast.Call) and _is_partial(S, fo, e) and e.args and _depth < 4 and not any(isinstance(x, ast.Starred) for x in e.args) \
            and not any(k.arg is None for k in e.keywords):
        inner = _resolve_callable(S, fo, e.args[0], _depth + 1)
        if inner is None:
            return None
        fi, given = _bind(S, fo, inner.fi, list(e.args[1:]), {k.arg: k.value for k in e.keywords}, inner.skip_first)
        c = _Callable(fi, inner.base, inner.kind, holders, True)
        c.skip_first = inner.skip_first
        c.bound = {**inner.bound, **given}
        return c
    return None


def _ode_of(S, fo, call, cx):
    """(the right-hand side handed to solve_ivp is Hydrodynamics.shockDE, the value given to its shockWave parameter -- bound with functools.partial
    or passed through `args=(value,)` -- or None when it is left at its default)"""
    f = kwarg(call, "fun", 0)
    r = _resolve_callable(S, fo, f) if f is not None else None
    sd = S.func(f"{HY}.shockDE")
    p = _params(sd)
    if r is None or r.base is not sd or len(p) != 3 or set(r.bound) - {p[2]}:
        return False, None
    wave = r.bound.get(p[2])
    a = kwarg(call, "args", 8)
    if a is not None:
        a = _definition(cx, a)
        if wave is None and isinstance(a, (ast.Tuple, ast.List)) and len(a.elts) == 1 and not isinstance(a.elts[0], ast.Starred):
            wave = a.elts[0]
        else:
            wave = a            # (not a one-element display, or given twice: no wave can be read off)
    return True, wave


def _by_role(S, outer: str, fo, calls, kw: str, pos: int, what: str) -> _Callable:
    """the function that every one of `calls` receives as argument kw/pos"""
    found = {}
    for c in calls:
        a = kwarg(c, kw, pos)
        r = _resolve_callable(S, fo, a) if a is not None else None
        found[r.ident() if r is not None else None] = r
    if len(found) != 1 or None in found:
        raise AnchorMissing(f"{outer.split(':')[-1]}: the function used as {what} not found")
    return next(iter(found.values()))


def _nested_by_role(S, outer: str, fo, calls, kw: str, pos: int, what: str):
    return _by_role(S, outer, fo, calls, kw, pos, what).fi


class _Flag:
    def __init__(self, value, ctx, local: bool):
        self.value, self.ctx, self.local = value, ctx, local


def _attr_stores(nodes, attr: str):
    """(base expression, assigned value or None when it is not a plain `base.attr = value`) of every store to `.attr` among nodes"""
    for st in nodes:
        tg = list(st.targets) if isinstance(st, (ast.Assign, ast.Delete)) else [st.target] if isinstance(st, (ast.AugAssign, ast.AnnAssign)) else []
        plain = isinstance(st, ast.Assign) and len(st.targets) == 1 and isinstance(st.targets[0], ast.Attribute)
        while tg:
            t = tg.pop()
            if isinstance(t, (ast.Tuple, ast.List)):
                tg.extend(t.elts)
            elif isinstance(t, ast.Starred):
                tg.append(t.value)
            elif isinstance(t, ast.Attribute) and t.attr == attr:
                yield t.value, (st.value if plain else None)


def _scope_stmts(body):
    """statements of a class / module body (compound statements entered, function and class bodies not)"""
    for st in body:
        if isinstance(st, (ast.FunctionDef, ast.AsyncFunctionDef, ast.ClassDef)):
            continue
        yield st
        for fld in ("body", "orelse", "finalbody"):
            yield from _scope_stmts(getattr(st, fld, None) or [])
        for h in getattr(st, "handlers", []) or []:
            yield from _scope_stmts(h.body)


def _terminal_flags(S, fo, c: _Callable) -> list:
    """every store to the `.terminal` attribute that solve_ivp reads off the event object c: on a local of the routine that holds the object;
    for a plain function (no partial object in between) also on the function itself, where it is defined (class body / module level)"""
    co = Ctx(S, fo)
    out = []
    short = c.base.node.name
    owner = c.base.cls
    mod = S.modules[c.base.module]
    for base, val in _attr_stores(own_nodes(fo.node), "terminal"):
        d = dotted(base)
        if isinstance(base, ast.Name) and base.id in c.holders:
            # (a bound method does not take attributes: such a store is never the working flag)
            out.append(_Flag(val if c.partial or c.kind != "method" else None, co, True))
        elif not c.partial and c.kind == "module" and d == short:
            out.append(_Flag(val, co, True))
        elif not c.partial and c.kind == "method" and d in (f"self.{short}.__func__", f"{owner}.{short}", f"type(self).{short}"):
            out.append(_Flag(val, co, True))
        elif not c.partial and c.kind == "method" and d == f"self.{short}":
            out.append(_Flag(None, co, True))
    if c.partial or c.kind not in ("method", "module"):
        return out
    if c.kind == "method" and owner in mod.classes:
        for base, val in _attr_stores(_scope_stmts(mod.classes[owner].node.body), "terminal"):
            if isinstance(base, ast.Name) and base.id == short:
                out.append(_Flag(val, None, False))
    for base, val in _attr_stores(_scope_stmts(mod.tree.body), "terminal"):
        if dotted(base) == (f"{owner}.{short}" if c.kind == "method" else short):
            out.append(_Flag(val, None, False))
    # anywhere else in the module: a store that names the function is a second setter of the flag
    for f in mod.funcs.values():
        if f is fo or f.parent is not None:
            continue
        for base, val in _attr_stores(ast.walk(f.node), "terminal"):
            if short in (dotted(base) or "").split("."):
                out.append(_Flag(None, None, False))
    return out


def _event_function(S, outer: str):
    """(front-condition function, the solve_ivp calls it terminates).  The function is the one handed to solve_ivp as `events`; when no
    integration uses an event (a violation reported by the caller) it is the function of the routine whose `.terminal` attribute is set."""
    fo = S.func(outer)
    ivp = [c for c in calls_in(fo.node, "solve_ivp") if kwarg(c, "events", 6) is not None]
    if ivp:
        return _by_role(S, outer, fo, ivp, "events", 6, "`events` of solve_ivp"), ivp
    cands = {}
    seen = [x for x in own_nodes(fo.node) if isinstance(x, (ast.Name, ast.Attribute)) and isinstance(x.ctx, ast.Load)] \
        + [ast.Name(id=x.name, ctx=ast.Load()) for x in own_nodes(fo.node) if isinstance(x, ast.FunctionDef)]
    for x in seen:
        if isinstance(x, ast.Attribute) and not (isinstance(x.value, ast.Name) and x.value.id == "self"):
            continue
        try:
            r = _resolve_callable(S, fo, x)
        except Undecided:
            r = None
        if r is not None and _terminal_flags(S, fo, r):
            cands.setdefault(r.ident(), r)
    if len(cands) != 1:
        raise AnchorMissing(f"{outer.split(':')[-1]}: no solve_ivp call with an `events` function and no function marked `.terminal`")
    return next(iter(cands.values())), ivp


# ------------------------------------------------------------------------------------------------ records written out as tuples
#
# A group of values that belong together may be packed into a small record -- a namedtuple (`collections.namedtuple`, `typing.NamedTuple`,
# class form or call form) or a field-only dataclass -- defined in the routine or in its module.  A namedtuple IS the tuple of its fields in
# declaration order, `r.f` is `r[k]`; `records_written_out` rewrites a copy of the routine accordingly:
#   1. a constructor call of a namedtuple (positional / keyword arguments, declared defaults) becomes the tuple display of its fields
#   2. a local that only ever holds records of one type (every store is `N = R(..)`): `N.f` becomes `N[k]`, also inside nested functions
#      (for a dataclass: only when N is used in no other way, and no field is ever stored to)
#   3. a local whose every store is a tuple display of one length and whose every use is `N[<literal>]` or `a, b = N` becomes one local
#      per slot (`N__0, N__1 = e0, e1`)
# so that the rules see the values themselves (`a, b, c = e0, e1, e2`), as before the record was introduced.


def _str_fields(spec):
    if isinstance(spec, ast.Constant) and isinstance(spec.value, str):
        return spec.value.replace(",", " ").split()
    if isinstance(spec, (ast.List, ast.Tuple)):
        out = []
        for e in spec.elts:
            if isinstance(e, ast.Constant) and isinstance(e.value, str):
                out.append(e.value)
            elif isinstance(e, (ast.Tuple, ast.List)) and e.elts and isinstance(e.elts[0], ast.Constant) and isinstance(e.elts[0].value, str):
                out.append(e.elts[0].value)
            else:
                return None
        return out
    return None


def _record_types(S, fi) -> dict:
    """record type name -> (fields, {field: default expression}, is a tuple)"""
    mod = S.modules[fi.module]
    out: dict = {}
    if not set(mod.imports.values()) & {"collections:namedtuple", "collections", "typing:NamedTuple", "typing", "dataclasses:dataclass", "dataclasses"}:
        return out

    def from_call(name, v):
        d = (dotted(v.func) or "") if isinstance(v, ast.Call) else ""
        imp = mod.imports.get(d.split(".")[0], "")
        kind = None
        if d in ("namedtuple", "collections.namedtuple") and imp in ("collections:namedtuple", "collections"):
            kind = "nt"
        elif d in ("NamedTuple", "typing.NamedTuple") and imp in ("typing:NamedTuple", "typing"):
            kind = "NT"
        if kind is None or len(v.args) < 2 or any(k.arg not in ("defaults",) for k in v.keywords) or len(v.args) > 2:
            return None
        flds = _str_fields(v.args[1])
        if not flds or len(set(flds)) != len(flds):
            return None
        dfl = {}
        dk = kwarg(v, "defaults")
        if dk is not None:
            if not isinstance(dk, (ast.Tuple, ast.List)) or len(dk.elts) > len(flds):
                return None
            dfl = dict(zip(flds[len(flds) - len(dk.elts):], dk.elts))
        return flds, dfl, True

    def from_class(c):
        bases = {dotted(b) or "" for b in c.bases}
        decos = {dotted(d.func if isinstance(d, ast.Call) else d) or "" for d in c.decorator_list}
        is_nt = bool(bases) and bases <= {"NamedTuple", "typing.NamedTuple"} and mod.imports.get("NamedTuple" if "NamedTuple" in bases else "typing") in ("typing:NamedTuple", "typing")
        is_dc = not bases and bool(decos) and decos <= {"dataclass", "dataclasses.dataclass"} \
            and all(not d.args and {k.arg for k in d.keywords} <= {"frozen", "slots", "eq", "order", "repr", "unsafe_hash", "match_args"}
                    for d in c.decorator_list if isinstance(d, ast.Call))
        if not (is_nt or is_dc) or c.keywords:
            return None
        flds, dfl = [], {}
        for st in c.body:
            if isinstance(st, ast.Expr) and isinstance(st.value, ast.Constant) and isinstance(st.value.value, str):
                continue
            if isinstance(st, ast.AnnAssign) and isinstance(st.target, ast.Name):
                flds.append(st.target.id)
                if st.value is not None:
                    if isinstance(st.value, ast.Call):
                        return None          # field(default_factory=..) and the like
                    dfl[st.target.id] = st.value
                continue
            return None                      # methods, class variables: more than a record
        return (flds, dfl, is_nt) if flds else None

    def scan(stmts):
        for st in stmts:
            if isinstance(st, ast.ClassDef):
                r = from_class(st)
                if r:
                    out[st.name] = r
            elif isinstance(st, ast.Assign) and len(st.targets) == 1 and isinstance(st.targets[0], ast.Name):
                r = from_call(st.targets[0].id, st.value)
                if r:
                    out[st.targets[0].id] = r

    scan(list(_scope_stmts(mod.tree.body)) + [c for c in mod.tree.body if isinstance(c, ast.ClassDef)])
    chain = []
    f = fi
    while f is not None:
        chain.append(f)
        f = f.parent
    for f in reversed(chain):
        scan([x for x in own_nodes(f.node) if isinstance(x, (ast.ClassDef, ast.Assign))])
    # a type name that is bound more than once (or is also a local / parameter of the routine) is not one fixed type
    counts: dict = {}

    def bump(nm):
        counts[nm] = counts.get(nm, 0) + 1

    for f in chain:
        for p_ in f.params():
            bump(p_)
        for x in own_nodes(f.node):
            if isinstance(x, ast.Name) and isinstance(x.ctx, (ast.Store, ast.Del)):
                bump(x.id)
            elif isinstance(x, (ast.ClassDef, ast.FunctionDef, ast.AsyncFunctionDef)):
                bump(x.name)
    for st in _scope_stmts(mod.tree.body):
        for x in ast.walk(st):
            if isinstance(x, ast.Name) and isinstance(x.ctx, (ast.Store, ast.Del)):
                bump(x.id)
    for c in mod.tree.body:
        if isinstance(c, (ast.ClassDef, ast.FunctionDef, ast.AsyncFunctionDef)):
            bump(c.name)
    return {nm: r for nm, r in out.items() if counts.get(nm, 0) == 1}


def _record_args(call: ast.Call, rec):
    """the field values of a constructor call in declaration order (None when a field stays open or the call is not plain)"""
    flds, dfl, _ = rec
    stars = [a for a in call.args if isinstance(a, ast.Starred)]
    if len(stars) == 1 and not call.keywords and not dfl and len(call.args) - 1 < len(flds) and _plain_value(stars[0].value):
        # R(a, *E) with every field required: the call only succeeds when E supplies exactly the remaining fields, E[0], E[1], ...
        k_ = len(flds) - (len(call.args) - 1)
        out = []
        for a in call.args:
            if a is stars[0]:
                out += [ast.copy_location(ast.Subscript(value=copy.deepcopy(a.value), slice=ast.copy_location(ast.Constant(value=i), a), ctx=ast.Load()), a)
                        for i in range(k_)]
            else:
                out.append(a)
        return out
    if stars or any(k.arg is None for k in call.keywords) or len(call.args) > len(flds):
        return None
    bind = dict(zip(flds, call.args))
    for k in call.keywords:
        if k.arg not in flds or k.arg in bind:
            return None
        bind[k.arg] = k.value
    for f_, d in dfl.items():
        bind.setdefault(f_, d)
    return [bind[f_] for f_ in flds] if all(f_ in bind for f_ in flds) else None


def _plain_value(e) -> bool:
    """an expression that may be written twice: names, attributes, subscripts, literals, arithmetic (no calls, no walrus)"""
    return not any(isinstance(x, (ast.Call, ast.NamedExpr, ast.Await, ast.Yield, ast.YieldFrom, ast.Lambda, ast.Starred)) for x in ast.walk(e))


def _scope_info(node):
    """(own-scope nodes, names bound inside nested functions / lambdas / classes, parent map)"""
    own = list(own_nodes(node))
    own_ids = {id(x) for x in own}
    nested_bound = set()
    parent = {}
    for x in ast.walk(node):
        for c in ast.iter_child_nodes(x):
            parent[id(c)] = x
        if x is node or id(x) in own_ids:
            continue
        if isinstance(x, ast.Name) and isinstance(x.ctx, (ast.Store, ast.Del)):
            nested_bound.add(x.id)
        elif isinstance(x, ast.arg):
            nested_bound.add(x.arg)
        elif isinstance(x, (ast.Global, ast.Nonlocal)):
            nested_bound |= set(x.names)
        elif isinstance(x, (ast.FunctionDef, ast.AsyncFunctionDef, ast.ClassDef)):
            nested_bound.add(x.name)
    # (lambdas are not entered by own_nodes' callers here: their parameters count as nested bindings)
    for x in own:
        if isinstance(x, ast.Lambda):
            for y in ast.walk(x.args):
                if isinstance(y, ast.arg):
                    nested_bound.add(y.arg)
        elif isinstance(x, (ast.Global, ast.Nonlocal)):
            nested_bound |= set(x.names)
        elif isinstance(x, ast.comprehension):
            for y in ast.walk(x.target):
                if isinstance(y, ast.Name):
                    nested_bound.add(y.id)
    return own, own_ids, nested_bound, parent


def _plain_stores(own, params) -> dict:
    """name -> list of its plain assignments `N = value` when every binding of N in the scope is one (else None)"""
    out: dict = {}
    for x in own:
        if isinstance(x, ast.Assign) and len(x.targets) == 1 and isinstance(x.targets[0], ast.Name):
            nm = x.targets[0].id
            if out.get(nm, []) is not None:
                out.setdefault(nm, []).append(x)
    # (a bare declaration `N: T` binds nothing)
    declared = {id(x.target) for x in own if isinstance(x, ast.AnnAssign) and x.value is None and isinstance(x.target, ast.Name)}
    for x in own:
        if isinstance(x, ast.Name) and isinstance(x.ctx, (ast.Store, ast.Del)) and x.id in out and out[x.id] is not None \
                and not any(st.targets[0] is x for st in out[x.id]) and id(x) not in declared:
            out[x.id] = None
        elif isinstance(x, (ast.FunctionDef, ast.AsyncFunctionDef, ast.ClassDef)) and x.name in out:
            out[x.name] = None
        elif isinstance(x, ast.ExceptHandler) and x.name in out:
            out[x.name] = None
    return {k: v for k, v in out.items() if v and k not in params}


_RECORDS: dict = {}


def records_written_out(S, fi) -> FuncInfo:
    key = (id(S), fi.name, id(fi.node))
    hit = _RECORDS.get(key)
    if hit is not None:
        return hit[1]
    out = _records_written_out(S, fi)
    _RECORDS[key] = (fi.node, out)
    return out


def _records_written_out(S, fi) -> FuncInfo:
    recs = _record_types(S, fi)
    if not recs and not any(isinstance(x, ast.Assign) and len(x.targets) == 1 and isinstance(x.targets[0], ast.Name) and isinstance(x.value, ast.Tuple)
                            for x in own_nodes(fi.node)):
        return fi
    node = copy.deepcopy(fi.node)
    changed = False
    params = set(FuncInfo(fi.module, fi.qual, node, fi.cls, fi.parent).params()) | {"self", "cls"}
    if node.args.vararg:
        params.add(node.args.vararg.arg)
    if node.args.kwarg:
        params.add(node.args.kwarg.arg)
    if recs:
        own, own_ids, nested_bound, parent = _scope_info(node)
        # 2. locals that only ever hold records of one type
        for nm, sts in _plain_stores(own, params).items():
            if nm in nested_bound:
                continue
            types = {(dotted(st.value.func) if isinstance(st.value, ast.Call) else None) for st in sts}
            if len(types) != 1 or next(iter(types)) not in recs:
                continue
            rec = recs[next(iter(types))]
            if any(_record_args(st.value, rec) is None for st in sts):
                continue
            flds = rec[0]
            uses = [x for x in ast.walk(node) if isinstance(x, ast.Name) and x.id == nm and isinstance(x.ctx, ast.Load)]
            attr_uses = [(x, parent.get(id(x))) for x in uses]
            if any(isinstance(p_, ast.Attribute) and p_.value is x and not isinstance(p_.ctx, ast.Load) for x, p_ in attr_uses):
                continue          # a field is stored to / deleted
            if any(isinstance(p_, ast.Attribute) and p_.value is x and p_.attr not in flds for x, p_ in attr_uses):
                continue          # _replace / _asdict / ...: more than a tuple
            if not rec[2] and not all(isinstance(p_, ast.Attribute) and p_.value is x for x, p_ in attr_uses):
                continue          # a dataclass object that is handed on as such
            for x, p_ in attr_uses:
                if isinstance(p_, ast.Attribute) and p_.value is x:
                    new = ast.Subscript(value=x, slice=ast.Constant(value=flds.index(p_.attr)), ctx=ast.Load())
                    ast.copy_location(new, p_)
                    ast.copy_location(new.slice, p_)
                    _replace_child(parent.get(id(p_)), p_, new)
                    parent[id(new)] = parent.get(id(p_))
                    parent[id(x)] = new
                    changed = True
            if not rec[2]:
                for st in sts:
                    st.value = ast.copy_location(ast.Tuple(elts=_record_args(st.value, rec), ctx=ast.Load()), st.value)
                    changed = True

        # 1. constructor calls of namedtuples
        class T(ast.NodeTransformer):
            def visit_Call(self, x):
                self.generic_visit(x)
                d = dotted(x.func)
                if d in recs and recs[d][2]:
                    a = _record_args(x, recs[d])
                    if a is not None:
                        nonlocal changed
                        changed = True
                        return ast.copy_location(ast.Tuple(elts=a, ctx=ast.Load()), x)
                return x

        for i, st in enumerate(node.body):
            node.body[i] = T().visit(st)
    # 3. one local per slot
    changed = _scalarise_tuples(node, params) or changed
    if not changed:
        return fi
    ast.fix_missing_locations(node)
    return FuncInfo(fi.module, fi.qual, node, fi.cls, fi.parent)


def _replace_child(par, old, new) -> None:
    for fld, val in ast.iter_fields(par):
        if val is old:
            setattr(par, fld, new)
            return
        if isinstance(val, list):
            for i, y in enumerate(val):
                if y is old:
                    val[i] = new
                    return


def _lit_index(sl):
    if isinstance(sl, ast.Constant) and isinstance(sl.value, int) and not isinstance(sl.value, bool):
        return sl.value
    if isinstance(sl, ast.UnaryOp) and isinstance(sl.op, ast.USub) and isinstance(sl.operand, ast.Constant) and isinstance(sl.operand.value, int) \
            and not isinstance(sl.operand.value, bool):
        return -sl.operand.value
    return None


def _scalarise_tuples(node, params) -> bool:
    own, own_ids, nested_bound, parent = _scope_info(node)
    taken = {x.id for x in ast.walk(node) if isinstance(x, ast.Name)} | {x.arg for x in ast.walk(node) if isinstance(x, ast.arg)}
    changed = False
    for nm, sts in _plain_stores(own, params).items():
        if nm in nested_bound or not all(isinstance(st.value, ast.Tuple) and not any(isinstance(e, ast.Starred) for e in st.value.elts) for st in sts):
            continue
        sizes = {len(st.value.elts) for st in sts}
        if len(sizes) != 1 or not 1 <= next(iter(sizes)) <= 8:
            continue
        n_ = next(iter(sizes))
        sites = []
        ok = True
        for x in ast.walk(node):
            if not (isinstance(x, ast.Name) and x.id == nm and isinstance(x.ctx, ast.Load)):
                continue
            p_ = parent.get(id(x))
            if isinstance(p_, ast.Subscript) and p_.value is x and isinstance(p_.ctx, ast.Load) and (k_ := _lit_index(p_.slice)) is not None and -n_ <= k_ < n_:
                sites.append(("slot", p_, k_ % n_))
            elif id(x) in own_ids and isinstance(p_, ast.Assign) and p_.value is x and len(p_.targets) == 1 and isinstance(p_.targets[0], (ast.Tuple, ast.List)) \
                    and len(p_.targets[0].elts) == n_ and not any(isinstance(e, ast.Starred) for e in p_.targets[0].elts):
                sites.append(("unpack", p_, None))
            elif isinstance(p_, ast.Starred) and isinstance(p_.ctx, ast.Load) and isinstance(pp_ := parent.get(id(p_)), (ast.Call, ast.Tuple, ast.List)) \
                    and any(y is p_ for y in (pp_.args if isinstance(pp_, ast.Call) else pp_.elts)):
                sites.append(("star", p_, pp_))          # f(a, *N) / (a, *N): the slots one by one
            else:
                ok = False
                break
        if not ok or not sites:
            continue
        slots = []
        for i in range(n_):
            s_ = f"{nm}__{i}"
            while s_ in taken:
                s_ += "_"
            taken.add(s_)
            slots.append(s_)
        for st in sts:
            if n_ == 1:
                st.targets = [ast.copy_location(ast.Name(id=slots[0], ctx=ast.Store()), st.targets[0])]
                st.value = st.value.elts[0]
            else:
                st.targets = [ast.copy_location(ast.Tuple(elts=[ast.Name(id=s_, ctx=ast.Store()) for s_ in slots], ctx=ast.Store()), st.targets[0])]
        for kind, p_, k_ in sites:
            if kind == "slot":
                _replace_child(parent.get(id(p_)), p_, ast.copy_location(ast.Name(id=slots[k_], ctx=ast.Load()), p_))
            elif kind == "star":
                seq = k_.args if isinstance(k_, ast.Call) else k_.elts
                i_ = next(i for i, y in enumerate(seq) if y is p_)
                seq[i_:i_ + 1] = [ast.copy_location(ast.Name(id=s_, ctx=ast.Load()), p_) for s_ in slots]
            else:
                p_.value = ast.copy_location(ast.Tuple(elts=[ast.Name(id=s_, ctx=ast.Load()) for s_ in slots], ctx=ast.Load()), p_.value)
        changed = True
    return changed


def _state_symbols(ex: Extractor, fi):
    """(v, xi, second state component) symbols of an ODE right-hand side / event function f(v, state, ...)"""
    p = _params(fi)
    if len(p) < 2:
        raise AnchorMissing(f"{fi.qual}: expected parameters (v, state, ...)")
    return ex.sym(p[0]), ex.sym(f"{p[1]}[0]"), ex.sym(f"{p[1]}[1]")


def _value_at(g: CFG, cx: Ctx, at, e):
    """defining expression of a local used at CFG node `at`: through single-assignment temporaries, else the unique reaching definition"""
    for _ in range(6):
        if not isinstance(e, ast.Name):
            break
        d = cx.local_defs().get(e.id)
        if d is None:
            rd = [x for x in g.reaching_defs(at, e.id)]
            if len(rd) == 1 and rd[0] is not CFG.ENTRY and isinstance(rd[0], (ast.Assign, ast.AnnAssign)) and rd[0].value is not None \
                    and isinstance(rd[0].targets[0] if isinstance(rd[0], ast.Assign) else rd[0].target, ast.Name):
                at, d = rd[0], rd[0].value
        if d is None:
            break
        e = d
    return e


def _first(e):
    return e.elts[0] if isinstance(e, (ast.List, ast.Tuple)) and e.elts else None


def _two_wave_path(paths, what: str):
    """the path on which both the shock-wave and the rarefaction-wave contribution are computed (two Simpson integrals in the result)"""
    full = [p for p in paths if isinstance(p.value, sp.Basic) and len([a for a in p.value.atoms(sp.Function) if a.func == SIMPSON]) == 2]
    if len(full) != 1:
        raise Undecided(f"{what}: expected one path with both wave contributions, found {len(full)}")
    return full[0]


def _contribution(value, sol: str):
    """(summand of the efficiency factor integrating over solution `sol`, its Simpson call, x, y)"""
    for term in sp.Add.make_args(value):
        calls = [a for a in term.atoms(sp.Function) if a.func == SIMPSON]
        if len(calls) == 1 and len(calls[0].args) == 2:
            xs = [a for a in calls[0].args if isinstance(a, sp.Symbol)]
            if len(xs) == 1 and xs[0].name.startswith(f"{sol}.y"):
                return term, calls[0], xs[0], [a for a in calls[0].args if a is not xs[0]][0]
    return None, None, None, None


# ------------------------------------------------------------------------------------------------ rules


def _shockde(chk: Check):
    S = chk.src
    ex = hydro_extractor(S, positive={"T"})
    fi = S.func(f"{HY}.shockDE")
    chk.touch(fi.name)
    p = _params(fi)
    if len(p) != 3:
        raise AnchorMissing("shockDE: expected parameters (v, xiAndT, shockWave)")
    out = {}
    for shock in (True, False):
        ps = [q for q in ex.paths(fi, {p[2]: shock}) if q.raised is None]
        if len(ps) != 1:
            raise Undecided(f"shockDE(shockWave={shock}): expected one regular path, found {len(ps)}")
        v = ps[0].value
        if not (isinstance(v, (list, tuple)) and len(v) == 2):
            raise Undecided("shockDE does not return [dxi/dv, dT/dv]")
        out[shock] = (v[0], v[1], ps[0].env)
    ex.shockde_symbols = _state_symbols(ex, fi)
    return ex, fi, out


def r03_1(chk: Check):
    ex, fi, out = _shockde(chk)
    v, xi, T = ex.shockde_symbols
    for shock, (dxidv, dTdv, env) in out.items():
        cs = th("csqHighT" if shock else "csqLowT")(T)
        chk.ob("R03.1", fi.where(), f"shockDE(shockWave={shock}) uses the sound speed of the {'high' if shock else 'low'}-T phase at the local temperature",
               dxidv.has(cs) and not dxidv.has(th("csqLowT" if shock else "csqHighT")), str(dxidv)[:120], key=f"cs-phase|{shock}")
        # fluid equations in the similarity variable (Espinosa et al. 2010, eqs. 2.27-2.28), p = p(T), dp = (w/T) dT, de = dp/cs^2
        w = sp.Symbol("w", positive=True)
        g2 = 1 / (1 - v**2)
        dv = 1 / dxidv                    # d v / d xi
        dT = dTdv / dxidv                 # d T / d xi
        dp = (w / T) * dT
        de = dp / cs
        E1 = (xi - v) / w * de - 2 * v / xi - (1 - g2 * v * (xi - v)) * dv
        E2 = (1 - v * xi) / w * dp - g2 * (xi - v) * dv
        ok1, how1 = is_zero(E1, chk.seed)
        ok2, how2 = is_zero(E2, chk.seed)
        chk.ob("R03.1", fi.where(), f"shockDE(shockWave={shock}): (xi-v)/w de/dxi = 2v/xi + [1 - gamma^2 v (xi - v)] dv/dxi  (energy equation in xi)",
               ok1, how1, key=f"energy-eq|{shock}", how=how1)
        chk.ob("R03.1", fi.where(), f"shockDE(shockWave={shock}): (1 - v xi)/w dp/dxi = gamma^2 (xi - v) dv/dxi  (momentum equation in xi)",
               ok2, how2, key=f"momentum-eq|{shock}", how=how2)
    # helpers
    S = chk.src
    exh = Extractor(S)
    fg, fb = S.func("helpers:gammaSq"), S.func("helpers:boostVelocity")
    g = exh.single(fg)
    b = exh.single(fb)
    chk.touch("helpers:gammaSq", "helpers:boostVelocity")
    (gv,), (bx, bv) = (exh.sym(p) for p in _params(fg)[:1]), (exh.sym(p) for p in _params(fb)[:2])
    ok1, h1 = is_zero(g - 1 / (1 - gv ** 2), chk.seed)
    ok2, h2 = is_zero(b - (bx - bv) / (1 - bx * bv), chk.seed)
    chk.ob("R03.1", fg.where(), "gammaSq(v) == 1/(1 - v^2)", ok1, h1, key="gammaSq", how=h1)
    chk.ob("R03.1", fb.where(), "boostVelocity(xi, v) == (xi - v)/(1 - xi v)", ok2, h2, key="boostVelocity", how=h2)
    # negative temperature is an error, not silently continued: every raising path is taken exactly when T <= 0
    raising = [q for q in ex.paths(fi) if q.raised is not None]
    nonpos = {("LE", T, 0, True), ("GE", 0, T, True), ("GT", T, 0, False), ("LT", 0, T, False)}
    okr = bool(raising) and all(any(isinstance(gd.term, sp.Basic) and len(gd.term.args) == 2 and (gd.term.func.__name__, gd.term.args[0], gd.term.args[1], gd.polarity) in nonpos
                                    for gd in q.guards) for q in raising)
    chk.ob("R03.1", fi.where(), "shockDE raises when the temperature becomes non-positive", okr, key="T-positive")
    chk.floor("R03.1", 9)
    return ex, out


def r03_2(chk: Check):
    S = chk.src
    ex = hydro_extractor(S)
    for outer in (f"{HY}.solveHydroShock", f"{HY}.efficiencyFactor"):
        ev, ivp = _event_function(S, outer)
        fi = ev.fi
        chk.touch(fi.name)
        short = outer.split('.')[-1]
        v, xi, T = _state_symbols(ex, fi)
        want = (xi - v) / (1 - xi * v) * xi - th("csqHighT")(T)
        val = ex.single(with_closure_temporaries(S, fi))          # (a closure may read temporaries of the routine)
        ok, how = is_zero(val - want, chk.seed)
        chk.ob("R03.2", fi.where(), f"{short}: front condition is mu(xi, v) xi - csqHighT(T)", ok, f"{val}; {how}", key=f"front|{short}", how=how)
        fo = S.func(outer)
        co = Ctx(S, fo)
        # (the flag solve_ivp reads off the event object: set on the local that holds it, or -- for a method / module-level function handed over
        # as it is -- on the function where it is defined)
        term = _terminal_flags(S, fo, ev)
        chk.ob("R03.2", fo.where(), f"{short}: the front event is terminal", len(term) == 1 and term[0].value is not None and eqx(term[0].value, "True", term[0].ctx),
               key=f"terminal|{short}")
        # (the event function is by construction the one every solve_ivp call with `events` receives; a second, different one is an AnchorMissing)
        # (the shock integrations: shockWave left at its default or given as True, through `args=` or bound with functools.partial)
        shock_ivp = [c for c in calls_in(fo.node, "solve_ivp") if (w_ := _ode_of(S, fo, c, co)[1]) is None or eqx(w_, "True", co)]
        ok = bool(ivp) and all(kwarg(c, "events", 6) is not None for c in shock_ivp)
        chk.ob("R03.2", fo.where(), f"{short}: the shock integration is stopped by that event", ok, key=f"events|{short}")
    # template
    fo = S.func(f"{TM}.integratePlasma")
    evt, ivp = _event_function(S, f"{TM}.integratePlasma")
    ft = evt.fi
    chk.touch(ft.name)
    ext = hydro_extractor(S)
    val = ext.single(with_closure_temporaries(S, ft))
    vt, xit, _ = _state_symbols(ext, ft)
    wantt = (xit * (xit - vt) / (1 - xit * vt) - ext.sym("self.cs2"))
    ok, how = is_zero(sp.cancel(val / vt) - wantt, chk.seed)
    chk.ob("R03.2", ft.where(), "template: front event is v * (mu(xi, v) xi - cs^2): same zero set for v != 0", ok, f"{val}; {how}", key="front|template", how=how)
    co = Ctx(S, fo)
    term = _terminal_flags(S, fo, evt)
    flag = _params(fo)[3] if len(_params(fo)) > 3 else "?"
    # (the flag follows a parameter of the routine: it can only be set inside the routine)
    chk.ob("R03.2", fo.where(), "template: the event is terminal exactly when integrating the shock wave",
           len(term) == 1 and term[0].local and term[0].value is not None and eqx(term[0].value, flag, co), key="terminal|template")
    chk.floor("R03.2", 8)


def r03_3(chk: Check):
    S = chk.src
    ex = hydro_extractor(S)
    # (a record holding the state behind the front is read as the tuple of its fields: records_written_out)
    fo = records_written_out(S, S.func(f"{HY}.solveHydroShock"))
    g = CFG(fo.node)
    cx = Ctx(S, fo)
    roots = [c for c in calls_in(fo.node, "root_scalar")]
    if not roots:
        raise AnchorMissing("solveHydroShock: the root_scalar search for the nucleation temperature not found")
    fi = _nested_by_role(S, f"{HY}.solveHydroShock", fo, roots, "f", 0, "function whose root is searched")
    chk.touch(fi.name)
    # the state behind the front: end point of the integrated solution
    ivp = calls_in(fo.node, "solve_ivp")
    SOL = _assigned_name(fo.node, ivp[0]) if len(ivp) == 1 else None
    VM = XI = TM_ = None
    if SOL is not None:
        # component-wise definitions: `a, b = e1, e2` defines a by e1; `a, b = E` defines a by E[0]; copies of a name are followed
        comp = []
        for st in own_nodes(fo.node):
            if not isinstance(st, ast.Assign) or len(st.targets) != 1:
                continue
            t, v = st.targets[0], st.value
            if isinstance(t, ast.Name):
                comp.append((t.id, v, None))
            elif isinstance(t, (ast.Tuple, ast.List)) and all(isinstance(e_, ast.Name) for e_ in t.elts):
                if isinstance(v, (ast.Tuple, ast.List)) and len(v.elts) == len(t.elts):
                    comp += [(e_.id, vv, None) for e_, vv in zip(t.elts, v.elts)]
                else:
                    comp += [(e_.id, v, k_) for k_, e_ in enumerate(t.elts)]
        role = {}          # name -> 'v' | 'xi' | 'T'
        for nm, v, k_ in comp:
            if k_ is None and eqx(v, f"{SOL}.t[-1]", cx):
                role[nm] = "v"
            elif k_ is not None and eqx(v, f"{SOL}.y[:, -1]", cx):
                role[nm] = ("xi", "T")[k_] if k_ < 2 else None
            elif k_ is None and eqx(v, f"{SOL}.y[0, -1]", cx):
                role[nm] = "xi"
            elif k_ is None and eqx(v, f"{SOL}.y[1, -1]", cx):
                role[nm] = "T"
            elif k_ is None and isinstance(v, ast.Subscript) and (i_ := _lit_index(v.slice)) in (0, 1) and eqx(v.value, f"{SOL}.y[:, -1]", cx):
                role[nm] = ("xi", "T")[i_]          # (the end point, then its component)
        changed = True
        while changed:
            changed = False
            for nm, v, k_ in comp:
                if k_ is None and isinstance(v, ast.Name) and v.id in role and nm not in role:
                    role[nm] = role[v.id]
                    changed = True
        used = {x.id for x in ast.walk(with_closure_temporaries(S, fi).node) if isinstance(x, ast.Name)}
        pick = {r_: [nm for nm, rr in role.items() if rr == r_ and nm in used] for r_ in ("v", "xi", "T")}
        if all(len(v_) == 1 for v_ in pick.values()):
            VM, XI, TM_ = pick["v"][0], pick["xi"][0], pick["T"][0]
    front_ok = None not in (VM, XI, TM_) and len({VM, XI, TM_}) == 3
    val = ex.single(with_closure_temporaries(S, fi))
    prm = _params(fi)
    tn, xs, vs, Ts = ex.sym(prm[0] if prm else "?"), ex.sym(XI or "?xi"), ex.sym(VM or "?v"), ex.sym(TM_ or "?T")
    mu = (xs - vs) / (1 - xs * vs)
    want = th("wHighT")(tn) * xs / (1 - xs**2) - th("wHighT")(Ts) * mu / (1 - mu**2)
    ok, how = is_zero(val - want, chk.seed)
    chk.ob("R03.3", fi.where(), "TiiShock(tn) == w+(tn) gamma^2(xi_s) xi_s - w+(T_s) gamma^2(mu_s) mu_s, mu_s = mu(xi_s, v_s): "
           "energy flux is continuous across the front, plasma at rest ahead", ok, how, key="Tii", how=how)
    chk.ob("R03.3", fo.where(), "the nucleation temperature is the root of TiiShock (both bracketed and secant branch)", len(roots) == 2,
           key="Tn-root")
    # every returned value is the root of one of these searches, and the branch on which the search did not converge never returns
    RES = {_assigned_name(fo.node, c) for c in roots}
    rets = [r for r in g.nodes if isinstance(r, ast.Return)]
    okc = len(RES) == 1 and None not in RES and bool(rets)
    if okc:
        R = next(iter(RES))
        okc = all(has(r.value, f"{R}.root", cx) for r in rets)
        tests = []
        for t in g.nodes:
            if g.kind.get(t) == "test":
                e, pol = cx.resolve(t), True
                while isinstance(e, ast.UnaryOp) and isinstance(e.op, ast.Not):
                    e, pol = e.operand, not pol
                if eqx(e, f"{R}.converged"):
                    tests.append((t, pol))
        okc = okc and len(tests) == 1 and all(g.must_pass(CFG.ENTRY, r, lambda q: q is tests[0][0]) for r in rets) \
            and not g.reaches(g.branch(tests[0][0], not tests[0][1]), CFG.EXIT)
    chk.ob("R03.3", fo.where(), "a non-converged root raises instead of being returned", okc, key="Tn-converged")
    chk.ob("R03.3", fo.where(), "the state behind the front is the end point of the integrated solution", front_ok, key="front-state")
    chk.floor("R03.3", 4)


def r03_45(chk: Check):
    S = chk.src
    ex = hydro_extractor(S)
    # --- solveHydroShock initial data
    fo = records_written_out(S, S.func(f"{HY}.solveHydroShock"))
    chk.touch(fo.name)
    go = CFG(fo.node)
    co = Ctx(S, fo)
    env = {"__module__": "hydrodynamics", "__class__": "Hydrodynamics"}
    prm = _params(fo)
    if len(prm) != 3:
        raise AnchorMissing("solveHydroShock: expected parameters (vw, vp, Tp)")
    vw, vp, Tp = (ex.sym(p) for p in prm)
    ivp = calls_in(fo.node, "solve_ivp")
    if len(ivp) != 1:
        raise AnchorMissing("solveHydroShock: the solve_ivp integration of the shock not found")
    at = go.node_of(ivp[0])
    span, y0 = kwarg(ivp[0], "t_span", 1), kwarg(ivp[0], "y0", 2)
    start = _first(_value_at(go, co, at, span)) if span is not None else None
    vpc = ex.expr(co.resolve(start), dict(env)) if start is not None else None
    ok, how = (None, "start of the integration range not found") if vpc is None else is_zero(vpc - (vw - vp) / (1 - vw * vp), chk.seed)
    chk.ob("R03.4", fo.where(), "solveHydroShock: integration starts at the fluid velocity mu(vw, v+) (wall frame -> plasma frame)", ok, how,
           key="start-velocity|solveHydroShock", how=how)
    x0 = ex.expr(co.resolve(_value_at(go, co, at, y0)), dict(env)) if y0 is not None else None
    chk.ob("R03.4", fo.where(), "solveHydroShock: initial data are (xi, T) = (vw, T+)", isinstance(x0, (list, tuple)) and list(x0) == [vw, Tp], str(x0), key="start-data|solveHydroShock")
    isode, wave = _ode_of(S, fo, ivp[0], co)
    ok = isode and (wave is None or eqx(wave, "True", co)) and start is not None and y0 is not None
    chk.ob("R03.4", fo.where(), "solveHydroShock integrates self.shockDE from v = mu(vw, v+) downwards with those data", ok, key="ivp|solveHydroShock")
    # --- efficiencyFactor
    # (both efficiency factors are read in their written-out form: a loop over the two waves is written out case by case, result slots and
    # re-used locals become one local per wave)
    fe = written_out(S, records_written_out(S, S.func(f"{HY}.efficiencyFactor")))
    chk.touch(fe.name)
    ge = CFG(fe.node)
    ce = Ctx(S, fe)
    paths = [p for p in ex.paths(fe) if p.raised is None]
    full = _two_wave_path(paths, "efficiencyFactor")
    envf = full.env
    pe = _params(fe)
    vw = ex.sym(pe[0])
    fm = fn("findMatching")(vw)
    mvp, mvm, mTp, mTm = (fn("getitem")(fm, i) for i in range(4))
    ivps = calls_in(fe.node, "solve_ivp")
    chk.ob("R03.4", fe.where(), "efficiencyFactor integrates the same self.shockDE for the shock and for the rarefaction wave",
           len(ivps) == 2 and all(_ode_of(S, fe, c, ce)[0] for c in ivps), key="same-ode")
    # the wave an integration follows: the value of shockDE's shockWave parameter (`args=(value,)`, or bound with functools.partial; default True)
    waves = {id(c): _ode_of(S, fe, c, ce)[1] for c in ivps}
    rare = [c for c in ivps if waves[id(c)] is not None and not eqx(waves[id(c)], "True", ce)]
    shockw = [c for c in ivps if waves[id(c)] is None or eqx(waves[id(c)], "True", ce)]
    if len(rare) != 1 or len(shockw) != 1:
        rare = [c for c in ivps if waves[id(c)] is not None]
        shockw = [c for c in ivps if waves[id(c)] is None]
    ok = len(rare) == 1 and eqx(waves[id(rare[0])], "False", ce) and kwarg(rare[0], "events", 6) is None
    chk.ob("R03.4", fe.where(), "the rarefaction wave is integrated with shockWave=False (low-T sound speed) and no front event", ok, key="rarefaction-args")
    if len(rare) != 1 or len(shockw) != 1:
        raise AnchorMissing("efficiencyFactor: the shock-wave and the rarefaction-wave integration not found")
    starts, data = {}, {}
    for which, c in (("shock", shockw[0]), ("rare", rare[0])):
        at = ge.node_of(c)
        span, y0 = kwarg(c, "t_span", 1), kwarg(c, "y0", 2)
        s0 = _first(_value_at(ge, ce, at, span)) if span is not None else None
        starts[which] = ex.expr(_value_at(ge, ce, at, s0), envf) if s0 is not None else None
        d0 = _value_at(ge, ce, at, y0) if y0 is not None else None
        data[which] = ex.expr(d0, envf) if d0 is not None else None
    ok1, h1 = is_zero(starts["shock"] - (vw - mvp) / (1 - vw * mvp), chk.seed) if isinstance(starts["shock"], sp.Basic) else (False, "start not found")
    ok2, h2 = is_zero(starts["rare"] - (vw - mvm) / (1 - vw * mvm), chk.seed) if isinstance(starts["rare"], sp.Basic) else (False, "start not found")
    chk.ob("R03.4", fe.where(), "efficiencyFactor: shock starts at mu(vw, v+), rarefaction at mu(vw, v-), with (v+, v-, T+, T-) = findMatching(vw)",
           ok1 and ok2, f"{h1}; {h2}", key="start-velocity|efficiencyFactor", how=h1)
    ok = isinstance(data["shock"], (list, tuple)) and list(data["shock"]) == [vw, mTp] and isinstance(data["rare"], (list, tuple)) and list(data["rare"]) == [vw, mTm]
    chk.ob("R03.4", fe.where(), "efficiencyFactor: shock data (vw, T+), rarefaction data (vw, T-)", ok, f"{data}"[:200], key="start-data|efficiencyFactor")
    # --- kappa
    wn = th("wHighT")(ex.sym("self.Tnucl"))
    aln = ex.sym("self.template.alN")
    found = []
    for nm, call, wf, sign in (("shock wave", shockw[0], "wHighT", 1), ("rarefaction wave", rare[0], "wLowT", -1)):
        sol = _assigned_name(fe.node, call)
        ok = None
        val, c, x_, y_ = _contribution(full.value, sol) if sol else (None, None, None, None)
        detail = str(val)[:200]
        if val is not None:
            found.append(val)
            pref = sp.simplify(val / c)
            ok1, h1 = is_zero(pref - sign * 4 / (vw**3 * wn * aln), chk.seed)
            vpl = ex.sym(f"{sol}.t")
            # the enthalpy profile: the phase's enthalpy evaluated point by point (a comprehension over a bound variable)
            comps = [a for a in y_.atoms(sp.Function) if a.func == COMP]
            ok2, h2 = False, "enthalpy profile not found"
            if len(comps) == 1 and comps[0].args[0].func == th(wf) and len(comps[0].args[0].args) == 1 and isinstance(comps[0].args[0].args[0], sp.Symbol) \
                    and comps[0].args[0].args[0] not in (vw, x_, vpl):
                W = sp.Symbol("enthalpyProfile__", positive=True)
                ok2, h2 = is_zero(y_.subs(comps[0], W) - x_**2 * vpl**2 / (1 - vpl**2) * W, chk.seed)
            okx = x_.name == f"{sol}.y[0]"
            ok = bool(ok1 and ok2 and okx)
            detail = f"prefactor: {h1}; integrand: {h2}; x = {x_}"
        chk.ob("R03.5", fe.where(), f"kappa ({nm}) == {'+' if sign > 0 else '-'}4/(vw^3 w_n alpha_n) * Simpson[xi^2 v^2 gamma^2(v) {wf}(T)] d xi over that wave's solution",
               ok, detail, key=f"kappa|{nm}")
    chk.ob("R03.5", fe.where(), "kappa is the sum of the two contributions", len(found) == 2 and sp.simplify(full.value - found[0] - found[1]) == 0, str(full.value)[:100],
           key="kappa-sum")
    # template sibling
    ft = written_out(S, records_written_out(S, S.func(f"{TM}.efficiencyFactor")))
    chk.touch(ft.name)
    ct = Ctx(S, ft)
    ext = hydro_extractor(S)
    pt = _two_wave_path([p for p in ext.paths(ft) if p.raised is None], "template efficiencyFactor")
    pv = _params(ft)
    tvw = ext.sym(pv[0])
    ips = calls_in(ft.node, "integratePlasma")
    tshock = [c for c in ips if kwarg(c, "shockWave", 3) is None or eqx(kwarg(c, "shockWave", 3), "True", ct)]
    trare = [c for c in ips if kwarg(c, "shockWave", 3) is not None and eqx(kwarg(c, "shockWave", 3), "False", ct)]
    if len(tshock) != 1 or len(trare) != 1:
        raise AnchorMissing("template efficiencyFactor: the two integratePlasma calls not found")
    for nm, call, sign in (("shock wave", tshock[0], 1), ("rarefaction wave", trare[0], -1)):
        sol = _assigned_name(ft.node, call)
        ok = None
        val, c, x_, y_ = _contribution(pt.value, sol) if sol else (None, None, None, None)
        detail = str(val)[:200]
        if val is not None:
            ok1, h1 = is_zero(sp.simplify(val / c) - sign * 4 / (tvw ** 3 * ext.sym("self.alN")), chk.seed)
            vpl = ext.sym(f"{sol}.t")
            ok2, h2 = is_zero(y_ - x_**2 * vpl**2 / (1 - vpl**2) * ext.sym(f"{sol}.y[1]"), chk.seed)
            ok = bool(ok1 and ok2 and x_.name == f"{sol}.y[0]")
            detail = f"{h1}; {h2}; x={x_}"
        chk.ob("R03.5", ft.where(), f"template kappa ({nm}) has the same integrand and prefactor with w_n = 1 (enthalpy in units of w_n)", ok, detail,
               key=f"template-kappa|{nm}")
    chk.floor("R03.4", 7)
    chk.floor("R03.5", 5)


def r03_6(chk: Check, ex, out):
    S = chk.src
    ft = S.func(f"{TM}._dxiAndWdv")
    chk.touch(ft.name)
    ext = hydro_extractor(S)
    v, xi, T = ex.shockde_symbols
    pt = _params(ft)
    if len(pt) != 3:
        raise AnchorMissing("_dxiAndWdv: expected parameters (v, xiAndW, shockWave)")
    vt, xt, wt = _state_symbols(ext, ft)
    for shock in (True, False):
        ps = [p for p in ext.paths(ft, {pt[2]: shock}) if p.raised is None]
        # the regular branch (v != 0): the one whose d xi/dv is not the constant stand-in
        reg = [p for p in ps if isinstance(p.value, (list, tuple)) and len(p.value) == 2 and isinstance(p.value[0], sp.Basic) and p.value[0].free_symbols]
        if len(reg) != 1:
            raise Undecided("_dxiAndWdv: regular branch not found")
        val = reg[0].value
        dx, dw = val
        csT = ext.sym("self.cs2" if shock else "self.cb2")
        code_dx = out[shock][0].subs({xi: xt, v: vt}).replace(th("csqHighT" if shock else "csqLowT"), lambda a: csT)
        ok, how = is_zero(dx - code_dx, chk.seed)
        chk.ob("R03.6", ft.where(), f"template d xi/dv (shockWave={shock}) equals shockDE's with constant sound speed", ok, how,
               key=f"template-dxi|{shock}", how=how)
        mu = (xt - vt) / (1 - xt * vt)
        ok, how = is_zero(dw - wt * (1 + 1 / csT) * mu / (1 - vt**2), chk.seed)
        chk.ob("R03.6", ft.where(), f"template dw/dv (shockWave={shock}) == w (1 + 1/cs^2) gamma^2 mu  (= (dw/dT) dT/dv for w ~ T^(1+1/cs^2))", ok, how,
               key=f"template-dw|{shock}", how=how)
    chk.floor("R03.6", 4)


# ------------------------------------------------------------------------------------------------ R03.11
MATCHERS = ("matchDeflagOrHyb", "matchDeton", "findMatching")


def _is_match_call(e) -> bool:
    return isinstance(e, ast.Call) and isinstance(e.func, ast.Attribute) and e.func.attr in MATCHERS


def _tplus_names(scope: ast.AST) -> set:
    """names bound (anywhere below `scope`) to element 2 of a matching tuple: by unpacking or by a literal subscript"""
    tuples, out = set(), set()
    for st in ast.walk(scope):
        if isinstance(st, ast.Assign) and len(st.targets) == 1 and _is_match_call(st.value) and isinstance(st.targets[0], ast.Name):
            tuples.add(st.targets[0].id)
    for st in ast.walk(scope):
        if not (isinstance(st, ast.Assign) and len(st.targets) == 1):
            continue
        t, v = st.targets[0], st.value
        if isinstance(t, ast.Tuple) and len(t.elts) == 4 and isinstance(t.elts[2], ast.Name) and (_is_match_call(v) or (isinstance(v, ast.Name) and v.id in tuples)):
            out.add(t.elts[2].id)
        elif isinstance(t, ast.Name) and _is_tplus_expr(v, tuples, set()):
            out.add(t.id)
    return out


def _is_tplus_expr(e, tuples, names) -> bool:
    if isinstance(e, ast.Name):
        return e.id in names
    if isinstance(e, ast.Subscript) and isinstance(e.slice, ast.Constant) and e.slice.value == 2:
        return _is_match_call(e.value) or (isinstance(e.value, ast.Name) and e.value.id in tuples)
    return False


def r03_11(chk: Check):
    """The hybrid limit v+ <= cs^2(T+)/vw: findMatching may estimate it with cs^2(Tn) first, but the bracket end is (re-)evaluated with the
    sound speed at the temperature in front of the wall of the matching under test -- otherwise an exact matching just below vJ is not found
    and the template approximation, which misses Tn, is returned."""
    S = chk.src
    fi = S.func(f"{HY}.findMatching")
    chk.touch(fi.name)
    aliases = {st.targets[0].id for st in ast.walk(fi.node) if isinstance(st, ast.Assign) and len(st.targets) == 1 and isinstance(st.targets[0], ast.Name)
               and isinstance(st.value, ast.Attribute) and st.value.attr == "csqHighT"}
    calls = [c for c in ast.walk(fi.node) if isinstance(c, ast.Call) and c.args
             and ((isinstance(c.func, ast.Attribute) and c.func.attr == "csqHighT") or (isinstance(c.func, ast.Name) and c.func.id in aliases))]
    if not calls:
        raise AnchorMissing("findMatching: no evaluation of csqHighT was found (the hybrid limit of v+)")
    tuples = {st.targets[0].id for st in ast.walk(fi.node) if isinstance(st, ast.Assign) and len(st.targets) == 1 and isinstance(st.targets[0], ast.Name)
              and _is_match_call(st.value)}
    names = _tplus_names(fi.node)
    at_tp = [c for c in calls if _is_tplus_expr(c.args[0], tuples, names)]
    chk.ob("R03.11", fi.where(), "findMatching: the hybrid limit of the v+ bracket, v+ = cs^2(T+)/vw, is evaluated with the high-T sound speed at the T+ of a matching "
           f"(element 2 of matchDeflagOrHyb), not only at Tn ({len(calls)} csqHighT evaluations)", bool(at_tp),
           "; ".join(f"line {c.lineno}: csqHighT({n(c.args[0])})" for c in calls)[:300], key="vpmax-at-Tplus")
    chk.floor("R03.11", 1)


def rules(chk: Check) -> None:
    r1 = chk.stage(r03_1, chk)
    for grp in (r03_2, r03_3, r03_45):
        chk.stage(grp, chk)
    if r1 is not None:
        chk.stage(r03_6, chk, r1[0], r1[1])
    # R03.7: the bracket of v+ and the shock integration evaluate the sound speed / enthalpy of the phase in FRONT of the wall at T+
    # (side typing shared with C02 R02.4, restricted to the functions on the path that enforces the Tn boundary condition)
    from . import c02
    chk.stage(c02.r02_4, Remap(chk, {"R02.4": "R03.7"}, only=lambda r, k, w: k in ("sides|Hydrodynamics.findMatching", "sides|Hydrodynamics.solveHydroShock",
                                                                          "sides|Hydrodynamics.strongestShock", "sides|Hydrodynamics.efficiencyFactor",
                                                                          "sides|Hydrodynamics.findvwLTE", "sides|Hydrodynamics.minVelocity")))
    chk.floor("R03.7", 2)
    # R03.8: a v+ / T root search that is entered after a sign-change test brackets between the tested points;  R03.9: which side of the Jouguet
    # velocity a wall is on is decided with the model's own vJ everywhere (the shock wave of a hybrid is not dropped from kappa)
    from .shared import guarded_brackets, own_jouguet_velocity
    chk.stage(guarded_brackets, chk, "R03.8", ["hydrodynamics:Hydrodynamics.findMatching", "hydrodynamics:Hydrodynamics.findvwLTE", "hydrodynamics:Hydrodynamics.matchDeton", "hydrodynamics:Hydrodynamics.solveHydroShock", "hydrodynamics:Hydrodynamics.strongestShock", "hydrodynamics:Hydrodynamics.findJouguetVelocity"], floor=2)
    chk.stage(own_jouguet_velocity, chk, "R03.9")
    from .shared import per_object_state
    chk.stage(per_object_state, chk, "R03.9", ("Hydrodynamics", "HydrodynamicsTemplateModel", "Thermodynamics", "FreeEnergy", "InterpolatableFunction"))
    # R03.10: the refined end of the v+ bracket (and every other root-finder result held in a local) is read afterwards -- a result written to a
    # name nobody reads leaves the search on the stale bracket and falls back to the template silently; tiny offsets of bracket ends point inward
    from .shared import solver_results_consumed, bracket_offsets_inward
    chk.stage(solver_results_consumed, chk, "R03.10", ("hydrodynamics", "hydrodynamicsTemplateModel"), 10)
    chk.stage(bracket_offsets_inward, chk, "R03.10", ("hydrodynamics", "hydrodynamicsTemplateModel"), 1)
    chk.stage(r03_11, chk)
