"""C03 -- matched flow reaches the nucleation temperature ahead of the wall.

R03.1 shockDE satisfies the two relativistic fluid equations written in the similarity variable xi
R03.2 shock-front condition mu(xi,v)*xi = cs^2(T) is the same term at all three sites and terminates the integration
R03.3 TiiShock is energy-flux continuity across the front with the plasma at rest ahead
R03.4 initial data: integration starts at v = mu(vw, v+) from (vw, T+); kappa integrates the same ODE from the same data
R03.5 kappa integrand xi^2 v^2 gamma^2 w, prefactor 4/(vw^3 w_n alpha_n), rarefaction with opposite sign and low-T enthalpy
R03.6 the template model's fluid ODE agrees term-wise with shockDE

Locals and nested helper functions are identified by their role (the function handed to solve_ivp as `events`, the function whose root
is searched, the local holding a solve_ivp result, the summand of the returned efficiency factor that integrates over a given
solution ...), never by their spelling; everything arithmetic is compared at term level.
"""
from __future__ import annotations

import ast

import sympy as sp

from ..core import Remap, AnchorMissing, Check, Undecided, calls_in, dotted, kwarg, own_nodes, src
from ..flow import CFG
from ..hydro import HY, TM, fn, hydro_extractor, n, th
from ..nf import with_closure_temporaries, Ctx, eqx, has, match
from ..terms import Extractor, ITE, is_zero
from .c06 import written_out

LEVEL = "other"
SIMPSON = sp.Function("simpson")
COMP = sp.Function("COMP")


# ------------------------------------------------------------------------------------------------ roles


def _params(fi) -> list:
    return [a.arg for a in fi.node.args.args if a.arg not in ("self", "cls")]


def _definition(cx: Ctx, e):
    """the expression a chain of single-assignment temporaries stands for (node identity is kept)"""
    defs = cx.local_defs()
    for _ in range(8):
        if isinstance(e, ast.Name) and e.id in defs:
            e = defs[e.id]
        else:
            break
    return e


def _assigned_name(fnode, call) -> str | None:
    """the local a call's result is stored in"""
    for st in own_nodes(fnode):
        if isinstance(st, (ast.Assign, ast.AnnAssign)) and st.value is call:
            t = st.targets[0] if isinstance(st, ast.Assign) else st.target
            if isinstance(t, ast.Name):
                return t.id
    return None


def _nested_by_role(S, outer: str, fo, calls, kw: str, pos: int, what: str):
    """the nested function of `outer` that every one of `calls` receives as argument kw/pos"""
    cx = Ctx(S, fo)
    names = set()
    for c in calls:
        a = kwarg(c, kw, pos)
        a = _definition(cx, a) if a is not None else None
        names.add(a.id if isinstance(a, ast.Name) else None)
    if len(names) != 1 or None in names or not S.has_func(f"{outer}.{next(iter(names))}"):
        raise AnchorMissing(f"{outer.split(':')[-1]}: the nested function used as {what} not found")
    return S.func(f"{outer}.{next(iter(names))}")


def _event_function(S, outer: str):
    """(nested front-condition function, the solve_ivp calls it terminates).  The function is the one handed to solve_ivp as `events`;
    when no integration uses an event (a violation reported by the caller) it is the nested function whose `.terminal` attribute is set."""
    fo = S.func(outer)
    ivp = [c for c in calls_in(fo.node, "solve_ivp") if kwarg(c, "events", 6) is not None]
    if ivp:
        return _nested_by_role(S, outer, fo, ivp, "events", 6, "`events` of solve_ivp"), ivp
    marked = {st.targets[0].value.id for st in own_nodes(fo.node) if isinstance(st, ast.Assign) and isinstance(st.targets[0], ast.Attribute)
              and st.targets[0].attr == "terminal" and isinstance(st.targets[0].value, ast.Name) and S.has_func(f"{outer}.{st.targets[0].value.id}")}
    if len(marked) != 1:
        raise AnchorMissing(f"{outer.split(':')[-1]}: no solve_ivp call with an `events` function and no nested function marked `.terminal`")
    return S.func(f"{outer}.{next(iter(marked))}"), ivp


def _state_symbols(ex: Extractor, fi):
    """(v, xi, second state component) symbols of an ODE right-hand side / event function f(v, state, ...)"""
    p = _params(fi)
    if len(p) < 2:
        raise AnchorMissing(f"{fi.qual}: expected parameters (v, state, ...)")
    return ex.sym(p[0]), ex.sym(f"{p[1]}[0]"), ex.sym(f"{p[1]}[1]")


def _value_at(g: CFG, cx: Ctx, at, e):
    """defining expression of a local used at CFG node `at`: through single-assignment temporaries, else the unique reaching definition"""
    for _ in range(6):
        if not isinstance(e, ast.Name):
            break
        d = cx.local_defs().get(e.id)
        if d is None:
            rd = [x for x in g.reaching_defs(at, e.id)]
            if len(rd) == 1 and rd[0] is not CFG.ENTRY and isinstance(rd[0], (ast.Assign, ast.AnnAssign)) and rd[0].value is not None \
                    and isinstance(rd[0].targets[0] if isinstance(rd[0], ast.Assign) else rd[0].target, ast.Name):
                at, d = rd[0], rd[0].value
        if d is None:
            break
        e = d
    return e


def _first(e):
    return e.elts[0] if isinstance(e, (ast.List, ast.Tuple)) and e.elts else None


def _two_wave_path(paths, what: str):
    """the path on which both the shock-wave and the rarefaction-wave contribution are computed (two Simpson integrals in the result)"""
    full = [p for p in paths if isinstance(p.value, sp.Basic) and len([a for a in p.value.atoms(sp.Function) if a.func == SIMPSON]) == 2]
    if len(full) != 1:
        raise Undecided(f"{what}: expected one path with both wave contributions, found {len(full)}")
    return full[0]


def _contribution(value, sol: str):
    """(summand of the efficiency factor integrating over solution `sol`, its Simpson call, x, y)"""
    for term in sp.Add.make_args(value):
        calls = [a for a in term.atoms(sp.Function) if a.func == SIMPSON]
        if len(calls) == 1 and len(calls[0].args) == 2:
            xs = [a for a in calls[0].args if isinstance(a, sp.Symbol)]
            if len(xs) == 1 and xs[0].name.startswith(f"{sol}.y"):
                return term, calls[0], xs[0], [a for a in calls[0].args if a is not xs[0]][0]
    return None, None, None, None


# ------------------------------------------------------------------------------------------------ rules


def _shockde(chk: Check):
    S = chk.src
    ex = hydro_extractor(S, positive={"T"})
    fi = S.func(f"{HY}.shockDE")
    chk.touch(fi.name)
    p = _params(fi)
    if len(p) != 3:
        raise AnchorMissing("shockDE: expected parameters (v, xiAndT, shockWave)")
    out = {}
    for shock in (True, False):
        ps = [q for q in ex.paths(fi, {p[2]: shock}) if q.raised is None]
        if len(ps) != 1:
            raise Undecided(f"shockDE(shockWave={shock}): expected one regular path, found {len(ps)}")
        v = ps[0].value
        if not (isinstance(v, (list, tuple)) and len(v) == 2):
            raise Undecided("shockDE does not return [dxi/dv, dT/dv]")
        out[shock] = (v[0], v[1], ps[0].env)
    ex.shockde_symbols = _state_symbols(ex, fi)
    return ex, fi, out


def r03_1(chk: Check):
    ex, fi, out = _shockde(chk)
    v, xi, T = ex.shockde_symbols
    for shock, (dxidv, dTdv, env) in out.items():
        cs = th("csqHighT" if shock else "csqLowT")(T)
        chk.ob("R03.1", fi.where(), f"shockDE(shockWave={shock}) uses the sound speed of the {'high' if shock else 'low'}-T phase at the local temperature",
               dxidv.has(cs) and not dxidv.has(th("csqLowT" if shock else "csqHighT")), str(dxidv)[:120], key=f"cs-phase|{shock}")
        # fluid equations in the similarity variable (Espinosa et al. 2010, eqs. 2.27-2.28), p = p(T), dp = (w/T) dT, de = dp/cs^2
        w = sp.Symbol("w", positive=True)
        g2 = 1 / (1 - v**2)
        dv = 1 / dxidv                    # d v / d xi
        dT = dTdv / dxidv                 # d T / d xi
        dp = (w / T) * dT
        de = dp / cs
        E1 = (xi - v) / w * de - 2 * v / xi - (1 - g2 * v * (xi - v)) * dv
        E2 = (1 - v * xi) / w * dp - g2 * (xi - v) * dv
        ok1, how1 = is_zero(E1, chk.seed)
        ok2, how2 = is_zero(E2, chk.seed)
        chk.ob("R03.1", fi.where(), f"shockDE(shockWave={shock}): (xi-v)/w de/dxi = 2v/xi + [1 - gamma^2 v (xi - v)] dv/dxi  (energy equation in xi)",
               ok1, how1, key=f"energy-eq|{shock}", how=how1)
        chk.ob("R03.1", fi.where(), f"shockDE(shockWave={shock}): (1 - v xi)/w dp/dxi = gamma^2 (xi - v) dv/dxi  (momentum equation in xi)",
               ok2, how2, key=f"momentum-eq|{shock}", how=how2)
    # helpers
    S = chk.src
    exh = Extractor(S)
    fg, fb = S.func("helpers:gammaSq"), S.func("helpers:boostVelocity")
    g = exh.single(fg)
    b = exh.single(fb)
    chk.touch("helpers:gammaSq", "helpers:boostVelocity")
    (gv,), (bx, bv) = (exh.sym(p) for p in _params(fg)[:1]), (exh.sym(p) for p in _params(fb)[:2])
    ok1, h1 = is_zero(g - 1 / (1 - gv ** 2), chk.seed)
    ok2, h2 = is_zero(b - (bx - bv) / (1 - bx * bv), chk.seed)
    chk.ob("R03.1", fg.where(), "gammaSq(v) == 1/(1 - v^2)", ok1, h1, key="gammaSq", how=h1)
    chk.ob("R03.1", fb.where(), "boostVelocity(xi, v) == (xi - v)/(1 - xi v)", ok2, h2, key="boostVelocity", how=h2)
    # negative temperature is an error, not silently continued: every raising path is taken exactly when T <= 0
    raising = [q for q in ex.paths(fi) if q.raised is not None]
    nonpos = {("LE", T, 0, True), ("GE", 0, T, True), ("GT", T, 0, False), ("LT", 0, T, False)}
    okr = bool(raising) and all(any(isinstance(gd.term, sp.Basic) and len(gd.term.args) == 2 and (gd.term.func.__name__, gd.term.args[0], gd.term.args[1], gd.polarity) in nonpos
                                    for gd in q.guards) for q in raising)
    chk.ob("R03.1", fi.where(), "shockDE raises when the temperature becomes non-positive", okr, key="T-positive")
    chk.floor("R03.1", 9)
    return ex, out


def r03_2(chk: Check):
    S = chk.src
    ex = hydro_extractor(S)
    for outer in (f"{HY}.solveHydroShock", f"{HY}.efficiencyFactor"):
        fi, ivp = _event_function(S, outer)
        chk.touch(fi.name)
        short = outer.split('.')[-1]
        v, xi, T = _state_symbols(ex, fi)
        want = (xi - v) / (1 - xi * v) * xi - th("csqHighT")(T)
        val = ex.single(fi)
        ok, how = is_zero(val - want, chk.seed)
        chk.ob("R03.2", fi.where(), f"{short}: front condition is mu(xi, v) xi - csqHighT(T)", ok, f"{val}; {how}", key=f"front|{short}", how=how)
        fo = S.func(outer)
        co = Ctx(S, fo)
        name = fi.node.name
        term = [st for st in own_nodes(fo.node) if isinstance(st, ast.Assign) and eqx(st.targets[0], f"{name}.terminal")]
        chk.ob("R03.2", fo.where(), f"{short}: the front event is terminal", len(term) == 1 and eqx(term[0].value, "True", co), key=f"terminal|{short}")
        # (the event function is by construction the one every solve_ivp call with `events` receives; a second, different one is an AnchorMissing)
        shock_ivp = [c for c in calls_in(fo.node, "solve_ivp") if kwarg(c, "args", 8) is None]
        ok = bool(ivp) and all(kwarg(c, "events", 6) is not None for c in shock_ivp)
        chk.ob("R03.2", fo.where(), f"{short}: the shock integration is stopped by that event", ok, key=f"events|{short}")
    # template
    fo = S.func(f"{TM}.integratePlasma")
    ft, ivp = _event_function(S, f"{TM}.integratePlasma")
    chk.touch(ft.name)
    ext = hydro_extractor(S)
    val = ext.single(ft)
    vt, xit, _ = _state_symbols(ext, ft)
    wantt = (xit * (xit - vt) / (1 - xit * vt) - ext.sym("self.cs2"))
    ok, how = is_zero(sp.cancel(val / vt) - wantt, chk.seed)
    chk.ob("R03.2", ft.where(), "template: front event is v * (mu(xi, v) xi - cs^2): same zero set for v != 0", ok, f"{val}; {how}", key="front|template", how=how)
    co = Ctx(S, fo)
    term = [st for st in own_nodes(fo.node) if isinstance(st, ast.Assign) and eqx(st.targets[0], f"{ft.node.name}.terminal")]
    flag = _params(fo)[3] if len(_params(fo)) > 3 else "?"
    chk.ob("R03.2", fo.where(), "template: the event is terminal exactly when integrating the shock wave", len(term) == 1 and eqx(term[0].value, flag, co),
           key="terminal|template")
    chk.floor("R03.2", 8)


def r03_3(chk: Check):
    S = chk.src
    ex = hydro_extractor(S)
    fo = S.func(f"{HY}.solveHydroShock")
    g = CFG(fo.node)
    cx = Ctx(S, fo)
    roots = [c for c in calls_in(fo.node, "root_scalar")]
    if not roots:
        raise AnchorMissing("solveHydroShock: the root_scalar search for the nucleation temperature not found")
    fi = _nested_by_role(S, f"{HY}.solveHydroShock", fo, roots, "f", 0, "function whose root is searched")
    chk.touch(fi.name)
    # the state behind the front: end point of the integrated solution
    ivp = calls_in(fo.node, "solve_ivp")
    SOL = _assigned_name(fo.node, ivp[0]) if len(ivp) == 1 else None
    VM = XI = TM_ = None
    if SOL is not None:
        # component-wise definitions: `a, b = e1, e2` defines a by e1; `a, b = E` defines a by E[0]; copies of a name are followed
        comp = []
        for st in own_nodes(fo.node):
            if not isinstance(st, ast.Assign) or len(st.targets) != 1:
                continue
            t, v = st.targets[0], st.value
            if isinstance(t, ast.Name):
                comp.append((t.id, v, None))
            elif isinstance(t, (ast.Tuple, ast.List)) and all(isinstance(e_, ast.Name) for e_ in t.elts):
                if isinstance(v, (ast.Tuple, ast.List)) and len(v.elts) == len(t.elts):
                    comp += [(e_.id, vv, None) for e_, vv in zip(t.elts, v.elts)]
                else:
                    comp += [(e_.id, v, k_) for k_, e_ in enumerate(t.elts)]
        role = {}          # name -> 'v' | 'xi' | 'T'
        for nm, v, k_ in comp:
            if k_ is None and eqx(v, f"{SOL}.t[-1]", cx):
                role[nm] = "v"
            elif k_ is not None and eqx(v, f"{SOL}.y[:, -1]", cx):
                role[nm] = ("xi", "T")[k_] if k_ < 2 else None
            elif k_ is None and eqx(v, f"{SOL}.y[0, -1]", cx):
                role[nm] = "xi"
            elif k_ is None and eqx(v, f"{SOL}.y[1, -1]", cx):
                role[nm] = "T"
        changed = True
        while changed:
            changed = False
            for nm, v, k_ in comp:
                if k_ is None and isinstance(v, ast.Name) and v.id in role and nm not in role:
                    role[nm] = role[v.id]
                    changed = True
        used = {x.id for x in ast.walk(with_closure_temporaries(S, fi).node) if isinstance(x, ast.Name)}
        pick = {r_: [nm for nm, rr in role.items() if rr == r_ and nm in used] for r_ in ("v", "xi", "T")}
        if all(len(v_) == 1 for v_ in pick.values()):
            VM, XI, TM_ = pick["v"][0], pick["xi"][0], pick["T"][0]
    front_ok = None not in (VM, XI, TM_) and len({VM, XI, TM_}) == 3
    val = ex.single(with_closure_temporaries(S, fi))
    prm = _params(fi)
    tn, xs, vs, Ts = ex.sym(prm[0] if prm else "?"), ex.sym(XI or "?xi"), ex.sym(VM or "?v"), ex.sym(TM_ or "?T")
    mu = (xs - vs) / (1 - xs * vs)
    want = th("wHighT")(tn) * xs / (1 - xs**2) - th("wHighT")(Ts) * mu / (1 - mu**2)
    ok, how = is_zero(val - want, chk.seed)
    chk.ob("R03.3", fi.where(), "TiiShock(tn) == w+(tn) gamma^2(xi_s) xi_s - w+(T_s) gamma^2(mu_s) mu_s, mu_s = mu(xi_s, v_s): "
           "energy flux is continuous across the front, plasma at rest ahead", ok, how, key="Tii", how=how)
    chk.ob("R03.3", fo.where(), "the nucleation temperature is the root of TiiShock (both bracketed and secant branch)", len(roots) == 2,
           key="Tn-root")
    # every returned value is the root of one of these searches, and the branch on which the search did not converge never returns
    RES = {_assigned_name(fo.node, c) for c in roots}
    rets = [r for r in g.nodes if isinstance(r, ast.Return)]
    okc = len(RES) == 1 and None not in RES and bool(rets)
    if okc:
        R = next(iter(RES))
        okc = all(has(r.value, f"{R}.root", cx) for r in rets)
        tests = []
        for t in g.nodes:
            if g.kind.get(t) == "test":
                e, pol = cx.resolve(t), True
                while isinstance(e, ast.UnaryOp) and isinstance(e.op, ast.Not):
                    e, pol = e.operand, not pol
                if eqx(e, f"{R}.converged"):
                    tests.append((t, pol))
        okc = okc and len(tests) == 1 and all(g.must_pass(CFG.ENTRY, r, lambda q: q is tests[0][0]) for r in rets) \
            and not g.reaches(g.branch(tests[0][0], not tests[0][1]), CFG.EXIT)
    chk.ob("R03.3", fo.where(), "a non-converged root raises instead of being returned", okc, key="Tn-converged")
    chk.ob("R03.3", fo.where(), "the state behind the front is the end point of the integrated solution", front_ok, key="front-state")
    chk.floor("R03.3", 4)


def r03_45(chk: Check):
    S = chk.src
    ex = hydro_extractor(S)
    # --- solveHydroShock initial data
    fo = S.func(f"{HY}.solveHydroShock")
    chk.touch(fo.name)
    go = CFG(fo.node)
    co = Ctx(S, fo)
    env = {"__module__": "hydrodynamics", "__class__": "Hydrodynamics"}
    prm = _params(fo)
    if len(prm) != 3:
        raise AnchorMissing("solveHydroShock: expected parameters (vw, vp, Tp)")
    vw, vp, Tp = (ex.sym(p) for p in prm)
    ivp = calls_in(fo.node, "solve_ivp")
    if len(ivp) != 1:
        raise AnchorMissing("solveHydroShock: the solve_ivp integration of the shock not found")
    at = go.node_of(ivp[0])
    span, y0 = kwarg(ivp[0], "t_span", 1), kwarg(ivp[0], "y0", 2)
    start = _first(_value_at(go, co, at, span)) if span is not None else None
    vpc = ex.expr(co.resolve(start), dict(env)) if start is not None else None
    ok, how = (None, "start of the integration range not found") if vpc is None else is_zero(vpc - (vw - vp) / (1 - vw * vp), chk.seed)
    chk.ob("R03.4", fo.where(), "solveHydroShock: integration starts at the fluid velocity mu(vw, v+) (wall frame -> plasma frame)", ok, how,
           key="start-velocity|solveHydroShock", how=how)
    x0 = ex.expr(co.resolve(_value_at(go, co, at, y0)), dict(env)) if y0 is not None else None
    chk.ob("R03.4", fo.where(), "solveHydroShock: initial data are (xi, T) = (vw, T+)", isinstance(x0, (list, tuple)) and list(x0) == [vw, Tp], str(x0), key="start-data|solveHydroShock")
    ok = eqx(kwarg(ivp[0], "fun", 0), "self.shockDE", co) and start is not None and y0 is not None
    chk.ob("R03.4", fo.where(), "solveHydroShock integrates self.shockDE from v = mu(vw, v+) downwards with those data", ok, key="ivp|solveHydroShock")
    # --- efficiencyFactor
    # (both efficiency factors are read in their written-out form: a loop over the two waves is written out case by case, result slots and
    # re-used locals become one local per wave)
    fe = written_out(S, S.func(f"{HY}.efficiencyFactor"))
    chk.touch(fe.name)
    ge = CFG(fe.node)
    ce = Ctx(S, fe)
    paths = [p for p in ex.paths(fe) if p.raised is None]
    full = _two_wave_path(paths, "efficiencyFactor")
    envf = full.env
    pe = _params(fe)
    vw = ex.sym(pe[0])
    fm = fn("findMatching")(vw)
    mvp, mvm, mTp, mTm = (fn("getitem")(fm, i) for i in range(4))
    ivps = calls_in(fe.node, "solve_ivp")
    chk.ob("R03.4", fe.where(), "efficiencyFactor integrates the same self.shockDE for the shock and for the rarefaction wave",
           len(ivps) == 2 and all(eqx(kwarg(c, "fun", 0), "self.shockDE", ce) for c in ivps), key="same-ode")
    rare = [c for c in ivps if kwarg(c, "args", 8) is not None]
    shockw = [c for c in ivps if kwarg(c, "args", 8) is None]
    ok = len(rare) == 1 and eqx(kwarg(rare[0], "args", 8), "(False,)", ce) and kwarg(rare[0], "events", 6) is None
    chk.ob("R03.4", fe.where(), "the rarefaction wave is integrated with shockWave=False (low-T sound speed) and no front event", ok, key="rarefaction-args")
    if len(rare) != 1 or len(shockw) != 1:
        raise AnchorMissing("efficiencyFactor: the shock-wave and the rarefaction-wave integration not found")
    starts, data = {}, {}
    for which, c in (("shock", shockw[0]), ("rare", rare[0])):
        at = ge.node_of(c)
        span, y0 = kwarg(c, "t_span", 1), kwarg(c, "y0", 2)
        s0 = _first(_value_at(ge, ce, at, span)) if span is not None else None
        starts[which] = ex.expr(_value_at(ge, ce, at, s0), envf) if s0 is not None else None
        d0 = _value_at(ge, ce, at, y0) if y0 is not None else None
        data[which] = ex.expr(d0, envf) if d0 is not None else None
    ok1, h1 = is_zero(starts["shock"] - (vw - mvp) / (1 - vw * mvp), chk.seed) if isinstance(starts["shock"], sp.Basic) else (False, "start not found")
    ok2, h2 = is_zero(starts["rare"] - (vw - mvm) / (1 - vw * mvm), chk.seed) if isinstance(starts["rare"], sp.Basic) else (False, "start not found")
    chk.ob("R03.4", fe.where(), "efficiencyFactor: shock starts at mu(vw, v+), rarefaction at mu(vw, v-), with (v+, v-, T+, T-) = findMatching(vw)",
           ok1 and ok2, f"{h1}; {h2}", key="start-velocity|efficiencyFactor", how=h1)
    ok = isinstance(data["shock"], (list, tuple)) and list(data["shock"]) == [vw, mTp] and isinstance(data["rare"], (list, tuple)) and list(data["rare"]) == [vw, mTm]
    chk.ob("R03.4", fe.where(), "efficiencyFactor: shock data (vw, T+), rarefaction data (vw, T-)", ok, f"{data}"[:200], key="start-data|efficiencyFactor")
    # --- kappa
    wn = th("wHighT")(ex.sym("self.Tnucl"))
    aln = ex.sym("self.template.alN")
    found = []
    for nm, call, wf, sign in (("shock wave", shockw[0], "wHighT", 1), ("rarefaction wave", rare[0], "wLowT", -1)):
        sol = _assigned_name(fe.node, call)
        ok = None
        val, c, x_, y_ = _contribution(full.value, sol) if sol else (None, None, None, None)
        detail = str(val)[:200]
        if val is not None:
            found.append(val)
            pref = sp.simplify(val / c)
            ok1, h1 = is_zero(pref - sign * 4 / (vw**3 * wn * aln), chk.seed)
            vpl = ex.sym(f"{sol}.t")
            # the enthalpy profile: the phase's enthalpy evaluated point by point (a comprehension over a bound variable)
            comps = [a for a in y_.atoms(sp.Function) if a.func == COMP]
            ok2, h2 = False, "enthalpy profile not found"
            if len(comps) == 1 and comps[0].args[0].func == th(wf) and len(comps[0].args[0].args) == 1 and isinstance(comps[0].args[0].args[0], sp.Symbol) \
                    and comps[0].args[0].args[0] not in (vw, x_, vpl):
                W = sp.Symbol("enthalpyProfile__", positive=True)
                ok2, h2 = is_zero(y_.subs(comps[0], W) - x_**2 * vpl**2 / (1 - vpl**2) * W, chk.seed)
            okx = x_.name == f"{sol}.y[0]"
            ok = bool(ok1 and ok2 and okx)
            detail = f"prefactor: {h1}; integrand: {h2}; x = {x_}"
        chk.ob("R03.5", fe.where(), f"kappa ({nm}) == {'+' if sign > 0 else '-'}4/(vw^3 w_n alpha_n) * Simpson[xi^2 v^2 gamma^2(v) {wf}(T)] d xi over that wave's solution",
               ok, detail, key=f"kappa|{nm}")
    chk.ob("R03.5", fe.where(), "kappa is the sum of the two contributions", len(found) == 2 and sp.simplify(full.value - found[0] - found[1]) == 0, str(full.value)[:100],
           key="kappa-sum")
    # template sibling
    ft = written_out(S, S.func(f"{TM}.efficiencyFactor"))
    chk.touch(ft.name)
    ct = Ctx(S, ft)
    ext = hydro_extractor(S)
    pt = _two_wave_path([p for p in ext.paths(ft) if p.raised is None], "template efficiencyFactor")
    pv = _params(ft)
    tvw = ext.sym(pv[0])
    ips = calls_in(ft.node, "integratePlasma")
    tshock = [c for c in ips if kwarg(c, "shockWave", 3) is None or eqx(kwarg(c, "shockWave", 3), "True", ct)]
    trare = [c for c in ips if kwarg(c, "shockWave", 3) is not None and eqx(kwarg(c, "shockWave", 3), "False", ct)]
    if len(tshock) != 1 or len(trare) != 1:
        raise AnchorMissing("template efficiencyFactor: the two integratePlasma calls not found")
    for nm, call, sign in (("shock wave", tshock[0], 1), ("rarefaction wave", trare[0], -1)):
        sol = _assigned_name(ft.node, call)
        ok = None
        val, c, x_, y_ = _contribution(pt.value, sol) if sol else (None, None, None, None)
        detail = str(val)[:200]
        if val is not None:
            ok1, h1 = is_zero(sp.simplify(val / c) - sign * 4 / (tvw ** 3 * ext.sym("self.alN")), chk.seed)
            vpl = ext.sym(f"{sol}.t")
            ok2, h2 = is_zero(y_ - x_**2 * vpl**2 / (1 - vpl**2) * ext.sym(f"{sol}.y[1]"), chk.seed)
            ok = bool(ok1 and ok2 and x_.name == f"{sol}.y[0]")
            detail = f"{h1}; {h2}; x={x_}"
        chk.ob("R03.5", ft.where(), f"template kappa ({nm}) has the same integrand and prefactor with w_n = 1 (enthalpy in units of w_n)", ok, detail,
               key=f"template-kappa|{nm}")
    chk.floor("R03.4", 7)
    chk.floor("R03.5", 5)


def r03_6(chk: Check, ex, out):
    S = chk.src
    ft = S.func(f"{TM}._dxiAndWdv")
    chk.touch(ft.name)
    ext = hydro_extractor(S)
    v, xi, T = ex.shockde_symbols
    pt = _params(ft)
    if len(pt) != 3:
        raise AnchorMissing("_dxiAndWdv: expected parameters (v, xiAndW, shockWave)")
    vt, xt, wt = _state_symbols(ext, ft)
    for shock in (True, False):
        ps = [p for p in ext.paths(ft, {pt[2]: shock}) if p.raised is None]
        # the regular branch (v != 0): the one whose d xi/dv is not the constant stand-in
        reg = [p for p in ps if isinstance(p.value, (list, tuple)) and len(p.value) == 2 and isinstance(p.value[0], sp.Basic) and p.value[0].free_symbols]
        if len(reg) != 1:
            raise Undecided("_dxiAndWdv: regular branch not found")
        val = reg[0].value
        dx, dw = val
        csT = ext.sym("self.cs2" if shock else "self.cb2")
        code_dx = out[shock][0].subs({xi: xt, v: vt}).replace(th("csqHighT" if shock else "csqLowT"), lambda a: csT)
        ok, how = is_zero(dx - code_dx, chk.seed)
        chk.ob("R03.6", ft.where(), f"template d xi/dv (shockWave={shock}) equals shockDE's with constant sound speed", ok, how,
               key=f"template-dxi|{shock}", how=how)
        mu = (xt - vt) / (1 - xt * vt)
        ok, how = is_zero(dw - wt * (1 + 1 / csT) * mu / (1 - vt**2), chk.seed)
        chk.ob("R03.6", ft.where(), f"template dw/dv (shockWave={shock}) == w (1 + 1/cs^2) gamma^2 mu  (= (dw/dT) dT/dv for w ~ T^(1+1/cs^2))", ok, how,
               key=f"template-dw|{shock}", how=how)
    chk.floor("R03.6", 4)


def rules(chk: Check) -> None:
    r1 = chk.stage(r03_1, chk)
    for grp in (r03_2, r03_3, r03_45):
        chk.stage(grp, chk)
    if r1 is not None:
        chk.stage(r03_6, chk, r1[0], r1[1])
    # R03.7: the bracket of v+ and the shock integration evaluate the sound speed / enthalpy of the phase in FRONT of the wall at T+
    # (side typing shared with C02 R02.4, restricted to the functions on the path that enforces the Tn boundary condition)
    from . import c02
    chk.stage(c02.r02_4, Remap(chk, {"R02.4": "R03.7"}, only=lambda r, k, w: k in ("sides|Hydrodynamics.findMatching", "sides|Hydrodynamics.solveHydroShock",
                                                                          "sides|Hydrodynamics.strongestShock", "sides|Hydrodynamics.efficiencyFactor",
                                                                          "sides|Hydrodynamics.findvwLTE", "sides|Hydrodynamics.minVelocity")))
    chk.floor("R03.7", 2)
    # R03.8: a v+ / T root search that is entered after a sign-change test brackets between the tested points;  R03.9: which side of the Jouguet
    # velocity a wall is on is decided with the model's own vJ everywhere (the shock wave of a hybrid is not dropped from kappa)
    from .shared import guarded_brackets, own_jouguet_velocity
    chk.stage(guarded_brackets, chk, "R03.8", ["hydrodynamics:Hydrodynamics.findMatching", "hydrodynamics:Hydrodynamics.findvwLTE", "hydrodynamics:Hydrodynamics.matchDeton", "hydrodynamics:Hydrodynamics.solveHydroShock", "hydrodynamics:Hydrodynamics.strongestShock", "hydrodynamics:Hydrodynamics.findJouguetVelocity"], floor=2)
    chk.stage(own_jouguet_velocity, chk, "R03.9")
    from .shared import per_object_state
    chk.stage(per_object_state, chk, "R03.9", ("Hydrodynamics", "HydrodynamicsTemplateModel", "Thermodynamics", "FreeEnergy", "InterpolatableFunction"))
