"""C03 -- matched flow reaches the nucleation temperature ahead of the wall.

R03.1 shockDE satisfies the two relativistic fluid equations written in the similarity variable xi
R03.2 shock-front condition mu(xi,v)*xi = cs^2(T) is the same term at all three sites and terminates the integration
R03.3 TiiShock is energy-flux continuity across the front with the plasma at rest ahead
R03.4 initial data: integration starts at v = mu(vw, v+) from (vw, T+); kappa integrates the same ODE from the same data
R03.5 kappa integrand xi^2 v^2 gamma^2 w, prefactor 4/(vw^3 w_n alpha_n), rarefaction with opposite sign and low-T enthalpy
R03.6 the template model's fluid ODE agrees term-wise with shockDE
"""
from __future__ import annotations

import ast

import sympy as sp

from ..core import AnchorMissing, Check, Undecided, calls_in, dotted, kwarg, own_nodes, src
from ..hydro import HY, TM, fn, hydro_extractor, n, th
from ..terms import Extractor, ITE, is_zero

LEVEL = "other"


def _shockde(chk: Check):
    S = chk.src
    ex = hydro_extractor(S, positive={"T"})
    fi = S.func(f"{HY}.shockDE")
    chk.touch(fi.name)
    out = {}
    for shock in (True, False):
        ps = [p for p in ex.paths(fi, {"shockWave": shock}) if p.raised is None]
        if len(ps) != 1:
            raise Undecided(f"shockDE(shockWave={shock}): expected one regular path, found {len(ps)}")
        v = ps[0].value
        if not (isinstance(v, (list, tuple)) and len(v) == 2):
            raise Undecided("shockDE does not return [dxi/dv, dT/dv]")
        out[shock] = (v[0], v[1], ps[0].env)
    return ex, fi, out


def r03_1(chk: Check):
    ex, fi, out = _shockde(chk)
    v = ex.sym("v")
    xi = ex.sym("xiAndT[0]")
    T = ex.sym("xiAndT[1]")
    for shock, (dxidv, dTdv, env) in out.items():
        cs = th("csqHighT" if shock else "csqLowT")(T)
        chk.ob("R03.1", fi.where(), f"shockDE(shockWave={shock}) uses the sound speed of the {'high' if shock else 'low'}-T phase at the local temperature",
               dxidv.has(cs) and not dxidv.has(th("csqLowT" if shock else "csqHighT")), str(dxidv)[:120], key=f"cs-phase|{shock}")
        # fluid equations in the similarity variable (Espinosa et al. 2010, eqs. 2.27-2.28), p = p(T), dp = (w/T) dT, de = dp/cs^2
        w = sp.Symbol("w", positive=True)
        g2 = 1 / (1 - v**2)
        dv = 1 / dxidv                    # d v / d xi
        dT = dTdv / dxidv                 # d T / d xi
        dp = (w / T) * dT
        de = dp / cs
        E1 = (xi - v) / w * de - 2 * v / xi - (1 - g2 * v * (xi - v)) * dv
        E2 = (1 - v * xi) / w * dp - g2 * (xi - v) * dv
        ok1, how1 = is_zero(E1, chk.seed)
        ok2, how2 = is_zero(E2, chk.seed)
        chk.ob("R03.1", fi.where(), f"shockDE(shockWave={shock}): (xi-v)/w de/dxi = 2v/xi + [1 - gamma^2 v (xi - v)] dv/dxi  (energy equation in xi)",
               ok1, how1, key=f"energy-eq|{shock}", how=how1)
        chk.ob("R03.1", fi.where(), f"shockDE(shockWave={shock}): (1 - v xi)/w dp/dxi = gamma^2 (xi - v) dv/dxi  (momentum equation in xi)",
               ok2, how2, key=f"momentum-eq|{shock}", how=how2)
    # helpers
    S = chk.src
    exh = Extractor(S)
    g = exh.single(S.func("helpers:gammaSq"))
    b = exh.single(S.func("helpers:boostVelocity"))
    chk.touch("helpers:gammaSq", "helpers:boostVelocity")
    ok1, h1 = is_zero(g - 1 / (1 - exh.sym("v") ** 2), chk.seed)
    ok2, h2 = is_zero(b - (exh.sym("xi") - exh.sym("v")) / (1 - exh.sym("xi") * exh.sym("v")), chk.seed)
    chk.ob("R03.1", S.func("helpers:gammaSq").where(), "gammaSq(v) == 1/(1 - v^2)", ok1, h1, key="gammaSq", how=h1)
    chk.ob("R03.1", S.func("helpers:boostVelocity").where(), "boostVelocity(xi, v) == (xi - v)/(1 - xi v)", ok2, h2, key="boostVelocity", how=h2)
    # negative temperature is an error, not silently continued
    raises = [x for x in own_nodes(fi.node) if isinstance(x, ast.Raise)]
    chk.ob("R03.1", fi.where(), "shockDE raises when the temperature becomes non-positive", len(raises) == 1, key="T-positive")
    chk.floor("R03.1", 9)
    return ex, out


def r03_2(chk: Check):
    S = chk.src
    ex = hydro_extractor(S)
    ref = None
    sites = [(f"{HY}.solveHydroShock", "shock"), (f"{HY}.efficiencyFactor", "shock")]
    xi, T, v = ex.sym("xiAndT[0]"), ex.sym("xiAndT[1]"), ex.sym("v")
    want = (xi - v) / (1 - xi * v) * xi - th("csqHighT")(T)
    for outer, name in sites:
        fi = S.func(f"{outer}.{name}")
        chk.touch(fi.name)
        val = ex.single(fi)
        ok, how = is_zero(val - want, chk.seed)
        chk.ob("R03.2", fi.where(), f"{outer.split('.')[-1]}: front condition is mu(xi, v) xi - csqHighT(T)", ok, f"{val}; {how}",
               key=f"front|{outer.split('.')[-1]}", how=how)
        fo = S.func(outer)
        term = [st for st in own_nodes(fo.node) if isinstance(st, ast.Assign) and n(st.targets[0]) == f"{name}.terminal"]
        chk.ob("R03.2", fo.where(), f"{outer.split('.')[-1]}: the front event is terminal", len(term) == 1 and n(term[0].value) == "True",
               key=f"terminal|{outer.split('.')[-1]}")
        ivp = [c for c in calls_in(fo.node, "solve_ivp") if kwarg(c, "events") is not None]
        ok = bool(ivp) and all(n(kwarg(c, "events")) == name for c in ivp)
        chk.ob("R03.2", fo.where(), f"{outer.split('.')[-1]}: the shock integration is stopped by that event", ok, key=f"events|{outer.split('.')[-1]}")
    # template
    ft = S.func(f"{TM}.integratePlasma.event")
    chk.touch(ft.name)
    ext = hydro_extractor(S)
    val = ext.single(ft)
    xit, vt = ext.sym("xiAndW[0]"), ext.sym("v")
    wantt = (xit * (xit - vt) / (1 - xit * vt) - ext.sym("self.cs2"))
    ok, how = is_zero(sp.cancel(val / vt) - wantt, chk.seed)
    chk.ob("R03.2", ft.where(), "template: front event is v * (mu(xi, v) xi - cs^2): same zero set for v != 0", ok, f"{val}; {how}", key="front|template", how=how)
    fo = S.func(f"{TM}.integratePlasma")
    term = [st for st in own_nodes(fo.node) if isinstance(st, ast.Assign) and n(st.targets[0]) == "event.terminal"]
    chk.ob("R03.2", fo.where(), "template: the event is terminal exactly when integrating the shock wave", len(term) == 1 and n(term[0].value) == "shockWave",
           key="terminal|template")
    chk.floor("R03.2", 8)


def r03_3(chk: Check):
    S = chk.src
    ex = hydro_extractor(S)
    fi = S.func(f"{HY}.solveHydroShock.TiiShock")
    chk.touch(fi.name)
    val = ex.single(fi)
    tn, xs, vs, Ts = ex.sym("tn"), ex.sym("xiShock"), ex.sym("vmShock"), ex.sym("TmShock")
    mu = (xs - vs) / (1 - xs * vs)
    want = th("wHighT")(tn) * xs / (1 - xs**2) - th("wHighT")(Ts) * mu / (1 - mu**2)
    ok, how = is_zero(val - want, chk.seed)
    chk.ob("R03.3", fi.where(), "TiiShock(tn) == w+(tn) gamma^2(xi_s) xi_s - w+(T_s) gamma^2(mu_s) mu_s, mu_s = mu(xi_s, v_s): "
           "energy flux is continuous across the front, plasma at rest ahead", ok, how, key="Tii", how=how)
    fo = S.func(f"{HY}.solveHydroShock")
    roots = [c for c in calls_in(fo.node, "root_scalar")]
    ok = bool(roots) and all(n(c.args[0]) == "TiiShock" for c in roots)
    chk.ob("R03.3", fo.where(), "the nucleation temperature is the root of TiiShock (both bracketed and secant branch)", ok and len(roots) == 2,
           key="Tn-root")
    rets = [r for r in own_nodes(fo.node) if isinstance(r, ast.Return)]
    conv = [x for x in own_nodes(fo.node) if isinstance(x, ast.If) and "converged" in n(x.test) and any(isinstance(b, ast.Raise) for b in x.body)]
    chk.ob("R03.3", fo.where(), "a non-converged root raises instead of being returned", len(conv) == 1 and len(rets) == 1 and "root" in n(rets[0].value),
           key="Tn-converged")
    # front state used by TiiShock: solution end point, or the wall itself when the front coincides with it
    assigns = {}
    for st in own_nodes(fo.node):
        if isinstance(st, ast.Assign):
            assigns.setdefault(n(st.targets[0]).strip("()"), []).append(n(st.value))
    ok = "solshock.t[-1]" in assigns.get("vmShock", []) and "solshock.y[:, -1]" in assigns.get("xiShock, TmShock", [])
    chk.ob("R03.3", fo.where(), "the state behind the front is the end point of the integrated solution", ok, key="front-state")
    chk.floor("R03.3", 4)


def r03_45(chk: Check):
    S = chk.src
    ex = hydro_extractor(S)
    # --- solveHydroShock initial data
    fo = S.func(f"{HY}.solveHydroShock")
    chk.touch(fo.name)
    env = {"__module__": "hydrodynamics", "__class__": "Hydrodynamics"}
    defs = {}
    for st in own_nodes(fo.node):
        if isinstance(st, ast.Assign) and isinstance(st.targets[0], ast.Name):
            defs.setdefault(st.targets[0].id, st.value)
    vw, vp, Tp = ex.sym("vw"), ex.sym("vp"), ex.sym("Tp")
    vpc = ex.expr(defs["vpcent"], env) if "vpcent" in defs else None
    ok, how = (None, "vpcent not found") if vpc is None else is_zero(vpc - (vw - vp) / (1 - vw * vp), chk.seed)
    chk.ob("R03.4", fo.where(), "solveHydroShock: integration starts at the fluid velocity mu(vw, v+) (wall frame -> plasma frame)", ok, how,
           key="start-velocity|solveHydroShock", how=how)
    x0 = ex.expr(defs["xi0T0"], env) if "xi0T0" in defs else None
    chk.ob("R03.4", fo.where(), "solveHydroShock: initial data are (xi, T) = (vw, T+)", x0 == [vw, Tp], str(x0), key="start-data|solveHydroShock")
    ivp = calls_in(fo.node, "solve_ivp")
    ok = len(ivp) == 1 and n(ivp[0].args[0]) == "self.shockDE" and n(ivp[0].args[2]) == "xi0T0" and \
        isinstance(ivp[0].args[1], ast.List) and n(ivp[0].args[1].elts[0]) == "vpcent"
    chk.ob("R03.4", fo.where(), "solveHydroShock integrates self.shockDE from v = mu(vw, v+) downwards with those data", ok, key="ivp|solveHydroShock")
    # --- efficiencyFactor
    fe = S.func(f"{HY}.efficiencyFactor")
    chk.touch(fe.name)
    paths = [p for p in ex.paths(fe) if p.raised is None]
    full = [p for p in paths if all(g.polarity for g in p.guards)]
    if len(full) != 1:
        raise Undecided(f"efficiencyFactor: expected one all-branches path, found {len(full)}")
    envf = full[0].env
    fm = fn("findMatching")(vw)
    mvp, mvm, mTp, mTm = (fn("getitem")(fm, i) for i in range(4))
    ivps = calls_in(fe.node, "solve_ivp")
    chk.ob("R03.4", fe.where(), "efficiencyFactor integrates the same self.shockDE for the shock and for the rarefaction wave",
           len(ivps) == 2 and all(n(c.args[0]) == "self.shockDE" for c in ivps), key="same-ode")
    rare = [c for c in ivps if kwarg(c, "args") is not None]
    ok = len(rare) == 1 and n(kwarg(rare[0], "args")) in ("(False,)", "(False, )") and kwarg(rare[0], "events") is None
    chk.ob("R03.4", fe.where(), "the rarefaction wave is integrated with shockWave=False (low-T sound speed) and no front event", ok, key="rarefaction-args")
    ok1, h1 = is_zero(envf["vpcent"] - (vw - mvp) / (1 - vw * mvp), chk.seed)
    ok2, h2 = is_zero(envf["vmcent"] - (vw - mvm) / (1 - vw * mvm), chk.seed)
    chk.ob("R03.4", fe.where(), "efficiencyFactor: shock starts at mu(vw, v+), rarefaction at mu(vw, v-), with (v+, v-, T+, T-) = findMatching(vw)",
           ok1 and ok2, f"{h1}; {h2}", key="start-velocity|efficiencyFactor", how=h1)
    # initial data lists: first assignment [vw, Tp], second [vw, Tm]
    x0s = [st.value for st in own_nodes(fe.node) if isinstance(st, ast.Assign) and n(st.targets[0]) == "xi0T0"]
    x0s.sort(key=lambda e: e.lineno)
    ok = len(x0s) == 2 and [n(e) for e in x0s[0].elts] == ["vw", "Tp"] and [n(e) for e in x0s[1].elts] == ["vw", "Tm"]
    chk.ob("R03.4", fe.where(), "efficiencyFactor: shock data (vw, T+), rarefaction data (vw, T-)", ok, key="start-data|efficiencyFactor")
    # --- kappa
    kSW, kRW = envf.get("kappaSW"), envf.get("kappaRW")
    simp = sp.Function("simpson")
    wn = th("wHighT")(ex.sym("self.Tnucl"))
    aln = ex.sym("self.template.alN")
    for nm, val, sol, wf, sign in (("shock wave", kSW, "solShock", "wHighT", 1), ("rarefaction wave", kRW, "solRarefaction", "wLowT", -1)):
        ok = None
        detail = str(val)[:200]
        if isinstance(val, sp.Basic):
            calls = [a for a in val.atoms(sp.Function) if a.func == simp]
            if len(calls) == 1:
                c = calls[0]
                x_, y_ = c.args  # kwargs sorted: x, y
                pref = sp.simplify(val / c)
                ok1, h1 = is_zero(pref - sign * 4 / (vw**3 * wn * aln), chk.seed)
                vpl = ex.sym(f"{sol}.t")
                comp = sp.Function("COMP")(th(wf)(ex.sym("t")))
                ok2, h2 = is_zero(y_ - x_**2 * vpl**2 / (1 - vpl**2) * comp, chk.seed)
                okx = str(x_).startswith(f"{sol}.y")
                ok = bool(ok1 and ok2 and okx)
                detail = f"prefactor: {h1}; integrand: {h2}; x = {x_}"
        chk.ob("R03.5", fe.where(), f"kappa ({nm}) == {'+' if sign > 0 else '-'}4/(vw^3 w_n alpha_n) * Simpson[xi^2 v^2 gamma^2(v) {wf}(T)] d xi over that wave's solution",
               ok, detail, key=f"kappa|{nm}")
    chk.ob("R03.5", fe.where(), "kappa is the sum of the two contributions", full[0].value == kSW + kRW, str(full[0].value)[:100], key="kappa-sum")
    # template sibling
    ft = S.func(f"{TM}.efficiencyFactor")
    chk.touch(ft.name)
    ext = hydro_extractor(S)
    pt = [p for p in ext.paths(ft) if p.raised is None and all(g.polarity for g in p.guards)]
    if len(pt) != 1:
        raise Undecided("template efficiencyFactor: path")
    et = pt[0].env
    for nm, val, sol, sign in (("shock wave", et.get("kappaSW"), "solShock", 1), ("rarefaction wave", et.get("kappaRW"), "solRarefaction", -1)):
        ok = None
        detail = str(val)[:200]
        if isinstance(val, sp.Basic):
            calls = [a for a in val.atoms(sp.Function) if a.func == simp]
            if len(calls) == 1:
                c = calls[0]
                x_, y_ = c.args
                ok1, h1 = is_zero(sp.simplify(val / c) - sign * 4 / (ext.sym("vw") ** 3 * ext.sym("self.alN")), chk.seed)
                vpl = ext.sym(f"{sol}.t")
                ok2, h2 = is_zero(y_ - x_**2 * vpl**2 / (1 - vpl**2) * ext.sym(f"{sol}.y[1]"), chk.seed)
                ok = bool(ok1 and ok2 and str(x_) == f"{sol}.y[0]")
                detail = f"{h1}; {h2}; x={x_}"
        chk.ob("R03.5", ft.where(), f"template kappa ({nm}) has the same integrand and prefactor with w_n = 1 (enthalpy in units of w_n)", ok, detail,
               key=f"template-kappa|{nm}")
    chk.floor("R03.4", 7)
    chk.floor("R03.5", 5)


def r03_6(chk: Check, ex, out):
    S = chk.src
    ft = S.func(f"{TM}._dxiAndWdv")
    chk.touch(ft.name)
    ext = hydro_extractor(S)
    v, xi, T = ex.sym("v"), ex.sym("xiAndT[0]"), ex.sym("xiAndT[1]")
    for shock in (True, False):
        ps = [p for p in ext.paths(ft, {"shockWave": shock}) if p.raised is None]
        reg = [p for p in ps if all(g.polarity for g in p.guards)]  # v != 0 branch
        if len(reg) != 1:
            raise Undecided("_dxiAndWdv: regular branch not found")
        val = reg[0].value
        dx, dw = val
        csT = ext.sym("self.cs2" if shock else "self.cb2")
        xt, wt, vt = ext.sym("xiAndW[0]"), ext.sym("xiAndW[1]"), ext.sym("v")
        code_dx = out[shock][0].subs({xi: xt, v: vt}).replace(th("csqHighT" if shock else "csqLowT"), lambda a: csT)
        ok, how = is_zero(dx - code_dx, chk.seed)
        chk.ob("R03.6", ft.where(), f"template d xi/dv (shockWave={shock}) equals shockDE's with constant sound speed", ok, how,
               key=f"template-dxi|{shock}", how=how)
        mu = (xt - vt) / (1 - xt * vt)
        ok, how = is_zero(dw - wt * (1 + 1 / csT) * mu / (1 - vt**2), chk.seed)
        chk.ob("R03.6", ft.where(), f"template dw/dv (shockWave={shock}) == w (1 + 1/cs^2) gamma^2 mu  (= (dw/dT) dT/dv for w ~ T^(1+1/cs^2))", ok, how,
               key=f"template-dw|{shock}", how=how)
    chk.floor("R03.6", 4)


def rules(chk: Check) -> None:
    ex, out = r03_1(chk)
    r03_2(chk)
    r03_3(chk)
    r03_45(chk)
    r03_6(chk, ex, out)
