"""C02 -- energy and momentum flux are conserved across the wall.

R02.1 the junction relations (v+v-, v+/v-) imply equality of both fluxes; High-T data at T+, low-T data at T-
R02.2 residuals of the 2x2 matching and of the detonation matching vanish iff the junction relations hold
R02.3 boundary constants c1 = -w+ gamma+^2 v+, c2 = p+ + w+ gamma+^2 v+^2 (both classes); tuple positions
R02.4 side pairing: T+ values reach only high-T-phase functions/bounds, T- values only low-T ones
R02.5 the convergence flag of the 2x2 solve is consulted by every function that hands the matching on
R02.6 acceptance of the solve is scale free: the solver's own success is not weakened by an absolute residual test
"""
from __future__ import annotations

import ast

import sympy as sp

from ..core import AnchorMissing, Check, Undecided, calls_in, dotted, own_nodes, src
from ..hydro import HY, TM, SideTyper, drop_ite, fn, hydro_extractor, junction_terms, n, th
from ..terms import Extractor, is_zero

LEVEL = "other"


def _atoms_to_symbols(e, positive=True):
    atoms = sorted({a for a in e.atoms(sp.Function) if isinstance(a, sp.core.function.AppliedUndef)}, key=str)
    rep = {a: sp.Symbol(f"A{i}__", positive=positive) for i, a in enumerate(atoms)}
    return e.xreplace(rep), rep


def r02_1(chk: Check):
    S = chk.src
    ex, fi, vpvm, vpovm = junction_terms(S)
    chk.touch(fi.name)
    Tp, Tm = ex.sym("Tp"), ex.sym("Tm")
    pH, pL, eH, eL = th("pHighT")(Tp), th("pLowT")(Tm), th("eHighT")(Tp), th("eLowT")(Tm)
    used = {a for a in (vpvm + vpovm).atoms(sp.Function) if isinstance(a, sp.core.function.AppliedUndef)}
    chk.ob("R02.1", fi.where(), "junction relations use p,e of the high-T phase at T+ and of the low-T phase at T- only",
           used == {pH, pL, eH, eL}, str(sorted(map(str, used))), key="operands")
    A, B = vpvm * vpovm, vpvm / vpovm  # v+^2, v-^2
    wH, wL = eH + pH, eL + pL
    # energy flux: w+ g+^2 v+ = w- g-^2 v-   <=>  (v+/v-) w+ (1 - v-^2) = w- (1 - v+^2)
    ok, how = is_zero(vpovm * wH * (1 - B) - wL * (1 - A), chk.seed)
    chk.ob("R02.1", fi.where(), "v+^2 = vpvm*vpovm, v-^2 = vpvm/vpovm  ==>  w+ gamma+^2 v+ == w- gamma-^2 v-  (energy flux)", ok, how,
           key="energy-flux", how=how)
    ok, how = is_zero(wH * A / (1 - A) + pH - wL * B / (1 - B) - pL, chk.seed)
    chk.ob("R02.1", fi.where(), "v+^2 = vpvm*vpovm, v-^2 = vpvm/vpovm  ==>  w+ gamma+^2 v+^2 + p+ == w- gamma-^2 v-^2 + p-  (momentum flux)",
           ok, how, key="momentum-flux", how=how)
    ok, how = is_zero(vpvm - (pH - pL) / (eH - eL), chk.seed)
    ok2, how2 = is_zero(vpovm - (eL + pH) / (eH + pL), chk.seed)
    chk.ob("R02.1", fi.where(), "vpvm == (p+ - p-)/(e+ - e-) and vpovm == (e- + p+)/(e+ + p-)", ok and ok2, f"{how}; {how2}",
           key="junction-forms", how=how)
    chk.floor("R02.1", 4)
    return ex, A, B


def r02_2(chk: Check, A, B):
    S = chk.src
    ex = hydro_extractor(S)
    fm = S.func(f"{HY}.matchDeflagOrHyb.matching")
    chk.touch(fm.name)
    ps = [p for p in ex.paths(fm) if p.raised is None]
    if len(ps) != 2:
        raise Undecided(f"matching: expected 2 branches (vp given / entropy), found {len(ps)}")
    Tpm = fn("_inverseMappingT")(ex.sym("mappedTpTm"))
    T0, T1 = fn("getitem")(Tpm, 0), fn("getitem")(Tpm, 1)
    Tp, Tm = ex.sym("Tp"), ex.sym("Tm")
    A1, B1 = A.subs({Tp: T0, Tm: T1}, simultaneous=True), B.subs({Tp: T0, Tm: T1}, simultaneous=True)
    vw = ex.sym("vw")
    vmsq = sp.Min(vw**2, th("csqLowT")(T1))
    for p in ps:
        given = not p.guards[0].polarity if "is None" in p.guards[0].text() else None
        e1, e2 = (drop_ite(x) for x in p.value)
        label = "vp given" if given else "vp from entropy"
        vpsq = ex.sym("vp") ** 2 if given else (T1**2 - T0**2 * (1 - vmsq)) / T1**2
        c = p.env.get("c")
        if not isinstance(c, sp.Basic):
            raise Undecided("matching: common factor `c` not found")
        ok1, how1 = is_zero(e1 - c * (A1 - vpsq), chk.seed)
        ok2, how2 = is_zero(e2 - c * (B1 - vmsq), chk.seed)
        chk.ob("R02.2", fm.where(), f"matching ({label}): residuals are c*(vpvm*vpovm - v+^2) and c*(vpvm/vpovm - v-^2), v-^2 = min(vw^2, csqLowT(T-))",
               (ok1 and ok2) if (ok1 is not None and ok2 is not None) else None, f"{how1}; {how2}", key=f"residual-forms|{label}", how=how1)
        c_sym, _ = _atoms_to_symbols(c)
        c_sym = c_sym.subs({s_: sp.Symbol("P" + "".join(ch if ch.isalnum() else "_" for ch in s_.name), positive=True) for s_ in c_sym.free_symbols})
        pos = c_sym.is_positive
        chk.ob("R02.2", fm.where(), f"matching ({label}): the common factor is strictly positive for positive temperatures (roots unchanged)",
               pos is True, f"c = {c}"[:200], key=f"positive-factor|{label}", how="sign-analysis")
    # detonation
    fd = S.func(f"{HY}.matchDeton.tmFromvpsq")
    fo = S.func(f"{HY}.matchDeton")
    chk.touch(fd.name, fo.name)
    exo = hydro_extractor(S)
    # outer environment of the closure: run matchDeton up to the def
    outer = {}
    for st in fo.node.body:
        if isinstance(st, ast.FunctionDef):
            break
        for e_, g_, o_ in exo.stmt(st, dict(outer, __module__="hydrodynamics", __class__="Hydrodynamics"), [], 0):
            outer = e_
    outer.setdefault("vw", exo.sym("vw"))
    res = exo.single(fd, None, outer)
    Tn = exo.sym("self.Tnucl")
    tm = exo.sym("tm")
    sub_e = lambda expr: expr.replace(th("eHighT"), lambda x: th("wHighT")(x) - th("pHighT")(x)).replace(
        th("eLowT"), lambda x: th("wLowT")(x) - th("pLowT")(x))
    Adet = sub_e(A.subs({Tp: Tn, Tm: tm}, simultaneous=True))
    eHd = th("wHighT")(Tn) - th("pHighT")(Tn)
    eLd = th("wLowT")(tm) - th("pLowT")(tm)
    ok, how = is_zero(res - (eHd - eLd) * (exo.sym("vw") ** 2 - Adet), chk.seed)
    chk.ob("R02.2", fd.where(), "detonation residual == (e+ - e-)(vw^2 - vpvm*vpovm) with e = w - p, T+ = Tn, v+ = vw", ok, how,
           key="deton-residual", how=how)
    chk.ob("R02.2", fo.where(), "matchDeton: v+ = vw and T+ = Tnucl", outer.get("vp") == exo.sym("vw") and outer.get("Tp") == Tn,
           f"vp={outer.get('vp')}, Tp={outer.get('Tp')}", key="deton-front")
    # v- from the junction relations at the root (term level: independent of local names)
    rp = [p_ for p_ in exo.paths(fo) if p_.raised is None and isinstance(p_.value, tuple) and len(p_.value) == 4]
    okv = None
    detail = f"{len(rp)} return paths"
    for p_ in rp:
        vp_, vm_, Tp_, Tm_ = p_.value
        if not isinstance(vm_, sp.Basic) or not vm_.free_symbols:
            continue  # the vp == 1 special case
        Bd = drop_ite(B).subs({Tp: Tp_, Tm: Tm_}, simultaneous=True)
        okv, howv = is_zero(drop_ite(vm_) ** 2 - Bd, chk.seed)
        detail = howv
        okv = okv and Tp_ == Tn and vp_ == exo.sym("vw") and "root" in str(Tm_)
    chk.ob("R02.2", fo.where(), "matchDeton returns (vw, v-, Tn, T-root) with v-^2 == vpvm/vpovm evaluated at (Tn, T-root)", okv, detail,
           key="deton-vm", how=detail)
    chk.floor("R02.2", 7)


def r02_3(chk: Check):
    S = chk.src
    ex = hydro_extractor(S)
    fh = S.func(f"{HY}.findHydroBoundaries")
    chk.touch(fh.name)
    ps = [p for p in ex.paths(fh) if p.raised is None and isinstance(p.value, tuple) and len(p.value) == 5
          and isinstance(p.value[0], sp.Basic) and p.value[0].free_symbols]
    if len(ps) != 1:
        raise Undecided(f"findHydroBoundaries: expected one regular return path, found {len(ps)}")
    c1, c2, rTp, rTm, vmid = ps[0].value
    fm = fn("findMatching")(ex.sym("vwTry"))
    vp, vm, Tp, Tm = (fn("getitem")(fm, i) for i in range(4))
    w = th("wHighT")(Tp)
    ok, how = is_zero(c1 + w * vp / (1 - vp**2), chk.seed)
    chk.ob("R02.3", fh.where(), "c1 == -w+(T+) gamma^2(v+) v+ with (v+, ., T+, .) = findMatching(vw)[0,2]", ok, f"c1 = {c1}; {how}", key="c1", how=how)
    ok, how = is_zero(c2 - th("pHighT")(Tp) - w * vp**2 / (1 - vp**2), chk.seed)
    chk.ob("R02.3", fh.where(), "c2 == p+(T+) + w+(T+) gamma^2(v+) v+^2", ok, f"c2 = {c2}; {how}", key="c2", how=how)
    chk.ob("R02.3", fh.where(), "findHydroBoundaries returns (c1, c2, T+, T-, vMid) with T+ = findMatching[2], T- = findMatching[3]",
           rTp == Tp and rTm == Tm, f"{rTp}, {rTm}", key="tuple-positions")
    ok, how = is_zero(vmid + (vm + vp) / 2, chk.seed)
    chk.ob("R02.3", fh.where(), "velocityMid == -(v+ + v-)/2 (wall-frame sign convention)", ok, how, key="vmid", how=how)
    # template sibling
    ft = S.func(f"{TM}.findHydroBoundaries")
    chk.touch(ft.name)
    ext = hydro_extractor(S, positive={"self.Tnucl", "self.mu", "self.wN"})
    pt = [p for p in ext.paths(ft) if p.raised is None and isinstance(p.value, tuple) and len(p.value) == 5
          and isinstance(p.value[0], sp.Basic) and p.value[0].free_symbols]
    if len(pt) != 1:
        raise Undecided(f"template findHydroBoundaries: expected one regular return path, found {len(pt)}")
    c1t, c2t, tTp, tTm, tvmid = pt[0].value
    env = pt[0].env
    wt, pt_ = env.get("wHighT"), env.get("pHighT")
    vpt, vmt, Tpt = env.get("vp"), env.get("vm"), env.get("Tp")
    ok1, how1 = is_zero(c1t + wt * vpt / (1 - vpt**2), chk.seed)
    ok2, how2 = is_zero(c2t - pt_ - wt * vpt**2 / (1 - vpt**2), chk.seed)
    chk.ob("R02.3", ft.where(), "template: c1 == -w+ gamma^2(v+) v+ and c2 == p+ + w+ gamma^2(v+) v+^2 with its own equation of state",
           ok1 and ok2, f"{how1}; {how2}", key="template-c1c2", how=how1)
    # its equation of state: w = T dp/dT, p(Tn) = pN, w(Tn) = wN
    Tsym = sp.Symbol("Tq", positive=True)
    wq, pq = wt.subs(Tpt, Tsym), pt_.subs(Tpt, Tsym)
    ok1, how1 = is_zero(Tsym * sp.diff(pq, Tsym) - wq, chk.seed)
    Tn = ext.sym("self.Tnucl")
    ok2, how2 = is_zero(pq.subs(Tsym, Tn) - ext.sym("self.pN"), chk.seed)
    ok3, how3 = is_zero(wq.subs(Tsym, Tn) - ext.sym("self.wN"), chk.seed)
    chk.ob("R02.3", ft.where(), "template equation of state: w(T) == T dp/dT, p(Tn) == pN, w(Tn) == wN", ok1 and ok2 and ok3,
           f"{how1}; {how2}; {how3}", key="template-eos", how=how1)
    ok, how = is_zero(tvmid + (vmt + vpt) / 2, chk.seed)
    chk.ob("R02.3", ft.where(), "template: velocityMid == -(v+ + v-)/2", ok, how, key="template-vmid", how=how)
    chk.floor("R02.3", 7)


CONSUMERS = [
    (f"{HY}.findHydroBoundaries", {}), (f"{HY}.fastestDeflag", {}), (f"{HY}.slowestDeton", {}),
    (f"{HY}.efficiencyFactor", {}), (f"{HY}.matchDeton", {}), (f"{HY}.matchDeflagOrHyb", {}),
    (f"{HY}.findMatching", {}), (f"{HY}.findvwLTE", {}), (f"{HY}.vpvmAndvpovm", {"Tp": "+", "Tm": "-"}),
    ("equationOfMotion:EOM.wallPressure", {}), ("equationOfMotion:EOM.solveWall", {}),
]
PRODUCERS = ["findMatching", "matchDeton", "matchDeflagOrHyb", "findHydroBoundaries"]


def r02_4(chk: Check):
    S = chk.src
    for name, seeds in CONSUMERS:
        fi = S.func(name)
        chk.touch(fi.name)
        st = SideTyper(fi.node, seeds)
        conf = st.conflicts()
        typed = sorted(k for k in st.side) + sorted(f"{k}[{i}]" for k, v in st.elem.items() for i in v)
        chk.ob("R02.4", fi.where(), f"{fi.qual}: temperatures in front of / behind the wall reach only functions and bounds of their own phase "
               f"({len(typed)} typed names)", not conf, "; ".join(f"line {c.lineno}: {m}" for c, m in conf)[:400],
               key=f"sides|{fi.qual}")
    # producers: the returned tuple has T+ at position 2 and T- at position 3
    for pname in PRODUCERS:
        fi = S.func(f"{HY}.{pname}")
        st = SideTyper(fi.node, {"Tp": None} if False else {})
        # usage-based: a name passed to a *HighT function is T+, to a *LowT function T-
        use = {}
        for x in ast.walk(fi.node):
            if isinstance(x, ast.Call):
                from ..hydro import use_side
                w = use_side(x)
                if w and x.args and isinstance(x.args[0], ast.Name):
                    use.setdefault(x.args[0].id, set()).add(w)
        rets = st.return_sides()
        bad = []
        pos = (2, 3)
        for r in rets:
            if len(r) < 4:
                continue
            for i, want in zip(pos, ("+", "-")):
                have = r.get(i)
                if have is not None and have != want:
                    bad.append(f"position {i} carries a T{have} value")
        for r_ in own_nodes(fi.node):
            if isinstance(r_, ast.Return) and isinstance(r_.value, ast.Tuple) and len(r_.value.elts) >= 4:
                for i, want in zip(pos, ("+", "-")):
                    e = r_.value.elts[i]
                    if isinstance(e, ast.Name) and e.id in use and use[e.id] != {want} and e.id not in st.side:
                        bad.append(f"`{e.id}` returned at position {i} is used as T{sorted(use[e.id])}")
        chk.ob("R02.4", fi.where(), f"{pname} returns T+ at position 2 and T- at position 3 of its tuple", not bad, "; ".join(bad),
               key=f"producer|{pname}")
    # the 2x2 mapping helpers keep the (T+, T-) order
    for hname in ("_mappingT", "_inverseMappingT"):
        fi = S.func(f"{HY}.{hname}")
        chk.touch(fi.name)
        unpack = [s_ for s_ in own_nodes(fi.node) if isinstance(s_, ast.Assign) and isinstance(s_.targets[0], ast.Tuple)]
        rets = [r for r in own_nodes(fi.node) if isinstance(r, ast.Return)]
        ok = False
        if unpack and rets and isinstance(rets[0].value, ast.List):
            a = [n(e) for e in unpack[0].targets[0].elts]
            b = [n(e) for e in rets[0].value.elts]
            defs = {n(s_.targets[0]): {x.id for x in ast.walk(s_.value) if isinstance(x, ast.Name)} for s_ in own_nodes(fi.node)
                    if isinstance(s_, ast.Assign) and isinstance(s_.targets[0], ast.Name)}
            ok = len(a) == 2 and len(b) == 2 and a[0] in defs.get(b[0], set()) and a[1] in defs.get(b[1], set()) \
                and a[1] not in defs.get(b[0], set()) and a[0] not in defs.get(b[1], set())
        chk.ob("R02.4", fi.where(), f"{hname} maps element 0 to element 0 and element 1 to element 1 (order (T+, T-) preserved)", ok,
               key=f"mapping-order|{hname}")
    chk.floor("R02.4", 15)


def r02_56(chk: Check):
    S = chk.src
    fd = S.func(f"{HY}.matchDeflagOrHyb")
    stores = [st for st in own_nodes(fd.node) if isinstance(st, ast.Assign) and n(st.targets[0]) == "self.success"]
    if len(stores) != 1:
        raise AnchorMissing("matchDeflagOrHyb: the store to self.success was not found")
    v = stores[0].value
    chk.ob("R02.5", fd.where(stores[0]), "matchDeflagOrHyb records the convergence of the 2x2 solve in self.success",
           "sol.success" in n(v), n(v), key="flag-stored")
    # R02.6
    weakened = isinstance(v, ast.BoolOp) and isinstance(v.op, ast.Or)
    abs_tests = [c for c in ast.walk(v) if isinstance(c, ast.Compare) and any(isinstance(k, ast.Constant) for k in [c.left] + c.comparators)
                 and "fun" in n(c)]
    chk.ob("R02.6", fd.where(stores[0]), "acceptance of the 2x2 matching is scale free: the solver's own convergence verdict is not overridden "
           "by comparing the (velocity-squared sized) residual with an absolute literal", not (weakened and abs_tests),
           f"`{n(v)}`: residuals are O(v^2), so at slow walls every iterate passes the absolute test", key="abs-acceptance|matchDeflagOrHyb")
    # R02.5: every outer function that calls matchDeflagOrHyb and hands the tuple on must read the flag (or raise on it)
    for fi in S.modules["hydrodynamics"].funcs.values():
        if fi.parent is not None or fi.cls != "Hydrodynamics" or fi.qual.endswith(".matchDeflagOrHyb"):
            continue
        calls = [c for c in ast.walk(fi.node) if isinstance(c, ast.Call) and n(c.func) == "self.matchDeflagOrHyb"]
        if not calls:
            continue
        chk.touch(fi.name)
        reads = [x for x in ast.walk(fi.node) if isinstance(x, ast.Attribute) and isinstance(x.ctx, ast.Load) and n(x) == "self.success"]
        chk.ob("R02.5", fi.where(), f"{fi.qual} calls matchDeflagOrHyb {len(calls)} time(s) and consults self.success before using the result",
               bool(reads), "the convergence flag is written by the callee and never read here", key=f"unread-flag|{fi.qual}")
    chk.floor("R02.5", 3)
    chk.floor("R02.6", 1)


def rules(chk: Check) -> None:
    ex, A, B = r02_1(chk)
    r02_2(chk, A, B)
    r02_3(chk)
    r02_4(chk)
    r02_56(chk)
