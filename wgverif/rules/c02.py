"""C02 -- energy and momentum flux are conserved across the wall.

R02.1 the junction relations (v+v-, v+/v-) imply equality of both fluxes; High-T data at T+, low-T data at T-
R02.2 residuals of the 2x2 matching and of the detonation matching vanish iff the junction relations hold
R02.3 boundary constants c1 = -w+ gamma+^2 v+, c2 = p+ + w+ gamma+^2 v+^2 (both classes); tuple positions
R02.4 side pairing: T+ values reach only high-T-phase functions/bounds, T- values only low-T ones
R02.5 the convergence flag of the 2x2 solve is consulted by every function that hands the matching on
R02.6 acceptance of the solve is scale free: the solver's own success is not weakened by an absolute residual test

Recognition is by role: the residual functions are "the function handed to root / minimize_scalar / root_scalar" (whatever they are
called), parameters are addressed by position, the common factor of the 2x2 residuals and the template's equation of state are read off
the returned terms (not off local names), and the solver result is "the local assigned from the root(...) call".
"""
from __future__ import annotations

import ast
import copy

import sympy as sp

from ..core import AnchorMissing, Check, FuncInfo, Undecided, calls_in, dotted, own_nodes, src
from ..hydro import HY, TM, SideTyper, drop_ite, fn, hydro_extractor, junction_terms, n, th
from ..nf import Ctx, eqx, has
from ..terms import Extractor, is_zero
from .c06 import _local_func, _side_conflicts, written_out

LEVEL = "other"


def _atoms_to_symbols(e, positive=True):
    atoms = sorted({a for a in e.atoms(sp.Function) if isinstance(a, sp.core.function.AppliedUndef)}, key=str)
    rep = {a: sp.Symbol(f"A{i}__", positive=positive) for i, a in enumerate(atoms)}
    return e.xreplace(rep), rep


def r02_1(chk: Check):
    S = chk.src
    ex, fi, vpvm, vpovm = junction_terms(S)
    chk.touch(fi.name)
    Tp, Tm = ex.sym("Tp"), ex.sym("Tm")
    pH, pL, eH, eL = th("pHighT")(Tp), th("pLowT")(Tm), th("eHighT")(Tp), th("eLowT")(Tm)
    used = {a for a in (vpvm + vpovm).atoms(sp.Function) if isinstance(a, sp.core.function.AppliedUndef)}
    chk.ob("R02.1", fi.where(), "junction relations use p,e of the high-T phase at T+ and of the low-T phase at T- only",
           used == {pH, pL, eH, eL}, str(sorted(map(str, used))), key="operands")
    A, B = vpvm * vpovm, vpvm / vpovm  # v+^2, v-^2
    wH, wL = eH + pH, eL + pL
    # energy flux: w+ g+^2 v+ = w- g-^2 v-   <=>  (v+/v-) w+ (1 - v-^2) = w- (1 - v+^2)
    ok, how = is_zero(vpovm * wH * (1 - B) - wL * (1 - A), chk.seed)
    chk.ob("R02.1", fi.where(), "v+^2 = vpvm*vpovm, v-^2 = vpvm/vpovm  ==>  w+ gamma+^2 v+ == w- gamma-^2 v-  (energy flux)", ok, how,
           key="energy-flux", how=how)
    ok, how = is_zero(wH * A / (1 - A) + pH - wL * B / (1 - B) - pL, chk.seed)
    chk.ob("R02.1", fi.where(), "v+^2 = vpvm*vpovm, v-^2 = vpvm/vpovm  ==>  w+ gamma+^2 v+^2 + p+ == w- gamma-^2 v-^2 + p-  (momentum flux)",
           ok, how, key="momentum-flux", how=how)
    ok, how = is_zero(vpvm - (pH - pL) / (eH - eL), chk.seed)
    ok2, how2 = is_zero(vpovm - (eL + pH) / (eH + pL), chk.seed)
    chk.ob("R02.1", fi.where(), "vpvm == (p+ - p-)/(e+ - e-) and vpovm == (e- + p+)/(e+ + p-)", ok and ok2, f"{how}; {how2}",
           key="junction-forms", how=how)
    chk.floor("R02.1", 4)
    return ex, A, B


def _solver_function(S, fo, solvers: tuple, kw: str):
    """the local function handed (first argument / keyword `kw`) to every call of one of `solvers` in fo: (FuncInfo, calls)"""
    calls = [c for c in own_nodes(fo.node) if isinstance(c, ast.Call) and (dotted(c.func) or "").split(".")[-1] in solvers]
    names = {a.id if isinstance(a, ast.Name) else None for a in ((c.args[0] if c.args else next((k.value for k in c.keywords if k.arg == kw), None)) for c in calls)}
    if not calls or len(names) != 1 or None in names:
        raise AnchorMissing(f"{fo.qual}: the local residual function handed to {'/'.join(solvers)} not found")
    fi = _local_func(S, fo, names.pop())
    if fi is None:
        raise AnchorMissing(f"{fo.qual}: the residual handed to {'/'.join(solvers)} is not a local function")
    return fi, calls


def r02_2(chk: Check, A, B):
    S = chk.src
    ex = hydro_extractor(S)
    fo2 = S.func(f"{HY}.matchDeflagOrHyb")
    fm, _ = _solver_function(S, fo2, ("root",), "fun")
    chk.touch(fm.name)
    po = [p for p in fo2.params() if p != "self"]
    if len(po) != 2 or len(fm.params()) != 1:
        raise AnchorMissing("matchDeflagOrHyb(vw, vp) / its one-argument residual: parameter lists changed")
    VW, VP = po
    X = ex.sym("mappedTpTm")
    Tpm = fn("_inverseMappingT")(X)
    T0, T1 = fn("getitem")(Tpm, 0), fn("getitem")(Tpm, 1)
    Tp, Tm = ex.sym("Tp"), ex.sym("Tm")
    A1, B1 = A.subs({Tp: T0, Tm: T1}, simultaneous=True), B.subs({Tp: T0, Tm: T1}, simultaneous=True)
    vw = ex.sym(VW)
    vmsq = sp.Min(vw**2, th("csqLowT")(T1))
    for given in (True, False):
        # the two settings of the optional parameter: v+ given by the caller / v+ from entropy conservation
        ps = [p for p in ex.paths(fm, {fm.params()[0]: X}, {VP: ex.sym("vp") if given else None}) if p.raised is None]
        if len(ps) != 1 or not (isinstance(ps[0].value, (tuple, list)) and len(ps[0].value) == 2):
            raise Undecided(f"2x2 residual: expected one path returning a pair for vp {'given' if given else 'None'}, found {len(ps)}")
        p = ps[0]
        e1, e2 = (drop_ite(x) for x in p.value)
        label = "vp given" if given else "vp from entropy"
        vpsq = ex.sym("vp") ** 2 if given else (T1**2 - T0**2 * (1 - vmsq)) / T1**2
        # the common factor of the two residuals (read off the returned terms)
        common = [f_ for f_ in sp.Mul.make_args(e1) if f_ in set(sp.Mul.make_args(e2))] if isinstance(e1, sp.Basic) and isinstance(e2, sp.Basic) else []
        c = sp.Mul(*common) if common else sp.Integer(1)
        ok1, how1 = is_zero(e1 - c * (A1 - vpsq), chk.seed)
        ok2, how2 = is_zero(e2 - c * (B1 - vmsq), chk.seed)
        chk.ob("R02.2", fm.where(), f"matching ({label}): residuals are c*(vpvm*vpovm - v+^2) and c*(vpvm/vpovm - v-^2), v-^2 = min(vw^2, csqLowT(T-))",
               (ok1 and ok2) if (ok1 is not None and ok2 is not None) else None, f"{how1}; {how2}", key=f"residual-forms|{label}", how=how1)
        c_sym, _ = _atoms_to_symbols(c)
        c_sym = c_sym.subs({s_: sp.Symbol("P" + "".join(ch if ch.isalnum() else "_" for ch in s_.name), positive=True) for s_ in c_sym.free_symbols})
        pos = c_sym.is_positive
        chk.ob("R02.2", fm.where(), f"matching ({label}): the common factor is strictly positive for positive temperatures (roots unchanged)",
               pos is True, f"c = {c}"[:200], key=f"positive-factor|{label}", how="sign-analysis")
    # detonation
    fo = S.func(f"{HY}.matchDeton")
    fd, _ = _solver_function(S, fo, ("root_scalar",), "f")
    chk.touch(fd.name, fo.name)
    VWd = [p for p in fo.params() if p != "self"][0]
    exo = hydro_extractor(S)
    # outer environment of the closure: run matchDeton up to the def
    outer = {}
    for st in fo.node.body:
        # the straight-line prologue (the closure may be defined before or after the data it captures)
        if isinstance(st, ast.FunctionDef) or (isinstance(st, ast.Expr) and isinstance(st.value, ast.Constant)):
            continue
        if not isinstance(st, (ast.Assign, ast.AnnAssign)):
            break
        for e_, g_, o_ in exo.stmt(st, dict(outer, __module__="hydrodynamics", __class__="Hydrodynamics"), [], 0):
            outer = e_
    outer.setdefault(VWd, exo.sym(VWd))
    tm = exo.sym("tm")
    res = exo.single(fd, {fd.params()[0]: tm}, outer)
    Tn = exo.sym("self.Tnucl")
    sub_e = lambda expr: expr.replace(th("eHighT"), lambda x: th("wHighT")(x) - th("pHighT")(x)).replace(
        th("eLowT"), lambda x: th("wLowT")(x) - th("pLowT")(x))
    Adet = sub_e(A.subs({Tp: Tn, Tm: tm}, simultaneous=True))
    eHd = th("wHighT")(Tn) - th("pHighT")(Tn)
    eLd = th("wLowT")(tm) - th("pLowT")(tm)
    ok, how = is_zero(res - (eHd - eLd) * (exo.sym(VWd) ** 2 - Adet), chk.seed)
    chk.ob("R02.2", fd.where(), "detonation residual == (e+ - e-)(vw^2 - vpvm*vpovm) with e = w - p, T+ = Tn, v+ = vw", ok, how,
           key="deton-residual", how=how)
    # v- from the junction relations at the root (term level: independent of local names)
    rp = [p_ for p_ in exo.paths(fo) if p_.raised is None and isinstance(p_.value, tuple) and len(p_.value) == 4]
    okv = None
    okf = bool(rp)
    detail = f"{len(rp)} return paths"
    front = []
    for p_ in rp:
        vp_, vm_, Tp_, Tm_ = p_.value
        front.append(f"vp={vp_}, Tp={Tp_}")
        okf = okf and vp_ == exo.sym(VWd) and Tp_ == Tn
        if not isinstance(vm_, sp.Basic) or not vm_.free_symbols:
            continue  # the vp == 1 special case
        Bd = drop_ite(B).subs({Tp: Tp_, Tm: Tm_}, simultaneous=True)
        okv, howv = is_zero(drop_ite(vm_) ** 2 - Bd, chk.seed)
        detail = howv
        okv = okv and Tp_ == Tn and vp_ == exo.sym(VWd) and _is_root_of(S, fo, fd, Tm_)
    chk.ob("R02.2", fo.where(), "matchDeton: v+ = vw and T+ = Tnucl", okf, "; ".join(front)[:200], key="deton-front")
    chk.ob("R02.2", fo.where(), "matchDeton returns (vw, v-, Tn, T-root) with v-^2 == vpvm/vpovm evaluated at (Tn, T-root)", okv, detail,
           key="deton-vm", how=detail)
    chk.floor("R02.2", 7)


def _is_root_of(S, fo, fd, term) -> bool:
    """term is `<R>.root` with R the local holding the result of root_scalar(<fd>, ...) in fo"""
    if not isinstance(term, sp.Symbol) or not term.name.endswith(".root"):
        return False
    R = term.name[:-5]
    sts = [st for st in own_nodes(fo.node) if isinstance(st, ast.Assign) and any(isinstance(t, ast.Name) and t.id == R for t in st.targets)]
    return bool(sts) and all(isinstance(st.value, ast.Call) and (dotted(st.value.func) or "").split(".")[-1] == "root_scalar"
                             and isinstance(st.value.args[0] if st.value.args else next((k.value for k in st.value.keywords if k.arg == "f"), None), ast.Name)
                             and (st.value.args[0] if st.value.args else next(k.value for k in st.value.keywords if k.arg == "f")).id == fd.node.name for st in sts)


# ------------------------------------------------------------------------------------------------ whole tuples written out element by element
#
# The matching (v+, v-, T+, T-) may be kept whole for a while instead of being unpacked at once:
#   a, b, c, d = map(f, E)            is   a, b, c, d = f(E[0]), f(E[1]), f(E[2]), f(E[3])     (the unpacking fixes the length)
#   any(test(x) for x in t)           is   test(t[0]) or ... or test(t[n-1])                    (all(..): and)
#   (*t, e) / g(*t, e)                is   (t[0], ..., t[n-1], e)
# for a local t that is assigned once and only ever used in these ways, n being the number of names it is unpacked into (directly or through
# `map`) in the same routine.  `_sequences_written_out` rewrites a copy of the routine accordingly, so that the term extraction reads the
# elements themselves, as before.


def _unpack_of(st):
    """(number of targets, value) of `a, b, .. = value` with plain names on the left"""
    if isinstance(st, ast.Assign) and len(st.targets) == 1 and isinstance(st.targets[0], (ast.Tuple, ast.List)) and st.targets[0].elts \
            and all(isinstance(e_, ast.Name) for e_ in st.targets[0].elts):
        return len(st.targets[0].elts), st.value
    return None, None


def _is_builtin_call(e, name: str, nargs: int) -> bool:
    return isinstance(e, ast.Call) and isinstance(e.func, ast.Name) and e.func.id == name and len(e.args) == nargs and not e.keywords \
        and not any(isinstance(a_, ast.Starred) for a_ in e.args)


def _sequences_written_out(fi):
    node = copy.deepcopy(fi.node)
    own = list(own_nodes(node))
    own_ids = {id(x) for x in own}
    bound = set(fi.params()) | {a_.arg for a_ in ([node.args.vararg] if node.args.vararg else []) + ([node.args.kwarg] if node.args.kwarg else [])}
    if {"map", "any", "all"} & (bound | {x.id for x in ast.walk(node) if isinstance(x, ast.Name) and isinstance(x.ctx, (ast.Store, ast.Del))}):
        return fi
    parent = {}
    for x in ast.walk(node):
        for c in ast.iter_child_nodes(x):
            parent[id(c)] = x
    in_loop = {id(y) for x in ast.walk(node) if isinstance(x, (ast.For, ast.While, ast.AsyncFor)) for y in ast.walk(x)}
    # whole-tuple locals and their length
    stores: dict = {}
    for x in ast.walk(node):
        if isinstance(x, ast.Name) and isinstance(x.ctx, (ast.Store, ast.Del)):
            stores.setdefault(x.id, []).append(x)
        elif isinstance(x, ast.arg):
            stores.setdefault(x.arg, []).append(x)
    lens: dict = {}
    for st in own:
        n_, v = _unpack_of(st)
        if n_ is None:
            continue
        src_ = v.args[1] if _is_builtin_call(v, "map", 2) else v
        if isinstance(src_, ast.Name):
            lens.setdefault(src_.id, set()).add(n_)
    whole = {}
    for nm, ns in lens.items():
        sts = stores.get(nm, [])
        if len(ns) != 1 or len(sts) != 1 or nm in bound or id(sts[0]) not in own_ids or id(sts[0]) in in_loop:
            continue
        d = parent.get(id(sts[0]))
        if not (isinstance(d, ast.Assign) and len(d.targets) == 1 and d.targets[0] is sts[0]):
            continue
        ok = True
        for x in ast.walk(node):
            if not (isinstance(x, ast.Name) and x.id == nm and isinstance(x.ctx, ast.Load)):
                continue
            p_ = parent.get(id(x))
            pp_ = parent.get(id(p_))
            if id(x) not in own_ids:
                ok = False                                                        # read by a nested function
            elif isinstance(p_, ast.Assign) and p_.value is x and _unpack_of(p_)[0] is not None:
                pass                                                              # a, b = t
            elif _is_builtin_call(p_, "map", 2) and p_.args[1] is x and isinstance(pp_, ast.Assign) and pp_.value is p_ and _unpack_of(pp_)[0] is not None:
                pass                                                              # a, b = map(f, t)
            elif isinstance(p_, ast.comprehension) and p_.iter is x and isinstance(pp_, (ast.GeneratorExp, ast.ListComp)) and len(pp_.generators) == 1 \
                    and not p_.ifs and not p_.is_async and isinstance(p_.target, ast.Name) \
                    and any(_is_builtin_call(parent.get(id(pp_)), q_, 1) for q_ in ("any", "all")):
                pass                                                              # any(.. for x in t)
            elif isinstance(p_, ast.Starred) and isinstance(p_.ctx, ast.Load) and isinstance(pp_, (ast.Tuple, ast.List, ast.Call)) \
                    and any(y is p_ for y in (pp_.args if isinstance(pp_, ast.Call) else pp_.elts)):
                pass                                                              # (*t, e)
            else:
                ok = False
        if ok:
            whole[nm] = next(iter(ns))
    changed = False
    taken = {x.id for x in ast.walk(node) if isinstance(x, ast.Name)} | {x.arg for x in ast.walk(node) if isinstance(x, ast.arg)}
    slots = {}
    for nm, n_ in whole.items():
        slots[nm] = []
        for i in range(n_):
            s_ = f"{nm}__{i}"
            while s_ in taken:
                s_ += "_"
            taken.add(s_)
            slots[nm].append(s_)

    def _elem(e, i: int):
        """element i of e; for a whole-tuple local: its slot (the local itself becomes `t__0, .., t__k = <definition>`)"""
        if isinstance(e, ast.Name) and e.id in slots:
            return ast.copy_location(ast.Name(id=slots[e.id][i], ctx=ast.Load()), e)
        if isinstance(e, (ast.Tuple, ast.List)) and i < len(e.elts) and not any(isinstance(y, ast.Starred) for y in e.elts):
            return copy.deepcopy(e.elts[i])
        return ast.copy_location(ast.Subscript(value=copy.deepcopy(e), slice=ast.copy_location(ast.Constant(value=i), e), ctx=ast.Load()), e)

    class T(ast.NodeTransformer):
        def visit_FunctionDef(self, x):
            if x is node:
                self.generic_visit(x)
            return x

        def visit_Lambda(self, x):
            return x

        def visit_Assign(self, x):
            nonlocal changed
            self.generic_visit(x)
            n_, v = _unpack_of(x)
            if n_ is not None and _is_builtin_call(v, "map", 2) and isinstance(v.args[0], (ast.Name, ast.Attribute)) \
                    and not any(isinstance(y, (ast.NamedExpr, ast.Await, ast.Yield, ast.YieldFrom, ast.Lambda, ast.Starred)) for y in ast.walk(v.args[1])):
                x.value = ast.copy_location(ast.Tuple(elts=[ast.copy_location(ast.Call(func=copy.deepcopy(v.args[0]), args=[_elem(v.args[1], i)], keywords=[]), v)
                                                            for i in range(n_)], ctx=ast.Load()), v)
                changed = True
            elif n_ is not None and isinstance(v, ast.Name) and v.id in slots:
                x.value = ast.copy_location(ast.Tuple(elts=[_elem(v, i) for i in range(n_)], ctx=ast.Load()), v)
                changed = True
            elif isinstance(x.targets[0], ast.Name) and x.targets[0].id in slots and len(x.targets) == 1:
                t_ = x.targets[0]
                x.targets = [ast.copy_location(ast.Tuple(elts=[ast.copy_location(ast.Name(id=s_, ctx=ast.Store()), t_) for s_ in slots[t_.id]], ctx=ast.Store()), t_)]
                changed = True
            return x

        def visit_Call(self, x):
            nonlocal changed
            self.generic_visit(x)
            for q_, op in (("any", ast.Or), ("all", ast.And)):
                if _is_builtin_call(x, q_, 1) and isinstance(x.args[0], (ast.GeneratorExp, ast.ListComp)) and len(x.args[0].generators) == 1:
                    g_ = x.args[0].generators[0]
                    if isinstance(g_.iter, ast.Name) and g_.iter.id in whole and isinstance(g_.target, ast.Name) and not g_.ifs:
                        var = g_.target.id

                        class Sb(ast.NodeTransformer):
                            def __init__(self, i):
                                self.i = i

                            def visit_Name(self, y):
                                return _elem(g_.iter, self.i) if y.id == var and isinstance(y.ctx, ast.Load) else y

                        vals = [Sb(i).visit(copy.deepcopy(x.args[0].elt)) for i in range(whole[g_.iter.id])]
                        changed = True
                        return ast.copy_location(ast.BoolOp(op=op(), values=vals), x) if len(vals) > 1 else vals[0]
            x.args = self._spread(x.args)
            return x

        def _spread(self, seq):
            nonlocal changed
            out = []
            for y in seq:
                if isinstance(y, ast.Starred) and isinstance(y.ctx, ast.Load) and isinstance(y.value, ast.Name) and y.value.id in whole:
                    out += [_elem(y.value, i) for i in range(whole[y.value.id])]
                    changed = True
                else:
                    out.append(y)
            return out

        def visit_Tuple(self, x):
            self.generic_visit(x)
            if isinstance(x.ctx, ast.Load):
                x.elts = self._spread(x.elts)
            return x

        visit_List = visit_Tuple

    T().visit(node)
    if not changed:
        return fi
    ast.fix_missing_locations(node)
    return FuncInfo(fi.module, fi.qual, node, fi.cls, fi.parent)


def r02_3(chk: Check):
    S = chk.src
    ex = hydro_extractor(S)
    fh = _sequences_written_out(S.func(f"{HY}.findHydroBoundaries"))
    chk.touch(fh.name)
    ps = [p for p in ex.paths(fh) if p.raised is None and isinstance(p.value, tuple) and len(p.value) == 5
          and isinstance(p.value[0], sp.Basic) and p.value[0].free_symbols]
    if len(ps) != 1:
        raise Undecided(f"findHydroBoundaries: expected one regular return path, found {len(ps)}")
    c1, c2, rTp, rTm, vmid = ps[0].value
    fm = fn("findMatching")(ex.sym([p for p in fh.params() if p != "self"][0]))
    vp, vm, Tp, Tm = (fn("getitem")(fm, i) for i in range(4))
    w = th("wHighT")(Tp)
    ok, how = is_zero(c1 + w * vp / (1 - vp**2), chk.seed)
    chk.ob("R02.3", fh.where(), "c1 == -w+(T+) gamma^2(v+) v+ with (v+, ., T+, .) = findMatching(vw)[0,2]", ok, f"c1 = {c1}; {how}", key="c1", how=how)
    ok, how = is_zero(c2 - th("pHighT")(Tp) - w * vp**2 / (1 - vp**2), chk.seed)
    chk.ob("R02.3", fh.where(), "c2 == p+(T+) + w+(T+) gamma^2(v+) v+^2", ok, f"c2 = {c2}; {how}", key="c2", how=how)
    chk.ob("R02.3", fh.where(), "findHydroBoundaries returns (c1, c2, T+, T-, vMid) with T+ = findMatching[2], T- = findMatching[3]",
           rTp == Tp and rTm == Tm, f"{rTp}, {rTm}", key="tuple-positions")
    ok, how = is_zero(vmid + (vm + vp) / 2, chk.seed)
    chk.ob("R02.3", fh.where(), "velocityMid == -(v+ + v-)/2 (wall-frame sign convention)", ok, how, key="vmid", how=how)
    # template sibling
    ft = _sequences_written_out(S.func(f"{TM}.findHydroBoundaries"))
    chk.touch(ft.name)
    ext = hydro_extractor(S, positive={"self.Tnucl", "self.mu", "self.wN"})
    pt = [p for p in ext.paths(ft) if p.raised is None and isinstance(p.value, tuple) and len(p.value) == 5
          and isinstance(p.value[0], sp.Basic) and p.value[0].free_symbols]
    if len(pt) != 1:
        raise Undecided(f"template findHydroBoundaries: expected one regular return path, found {len(pt)}")
    c1t, c2t, tTp, tTm, tvmid = pt[0].value
    # (v+, v-, T+, T-) = findMatching(vw); the equation of state is read off the returned constants:  w := -c1 (1 - v+^2)/v+,  p := c2 + c1 v+
    fmt = fn("findMatching")(ext.sym([p for p in ft.params() if p != "self"][0]))
    vpt, vmt, Tpt, Tmt = (fn("getitem")(fmt, i) for i in range(4))
    VPs, VMs = sp.Symbol("vplus__", positive=True), sp.Symbol("vminus__", positive=True)
    c1s, c2s = (e.xreplace({vpt: VPs, vmt: VMs}) for e in (c1t, c2t))
    wt = sp.simplify(-c1s * (1 - VPs**2) / VPs)
    pt_ = sp.simplify(c2s + c1s * VPs)
    # c1 = -w(T+) gamma^2 v+ and c2 = p(T+) + w(T+) gamma^2 v+^2 hold by construction of w, p; the content is that w and p are functions of T+ alone
    ok1 = not wt.has(VPs) and not wt.has(VMs) and not wt.has(Tmt)
    ok2 = not pt_.has(VPs) and not pt_.has(VMs) and not pt_.has(Tmt)
    chk.ob("R02.3", ft.where(), "template: c1 == -w+ gamma^2(v+) v+ and c2 == p+ + w+ gamma^2(v+) v+^2 with its own equation of state",
           ok1 and ok2 and tTp == Tpt and tTm == Tmt, f"w+ = {wt}; p+ = {pt_}"[:300], key="template-c1c2", how="cas-proof(simplify)")
    # its equation of state: w = T dp/dT, p(Tn) = pN, w(Tn) = wN
    Tsym = sp.Symbol("Tq", positive=True)
    wq, pq = wt.subs(Tpt, Tsym), pt_.subs(Tpt, Tsym)
    ok1, how1 = is_zero(Tsym * sp.diff(pq, Tsym) - wq, chk.seed)
    Tn = ext.sym("self.Tnucl")
    ok2, how2 = is_zero(pq.subs(Tsym, Tn) - ext.sym("self.pN"), chk.seed)
    ok3, how3 = is_zero(wq.subs(Tsym, Tn) - ext.sym("self.wN"), chk.seed)
    chk.ob("R02.3", ft.where(), "template equation of state: w(T) == T dp/dT, p(Tn) == pN, w(Tn) == wN", ok1 and ok2 and ok3,
           f"{how1}; {how2}; {how3}", key="template-eos", how=how1)
    ok, how = is_zero(tvmid + (vmt + vpt) / 2, chk.seed)
    chk.ob("R02.3", ft.where(), "template: velocityMid == -(v+ + v-)/2", ok, how, key="template-vmid", how=how)
    chk.floor("R02.3", 7)


CONSUMERS = [
    (f"{HY}.findHydroBoundaries", {}), (f"{HY}.fastestDeflag", {}), (f"{HY}.slowestDeton", {}),
    (f"{HY}.efficiencyFactor", {}), (f"{HY}.matchDeton", {}), (f"{HY}.matchDeflagOrHyb", {}),
    (f"{HY}.findMatching", {}), (f"{HY}.findvwLTE", {}), (f"{HY}.vpvmAndvpovm", {"Tp": "+", "Tm": "-"}),
    ("equationOfMotion:EOM.wallPressure", {}), ("equationOfMotion:EOM.solveWall", {}),
]
PRODUCERS = ["findMatching", "matchDeton", "matchDeflagOrHyb", "findHydroBoundaries"]


def r02_4(chk: Check):
    S = chk.src
    for name, seeds in CONSUMERS:
        fi = written_out(S, S.func(name))        # (loops over literal cases written out, so that the sides are typed case by case)
        chk.touch(fi.name)
        st = SideTyper(fi.node, seeds)
        # (+ temperatures recognised as "element 2 / 3 of a matching", through any local helper or unpacking)
        conf = st.conflicts() + [(x, m) for x, m in _side_conflicts(S, fi) if not any(x is y for y, _ in st.conflicts())]
        typed = sorted(k for k in st.side) + sorted(f"{k}[{i}]" for k, v in st.elem.items() for i in v)
        chk.ob("R02.4", fi.where(), f"{fi.qual}: temperatures in front of / behind the wall reach only functions and bounds of their own phase "
               f"({len(typed)} typed names)", not conf, "; ".join(f"line {c.lineno}: {m}" for c, m in conf)[:400],
               key=f"sides|{fi.qual}")
    # producers: the returned tuple has T+ at position 2 and T- at position 3
    for pname in PRODUCERS:
        fi = S.func(f"{HY}.{pname}")
        st = SideTyper(fi.node, {"Tp": None} if False else {})
        # usage-based: a name passed to a *HighT function is T+, to a *LowT function T-
        use = {}
        for x in ast.walk(fi.node):
            if isinstance(x, ast.Call):
                from ..hydro import use_side
                w = use_side(x)
                if w and x.args and isinstance(x.args[0], ast.Name):
                    use.setdefault(x.args[0].id, set()).add(w)
        rets = st.return_sides()
        bad = []
        pos = (2, 3)
        for r in rets:
            if len(r) < 4:
                continue
            for i, want in zip(pos, ("+", "-")):
                have = r.get(i)
                if have is not None and have != want:
                    bad.append(f"position {i} carries a T{have} value")
        for r_ in own_nodes(fi.node):
            if isinstance(r_, ast.Return) and isinstance(r_.value, ast.Tuple) and len(r_.value.elts) >= 4:
                for i, want in zip(pos, ("+", "-")):
                    e = r_.value.elts[i]
                    if isinstance(e, ast.Name) and e.id in use and use[e.id] != {want} and e.id not in st.side:
                        bad.append(f"`{e.id}` returned at position {i} is used as T{sorted(use[e.id])}")
        chk.ob("R02.4", fi.where(), f"{pname} returns T+ at position 2 and T- at position 3 of its tuple", not bad, "; ".join(bad),
               key=f"producer|{pname}")
    # the 2x2 mapping helpers keep the (T+, T-) order
    for hname in ("_mappingT", "_inverseMappingT"):
        # (read in its written-out form: a loop over the literal pair (T+, T-) that fills one result slot per element is written out)
        fi = written_out(S, S.func(f"{HY}.{hname}"))
        chk.touch(fi.name)
        unpack = [s_ for s_ in own_nodes(fi.node) if isinstance(s_, ast.Assign) and isinstance(s_.targets[0], ast.Tuple)]
        rets = [r for r in own_nodes(fi.node) if isinstance(r, ast.Return)]
        ok = False
        prm = [p for p in fi.params() if p != "self"]
        if len(unpack) == 1 and len(rets) == 1 and isinstance(rets[0].value, ast.List) and len(rets[0].value.elts) == 2 and len(prm) == 1 \
                and eqx(unpack[0].value, prm[0]) and len(unpack[0].targets[0].elts) == 2 and all(isinstance(e, ast.Name) for e in unpack[0].targets[0].elts):
            a = [e.id for e in unpack[0].targets[0].elts]
            cxm = Ctx(S, fi)
            # returned element i depends on input element i only (temporaries looked through)
            dep = [{x.id for x in ast.walk(cxm.resolve(e, keep=set(a))) if isinstance(x, ast.Name)} & (set(a) | {prm[0]}) for e in rets[0].value.elts]
            ok = a[0] != a[1] and dep[0] == {a[0]} and dep[1] == {a[1]}
        chk.ob("R02.4", fi.where(), f"{hname} maps element 0 to element 0 and element 1 to element 1 (order (T+, T-) preserved)", ok,
               key=f"mapping-order|{hname}")
    chk.floor("R02.4", 15)


def r02_56(chk: Check):
    S = chk.src
    fd = S.func(f"{HY}.matchDeflagOrHyb")
    stores = [st for st in own_nodes(fd.node) if isinstance(st, ast.Assign) and eqx(st.targets[0], "self.success")]
    if len(stores) != 1:
        raise AnchorMissing("matchDeflagOrHyb: the store to self.success was not found")
    # the solver result: the local assigned from the root(...) call
    sols = [st.targets[0].id for st in own_nodes(fd.node) if isinstance(st, ast.Assign) and isinstance(st.value, ast.Call) and (dotted(st.value.func) or "").split(".")[-1] == "root"
            and isinstance(st.targets[0], ast.Name)]
    if len(sols) != 1:
        raise AnchorMissing("matchDeflagOrHyb: the result of the root(...) call was not found")
    SOL = sols[0]
    v = Ctx(S, fd).resolve(stores[0].value, keep={SOL})
    chk.ob("R02.5", fd.where(stores[0]), "matchDeflagOrHyb records the convergence of the 2x2 solve in self.success",
           has(v, f"{SOL}.success"), n(v), key="flag-stored")
    # R02.6
    weakened = isinstance(v, ast.BoolOp) and isinstance(v.op, ast.Or)
    abs_tests = [c for c in ast.walk(v) if isinstance(c, ast.Compare) and any(isinstance(k, ast.Constant) for k in [c.left] + c.comparators)
                 and has(c, f"{SOL}.fun")]
    chk.ob("R02.6", fd.where(stores[0]), "acceptance of the 2x2 matching is scale free: the solver's own convergence verdict is not overridden "
           "by comparing the (velocity-squared sized) residual with an absolute literal", not (weakened and abs_tests),
           f"`{n(v)}`: residuals are O(v^2), so at slow walls every iterate passes the absolute test", key="abs-acceptance|matchDeflagOrHyb")
    # R02.5: every outer function that calls matchDeflagOrHyb and hands the tuple on must read the flag (or raise on it)
    for fi in S.modules["hydrodynamics"].funcs.values():
        if fi.parent is not None or fi.cls != "Hydrodynamics" or fi.qual.endswith(".matchDeflagOrHyb"):
            continue
        calls = [c for c in ast.walk(fi.node) if isinstance(c, ast.Call) and eqx(c.func, "self.matchDeflagOrHyb")]
        if not calls:
            continue
        chk.touch(fi.name)
        reads = [x for x in ast.walk(fi.node) if isinstance(x, ast.Attribute) and isinstance(x.ctx, ast.Load) and eqx(x, "self.success")]
        chk.ob("R02.5", fi.where(), f"{fi.qual} calls matchDeflagOrHyb {len(calls)} time(s) and consults self.success before using the result",
               bool(reads), "the convergence flag is written by the callee and never read here", key=f"unread-flag|{fi.qual}")
    chk.floor("R02.5", 3)
    chk.floor("R02.6", 1)


def rules(chk: Check) -> None:
    r1 = chk.stage(r02_1, chk)
    if r1 is not None:
        chk.stage(r02_2, chk, r1[1], r1[2])
    for grp in (r02_3, r02_4, r02_56):
        chk.stage(grp, chk)
    # R02.7: the template model's closed forms are flux conservation with its own equation of state: T- from energy-flux continuity,
    # T+ = Tn w+^(1/mu), the same alpha+(v+, v-) relation in every routine (identities shared with C15 R15.5)
    from ..core import Remap
    from . import c15
    chk.stage(c15.r15_5, Remap(chk, {"R15.5": "R02.7"}))
    chk.floor("R02.7", 4)
    # R02.8: the exact matching is not silently replaced by the template's: sign-tested root searches bracket between the tested points
    from .shared import guarded_brackets
    # (the fallback is never decided on a stale convergence flag)
    from .shared import flag_fresh_before_read
    chk.stage(flag_fresh_before_read, chk, "R02.8")
    from .shared import per_object_state
    chk.stage(per_object_state, chk, "R02.8", ("Hydrodynamics", "HydrodynamicsTemplateModel", "Thermodynamics", "FreeEnergy", "InterpolatableFunction"))
    chk.stage(guarded_brackets, chk, "R02.8", ["hydrodynamics:Hydrodynamics.findMatching", "hydrodynamics:Hydrodynamics.matchDeton",
                                    "hydrodynamics:Hydrodynamics.matchDeflagOrHyb"], floor=2)
    # R02.9: the junction relations contain no new hard-wired absolute scale (an `np.isclose` / bare tolerance applied to an energy density or
    # pressure makes the matching depend on the units of T: shared with C07 R07.4, restricted to the hydrodynamics modules)
    from . import c07
    chk.stage(c07.rules, Remap(chk, {"R07.4": "R02.9"}, only=lambda r, k, w: "hydrodynamics" in str(w)))
    chk.floor("R02.9", 3)
    # R02.10: the v- handed back by matchDeflagOrHyb is the one its junction conditions were solved with: both sites use min(vw^2, csqLowT(T-)) with
    # the solved T- (shared with C06 R06.4)
    from . import c06
    chk.stage(c06.r06_4, Remap(chk, {"R06.4": "R02.10"}))
    chk.floor("R02.10", 1)
