"""C11 -- a traced phase is one genuine minimum, tabulated only where it exists (narrow structural clauses only).

R11.1 every accepted step passes the spinodal test and the step-size test before it is recorded
R11.2 the recorded triple is (ode.t, ode.y, V) with V evaluated at exactly that point (re-minimised or evaluated)
R11.3 range bookkeeping: safety margin 2*dT, genuine-end flags from the clipped requested range, lists joined in increasing T
R11.4 critical temperature: sign change of F_low - F_high scanned downward from TMax and refined on the last step
R11.6 the range bookkeeping lists are per-instance state (no shared mutable class attribute)
R11.5 the tracer's ODE and the spinodal test use the Hessian / mixed derivative at the current point
NOT decided: that each point is a minimum on the same branch, interpolation accuracy, whether a stop is a genuine disappearance.
"""
from __future__ import annotations

import ast

from ..core import AnchorMissing, Check, Undecided, calls_in, dotted, kwarg, own_nodes, src, walk_guarded
from ..flow import CFG, specialise
from ..hydro import n, same_term

LEVEL = "other"
FE = "freeEnergy:FreeEnergy"


def _parts(x: ast.Assign) -> list:
    """the (list, new element) pair of `L = np.concatenate((L, [v]), axis=0)` (the canonical form of np.append(L, [v], axis=0))"""
    return list(x.value.args[0].elts)


def _is_append(x: ast.AST) -> bool:
    return (isinstance(x, ast.Assign) and isinstance(x.value, ast.Call) and n(x.value.func) == "np.concatenate" and x.value.args
            and isinstance(x.value.args[0], ast.Tuple) and len(x.value.args[0].elts) == 2 and n(x.value.args[0].elts[0]) == n(x.targets[0]))


def rules(chk: Check) -> None:
    S = chk.src
    fi = S.func(f"{FE}.tracePhase")
    chk.touch(fi.name)
    g = CFG(fi.node)
    steps = [x for x in g.nodes if isinstance(x, ast.Expr) and n(x.value) == "ode.step()"]
    appends = [x for x in g.nodes if _is_append(x) and n(x.targets[0]) in ("TList", "fieldList", "potentialEffList")]
    if len(steps) != 1 or len(appends) != 3:
        raise AnchorMissing("tracePhase: ode.step() / the three appends (np.append == np.concatenate of a pair) to the recorded lists not found")
    spin_tests = [t for t in g.nodes if g.kind.get(t) == "test" and "spinodalEvent(ode.t, ode.y)" in n(t)]
    size_tests = [t for t in g.nodes if g.kind.get(t) == "test" and "ode.step_size <" in n(t) and "T0" in n(t) and "startingTemperature" not in n(t)]
    ok = len(spin_tests) == 1 and all(g.must_pass(steps[0], a, lambda q: q in spin_tests) for a in appends)
    chk.ob("R11.1", fi.where(), "every path from ode.step() to the recording of a point passes the spinodal test", ok, key="spinodal-before-record")
    ok_b = False
    for st in own_nodes(fi.node):
        if isinstance(st, ast.If) and st.test in spin_tests:
            ok_b = n(st.test).replace(" ", "") == "spinodalEvent(ode.t,ode.y)<=0" and len(st.body) == 1 and isinstance(st.body[0], ast.Break)
    chk.ob("R11.1", fi.where(), "a non-positive smallest Hessian eigenvalue stops the tracing (the point is not recorded)", ok_b, key="spinodal-breaks")
    ok = len(size_tests) == 1 and all(g.must_pass(steps[0], a, lambda q: q in size_tests) for a in appends)
    chk.ob("R11.1", fi.where(), "every recorded point also passed the step-size collapse test", ok, key="stepsize-before-record")
    fs = S.func(f"{FE}.tracePhase.spinodalEvent")
    rets = sorted([r for r in own_nodes(fs.node) if isinstance(r, ast.Return)], key=lambda r: r.lineno)
    okd = False
    for guards, st in walk_guarded(fs.node):
        if isinstance(st, ast.Return) and n(st.value) == "1.0":
            okd = any(pol and n(t) == "not spinodal" for t, pol in guards if not isinstance(t, tuple))
    d2 = [c for c in calls_in(fs.node, "deriv2Field2")]
    ok = okd and len(d2) == 1 and [n(a) for a in d2[0].args] == ["FieldPoint(field)", "temperature"] and n(rets[-1].value).replace(" ", "") == "float(min(eigs))"
    chk.ob("R11.1", fs.where(), "the spinodal event is the smallest eigenvalue of the field Hessian at the current (field, temperature); disabled only by spinodal=False",
           ok, key="spinodal-event")
    a = fi.node.args
    names = [x.arg for x in a.args]
    dfl = dict(zip(names[len(names) - len(a.defaults):], [n(d_) for d_ in a.defaults]))
    chk.ob("R11.1", fi.where(), "spinodal detection and per-step re-minimisation are on by default", dfl.get("spinodal") == "True" and dfl.get("paranoid") == "True", str(dfl),
           key="defaults")
    # ---- R11.2
    want = {"TList": "[ode.t]", "fieldList": "[ode.y]", "potentialEffList": "[potentialEffT]"}
    ok = all(n(_parts(x)[0]) == n(x.targets[0]) and n(_parts(x)[1]) == want[n(x.targets[0])] for x in appends)
    chk.ob("R11.2", fi.where(), "the recorded triple is (ode.t, ode.y, potentialEffT), each appended to its own list", ok, key="triple")
    kinds = []
    okp = True
    nd = 0
    for par in (True, False):
        # `paranoid` selects one of two complementary blocks: analyse each setting on its own (no infeasible paths)
        gs = CFG(specialise(fi.node, "paranoid", par))
        pa = [x for x in gs.nodes if _is_append(x) and n(x.targets[0]) == "potentialEffList"][0]
        rd = gs.reaching_defs(pa, "potentialEffT")
        nd += len(rd)
        for d in rd:
            if d is CFG.ENTRY:
                okp = False
                kinds.append(f"paranoid={par}: undefined on some path")
                continue
            v = d.value
            if isinstance(d.targets[0], ast.Tuple) and isinstance(v, ast.Call) and n(v.func) == "self.effectivePotential.findLocalMinimum":
                argok = [n(x) for x in v.args[:2]] == ["Fields(ode.y)", "ode.t"]
                first = n(d.targets[0].elts[0])
                # ode.y must be replaced by element 0 of the same result on every path to the append
                repl = [x for x in gs.nodes if isinstance(x, ast.Assign) and n(x.targets[0]) == "ode.y" and n(x.value) == f"{first}[0]"]
                follow = gs.must_pass(d, pa, lambda q: q in repl)
                kinds.append(f"paranoid={par}: re-minimised")
                okp = okp and argok and follow and n(d.targets[0].elts[1]) == "potentialEffT"
            elif isinstance(v, ast.Call) and "self.effectivePotential.evaluate(Fields(ode.y), ode.t)" in n(v):
                kinds.append(f"paranoid={par}: evaluated")
            else:
                okp = False
                kinds.append(n(v)[:60])
    chk.ob("R11.2", fi.where(), "the recorded potential is V at the recorded point: either findLocalMinimum(Fields(ode.y), ode.t)[1] with ode.y replaced by "
           "its element 0, or evaluate(Fields(ode.y), ode.t) (both settings of `paranoid`)", okp and nd >= 3, str(kinds), key="value-at-point")
    # ode.y is not modified between those definitions and the append other than by that replacement
    other = [x for x in g.nodes if isinstance(x, (ast.Assign, ast.AugAssign)) and n(x.targets[0] if isinstance(x, ast.Assign) else x.target) == "ode.y"
             and not n(x.value).endswith("[0]")]
    chk.ob("R11.2", fi.where(), "ode.y is only ever overwritten by a re-minimised location", not other, "; ".join(n(x) for x in other), key="no-other-writes")
    # initial point
    init = {n(st.targets[0]): n(st.value) for st in own_nodes(fi.node) if isinstance(st, ast.Assign) and n(st.targets[0]) in ("TList", "fieldList", "potentialEffList", "phase0")
            and st.lineno < steps[0].lineno}
    ok = init.get("TList") == "np.full(1, T0)" and "phase0" in init.get("fieldList", "") and "potential0" in init.get("potentialEffList", "") and init.get("phase0") == "FieldPoint(phase0Temp[0])"
    chk.ob("R11.2", fi.where(), "the table starts with the re-minimised starting point (T0, phase0, potential0)", ok, str(init)[:200], key="initial-point")
    # ---- R11.3
    stores = {}
    for guards, st in walk_guarded(fi.node):
        if isinstance(st, ast.Assign) and n(st.targets[0]).startswith("self.m") and "PossibleTemperature" in n(st.targets[0]):
            gt = [n(t) for t, pol in guards if pol and not isinstance(t, tuple)]
            stores[n(st.targets[0])] = (st.value, gt[-1] if gt else "")
    ok = "self.minPossibleTemperature[0]" in stores and "self.maxPossibleTemperature[0]" in stores and \
        same_term(S, "freeEnergy", "FreeEnergy", stores["self.minPossibleTemperature[0]"][0], "min(TFullList) + 2 * dT") and \
        same_term(S, "freeEnergy", "FreeEnergy", stores["self.maxPossibleTemperature[0]"][0], "max(TFullList) - 2 * dT")
    chk.ob("R11.3", fi.where(), "usable range = [min(T) + 2 dT, max(T) - 2 dT] of the tabulated temperatures (documented safety margin)", bool(ok), key="margin")
    ok = stores.get("self.minPossibleTemperature[1]", (None, ""))[1].replace(" ", "") == "min(TFullList)>TMin" and n(stores["self.minPossibleTemperature[1]"][0]) == "True" and \
        stores.get("self.maxPossibleTemperature[1]", (None, ""))[1].replace(" ", "") == "max(TFullList)<TMax" and n(stores["self.maxPossibleTemperature[1]"][0]) == "True"
    chk.ob("R11.3", fi.where(), "an end is flagged as a genuine end of the phase only when the table stops short of the requested range on that side", ok,
           str({k: v[1] for k, v in stores.items()}), key="flags")
    clip = {n(st.targets[0]): n(st.value).replace(" ", "") for st in own_nodes(fi.node) if isinstance(st, ast.Assign) and n(st.targets[0]) in ("TMin", "TMax")}
    ok = clip.get("TMin") == "max(self.minPossibleTemperature[0],TMin)" and clip.get("TMax") == "min(self.maxPossibleTemperature[0],TMax)"
    chk.ob("R11.3", fi.where(), "the requested range is first clipped to the range already known to be possible", ok, str(clip), key="clip")
    ends = [st for st in own_nodes(fi.node) if isinstance(st, ast.Assign) and n(st.targets[0]) == "endpoints"]
    ok = len(ends) == 1 and n(ends[0].value).replace(" ", "") == "[TMax,TMin]"
    chk.ob("R11.3", fi.where(), "direction 0 integrates up to TMax, direction 1 down to TMin", ok, key="directions")
    joins = {n(st.targets[0]): n(st.value).replace(" ", "") for guards, st in walk_guarded(fi.node) if isinstance(st, ast.Assign)
             and n(st.targets[0]) in ("TFullList", "fieldFullList", "potentialEffFullList") and "np.flip" in n(st.value)}
    ok = joins.get("TFullList") == "np.append(np.flip(TList,0),TFullList,axis=0)" and joins.get("fieldFullList") == "np.append(np.flip(fieldList,axis=0),fieldFullList,axis=0)" \
        and joins.get("potentialEffFullList") == "np.append(np.flip(potentialEffList,axis=0),potentialEffFullList,axis=0)"
    chk.ob("R11.3", fi.where(), "the downward list is reversed and put in front of the upward list for temperatures, fields and potentials alike (increasing T)", ok,
           str(joins)[:300], key="join-order")
    fin = [c for c in calls_in(fi.node, "newInterpolationTableFromValues")]
    res = [st for st in own_nodes(fi.node) if isinstance(st, ast.Assign) and n(st.targets[0]) == "result"]
    ok = len(fin) == 1 and [n(a_) for a_ in fin[0].args] == ["TFullList", "result"] and len(res) == 1 and \
        n(res[0].value).replace(" ", "") == "np.concatenate((fieldFullList,potentialEffFullList),axis=1)"
    chk.ob("R11.3", fi.where(), "the interpolation table is built from (T, [fields..., V]) rows of exactly these lists", ok, key="table")
    # ---- R11.4
    fc = S.func("thermodynamics:Thermodynamics.findCriticalTemperature")
    fd = S.func("thermodynamics:Thermodynamics.findCriticalTemperature.freeEnergyDifference")
    chk.touch(fc.name, fd.name)
    d = {n(st.targets[0]): n(st.value) for st in own_nodes(fd.node) if isinstance(st, ast.Assign)}
    ok = d.get("f1") == "self.freeEnergyHigh(inputT).veffValue" and d.get("f2") == "self.freeEnergyLow(inputT).veffValue" and d.get("diff", "").replace(" ", "") == "f2-f1"
    chk.ob("R11.4", fd.where(), "the scanned function is F_low(T) - F_high(T)", ok, str(d), key="difference")
    dd = {n(st.targets[0]): n(st.value) for st in own_nodes(fc.node) if isinstance(st, ast.Assign) and isinstance(st.targets[0], ast.Name)}
    loop = [x for x in own_nodes(fc.node) if isinstance(x, ast.While)]
    ok = dd.get("T") == "TMax" and dd.get("TStep") == "dT" and len(loop) == 1 and n(loop[0].test).replace(" ", "") == "T-TStep>TMin" \
        and any(isinstance(s_, ast.AugAssign) and isinstance(s_.op, ast.Sub) and n(s_.target) == "T" and n(s_.value) == "TStep" for s_ in loop[0].body)
    chk.ob("R11.4", fc.where(), "the coarse scan starts at TMax and steps downward by dT while staying above TMin", ok, key="scan")
    rs = [c for c in calls_in(fc.node, "root_scalar")]
    ok = len(rs) == 1 and n(rs[0].args[0]) == "freeEnergyDifference" and n(kwarg(rs[0], "bracket")).replace(" ", "") == "(T,T+TStep)"
    chk.ob("R11.4", fc.where(), "the crossing is refined by a bracketed root on the last step [T, T + dT]", ok, key="refine")
    raises = [x for x in own_nodes(fc.node) if isinstance(x, ast.If) and any(isinstance(b, ast.Raise) for b in x.body)]
    ok = any(n(x.test).replace(" ", "") == "notbConverged" for x in raises) and any("converged" in n(x.test) for x in raises)
    chk.ob("R11.4", fc.where(), "no sign change, or a non-converged refinement, raises instead of returning a temperature", ok, key="raises")
    tr = [c for c in calls_in(fc.node, "tracePhase")]
    ok = len(tr) == 2 and all(kwarg(c, "spinodal") is not None and n(kwarg(c, "spinodal")) == "True" for c in tr)
    chk.ob("R11.4", fc.where(), "phases traced here stop at spinodals", ok, key="trace-spinodal")
    # ---- R11.5
    fo = S.func(f"{FE}.tracePhase.odeFunction")
    c = [x for x in calls_in(fo.node, "allSecondDerivatives")]
    rets = [r for r in own_nodes(fo.node) if isinstance(r, ast.Return)]
    ok = len(c) == 1 and [n(a_) for a_ in c[0].args] == ["FieldPoint(field)", "temperature"] and len(rets) == 1 and \
        "scipylinalg.solve(hess, -dgraddT" in n(rets[0].value)
    chk.ob("R11.5", fo.where(), "tracer ODE: d phi/dT = -H^{-1} d(grad V)/dT with H and the mixed derivative at the current (field, temperature)", ok, key="ode")
    fa = S.func("effectivePotential:EffectivePotential.allSecondDerivatives")
    chk.touch(fa.name)
    d = {n(st.targets[0]): n(st.value).replace(" ", "") for st in own_nodes(fa.node) if isinstance(st, ast.Assign)}
    ok = d.get("hess") == "res[...,:-1,:-1]" and d.get("dgraddT") == "res[...,-1,:-1]" and d.get("d2VdT2") == "res[...,-1,-1]"
    chk.ob("R11.5", fa.where(), "allSecondDerivatives splits the (fields + T) Hessian into field block, mixed row and TT entry", ok, str(d), key="hessian-split")
    rk = [c_ for c_ in calls_in(fi.node, "RK45")]
    ok = len(rk) == 1 and [n(a_) for a_ in rk[0].args[:4]] == ["odeFunction", "T0", "phase0", "TEnd"]
    chk.ob("R11.5", fi.where(), "the integrator starts at (T0, phase0) and runs to the end of the requested direction", ok, key="rk45")
    # ---- R11.6 per-phase state: the range bookkeeping lists belong to the instance (two phases are traced one after the other)
    from ..core import shared_mutable_class_state
    shared = shared_mutable_class_state(S)
    mine = [h for h in shared if h[2] in ("FreeEnergy", "InterpolatableFunction", "Thermodynamics")]
    chk.ob("R11.6", f"src/WallGo/freeEnergy.py", "range bookkeeping (minPossibleTemperature / maxPossibleTemperature) and table state are per-instance: no mutable "
           "class-level attribute is mutated in place by the methods (the two phases must not share one [T, flag] list)", not mine,
           "; ".join(f"{f.qual} mutates class-level `{a}` of {c}" for f, x, c, a in mine)[:300], key="per-instance-state")
    fin = S.func(f"{FE}.__init__")
    created = {t.attr for s_ in ast.walk(fin.node) if isinstance(s_, ast.Assign) for t in s_.targets
               if isinstance(t, ast.Attribute) and isinstance(t.value, ast.Name) and t.value.id == "self"}
    chk.ob("R11.6", fin.where(), "FreeEnergy.__init__ creates fresh [T, flag] lists for minPossibleTemperature and maxPossibleTemperature",
           {"minPossibleTemperature", "maxPossibleTemperature"} <= created, str(sorted(created))[:200], key="lists-created")
    chk.floor("R11.6", 2)
    chk.floor("R11.1", 5)
    chk.floor("R11.2", 4)
    chk.floor("R11.3", 6)
    chk.floor("R11.4", 5)
    chk.floor("R11.5", 3)
