"""C11 -- a traced phase is one genuine minimum, tabulated only where it exists (narrow structural clauses only).

R11.1 every accepted step passes the spinodal test and the step-size test before it is recorded
R11.2 the recorded triple is (ode.t, ode.y, V) with V evaluated at exactly that point (re-minimised or evaluated)
R11.3 range bookkeeping: safety margin 2*dT, genuine-end flags from the clipped requested range, lists joined in increasing T
R11.4 critical temperature: sign change of F_low - F_high scanned downward from TMax and refined on the last step
R11.6 the range bookkeeping lists are per-instance state (no shared mutable class attribute)
R11.7 results of root finders / minimisers stored in locals are read (no refined value is dropped)
R11.5 the tracer's ODE and the spinodal test use the Hessian / mixed derivative at the current point
NOT decided: that each point is a minimum on the same branch, interpolation accuracy, whether a stop is a genuine disappearance.
"""
from __future__ import annotations

import ast
import copy

from ..core import AnchorMissing, Check, Undecided, calls_in, dotted, kwarg, own_nodes, src, walk_guarded
from ..flow import CFG, specialise
from ..hydro import n, same_term
from ..nf import Ctx, eqx, has, match, same

LEVEL = "other"
FE = "freeEnergy:FreeEnergy"


def _nested(fi, S, pred):
    """nested functions of fi (by role): those whose body satisfies pred"""
    return [f for q, f in S.modules[fi.module].funcs.items() if f.parent is fi and pred(f)]


def _callable(S, fi, expr):
    """FuncInfo of a callable value used inside fi: a nested function of fi, a method of the same class (`self.m`), a module-level function;
    functools.partial(f, ...) stands for f"""
    if expr is None:
        return None
    if isinstance(expr, ast.Call) and (dotted(expr.func) or "").split(".")[-1] == "partial" and expr.args:
        expr = expr.args[0]
    funcs = S.modules[fi.module].funcs
    if isinstance(expr, ast.Name):
        for q, f in funcs.items():
            if getattr(f.node, "name", None) == expr.id and (f.parent is fi or "." not in q):
                return f
    if isinstance(expr, ast.Attribute) and isinstance(expr.value, ast.Name) and expr.value.id == "self":
        return funcs.get(f"{fi.qual.split('.')[0]}.{expr.attr}")
    return None


def _pairs(st: ast.Assign) -> list:
    """(target, value) pairs of an assignment: element-wise for `a, b = e1, e2`, else the single pair"""
    if len(st.targets) != 1:
        return []
    t, v = st.targets[0], st.value
    if isinstance(t, (ast.Tuple, ast.List)) and isinstance(v, (ast.Tuple, ast.List)) and len(t.elts) == len(v.elts):
        return list(zip(t.elts, v.elts))
    return [(t, v)]


def _origin(g, d, name: str, depth: int = 0):
    """(statement, right-hand side, position) that defines `name` at definition d: position k when the statement unpacks a non-tuple value
    (`a, b = call(...)` -> `b` is position 1 of the call); plain copies `x = y` / components `x, .. = y, ..` of locals are followed"""
    if not isinstance(d, ast.Assign) or len(d.targets) != 1 or depth > 4:
        return None
    t, v = d.targets[0], d.value
    if isinstance(t, (ast.Tuple, ast.List)) and not (isinstance(v, (ast.Tuple, ast.List)) and len(v.elts) == len(t.elts)):
        for k, e_ in enumerate(t.elts):
            if isinstance(e_, ast.Name) and e_.id == name:
                return d, v, k
        return None
    for t_, v_ in _pairs(d):
        if isinstance(t_, ast.Name) and t_.id == name:
            if isinstance(v_, ast.Name):
                defs = g.reaching_defs(d, v_.id)
                outs = [_origin(g, d2, v_.id, depth + 1) for d2 in defs if d2 is not CFG.ENTRY]
                if len(outs) == 1 and outs[0] is not None:
                    return outs[0]
                return None
            return d, v_, None
    return None


_PURE = (ast.Name, ast.Constant, ast.BinOp, ast.UnaryOp, ast.Tuple, ast.List, ast.operator, ast.unaryop, ast.expr_context)


def _value_at(g, e, at, depth: int = 0):
    """copy of `e` (read at CFG node `at`) in which a local that merely holds a saved arithmetic value (`lo, hi = T, T + step`, `span = (T, T + step)`;
    exactly one reaching definition, right-hand side built from names, numbers, + - * / and tuples only) is replaced by that value -- but only when every
    name the saved value reads has, on entry of the saving statement, exactly the definitions that reach `at`: then the saved value IS the value the
    expression has at `at`.  A bracket end saved BEFORE the scanning loop holds the start temperature, not the final one; it is left alone (and the
    comparison that follows fails)."""
    if e is None or at is None or depth > 4:
        return e

    def saved(name: str):
        ds = g.reaching_defs(at, name)
        if len(ds) != 1 or ds[0] is CFG.ENTRY:
            return None
        d = ds[0]
        if isinstance(d, ast.AnnAssign) and isinstance(d.target, ast.Name) and d.target.id == name and d.value is not None:
            pairs = [(d.target, d.value)]
        elif isinstance(d, ast.Assign):
            pairs = _pairs(d)
        else:
            return None
        vals = [v_ for t_, v_ in pairs if isinstance(t_, ast.Name) and t_.id == name]
        if len(vals) != 1 or not all(isinstance(x, _PURE) for x in ast.walk(vals[0])):
            return None
        v = vals[0]
        for y in {x.id for x in ast.walk(v) if isinstance(x, ast.Name)}:
            if set(map(id, g.reaching_defs(d, y))) != set(map(id, g.reaching_defs(at, y))):
                return None
        return _value_at(g, v, d, depth + 1)

    class R(ast.NodeTransformer):
        def visit_Name(self, x):
            if isinstance(x.ctx, ast.Load):
                v = saved(x.id)
                if v is not None:
                    return v
            return x

    return R().visit(copy.deepcopy(e))


def _written_out(S, fi):
    """fi with every `for` loop over literal cases written out case by case (c01.normalised; fi itself when there is none)"""
    from . import c01
    return c01.normalised(S, fi)


def _through_alias(fi, cx, target):
    """the store target `L[k]` with L replaced by the attribute path of `self` it names, when L is a local assigned exactly once, outside any loop,
    with a plain attribute path of `self` (a list: the local and the attribute are then one object) and the function never re-binds that
    attribute itself; any other target is returned as it is"""
    if not (isinstance(target, ast.Subscript) and isinstance(target.value, ast.Name)):
        return target
    v = cx.local_defs().get(target.value.id)
    path = v
    while isinstance(path, ast.Attribute):
        path = path.value
    if not (isinstance(v, ast.Attribute) and isinstance(path, ast.Name) and path.id == "self"):
        return target
    txt = n(v)
    for x in ast.walk(fi.node):
        tgs = x.targets if isinstance(x, ast.Assign) else [x.target] if isinstance(x, (ast.AugAssign, ast.AnnAssign, ast.For, ast.NamedExpr)) else \
            x.targets if isinstance(x, ast.Delete) else []
        for t in tgs:
            if any(isinstance(y, ast.Attribute) and n(y) == txt for y in ast.walk(t) if not isinstance(getattr(y, "ctx", None), ast.Load)):
                return target
    out = copy.copy(target)
    out.value = copy.deepcopy(v)
    return out


def _directions(fi, rk_stmt, cx):
    """(end temperature of pass 0, of pass 1, name of the pass index) of the `for` loop around the integrator"""
    loops = [x for x in own_nodes(fi.node) if isinstance(x, ast.For) and any(y is rk_stmt for y in ast.walk(x))]
    if len(loops) != 1:
        return [], None
    lp = loops[0]
    tend = rk_stmt.value.args[3] if len(rk_stmt.value.args) > 3 else None
    it = cx.resolve(lp.iter)
    if isinstance(it, ast.Call) and n(it.func) == "enumerate" and isinstance(lp.target, ast.Tuple) and len(lp.target.elts) == 2 and isinstance(it.args[0], (ast.List, ast.Tuple)):
        idx, var = lp.target.elts
        if isinstance(tend, ast.Name) and isinstance(var, ast.Name) and var.id == tend.id:
            return [n(e_) for e_ in it.args[0].elts], n(idx)
        return [], None
    seq = None
    if isinstance(it, (ast.List, ast.Tuple)) and all(isinstance(e_, ast.Constant) for e_ in it.elts):
        seq = [e_.value for e_ in it.elts]
    elif eqx(it, "range(2)"):
        seq = [0, 1]
    if seq == [0, 1] and isinstance(lp.target, ast.Name) and tend is not None:
        # TEnd = L[direction] with L a two-element list
        e = cx.resolve(tend)
        inner = [st for st in lp.body if isinstance(st, ast.Assign) and isinstance(tend, ast.Name) and n(st.targets[0]) == tend.id]
        if inner:
            e = cx.resolve(inner[0].value)
        if isinstance(e, ast.Subscript) and isinstance(e.value, (ast.List, ast.Tuple)) and len(e.value.elts) == 2 and eqx(e.slice, lp.target.id):
            return [n(x) for x in e.value.elts], lp.target.id
    return [], None


def _raises_unless(g, fn, rs_call, loop) -> bool:
    """findCriticalTemperature: (a) the refinement is reached only through the `break` taken on a sign change,
    (b) a temperature is returned only after the refinement reported convergence"""
    rs_node = g.node_of(rs_call)
    if rs_node is None or loop is None:
        return False
    brks = [x for x in ast.walk(loop) if isinstance(x, ast.Break)]
    sign_tests = [t for t in g.nodes if g.kind.get(t) == "test" and isinstance(t, ast.Compare) and has(t, "np.sign") and isinstance(t.ops[0], (ast.NotEq, ast.Eq))]
    ok_a = False
    if len(brks) == 1 and len(sign_tests) == 1:
        t = sign_tests[0]
        pol = isinstance(t.ops[0], ast.NotEq)
        # the break is only reached on the sign-change branch
        ok_brk = not g.reaches(g.branch(t, not pol), brks[0], avoid=lambda q: q is t) and g.must_pass(CFG.ENTRY, brks[0], lambda q: q is t)
        if g.must_pass(CFG.ENTRY, rs_node, lambda q: q is brks[0]):
            ok_a = ok_brk
        else:
            # flag idiom: F = False before the loop, F = True only next to the break, `if not F: raise` between loop and refinement
            for ft in [q for q in g.nodes if g.kind.get(q) == "test" and isinstance(q, ast.UnaryOp) and isinstance(q.op, ast.Not) and isinstance(q.operand, ast.Name)]:
                F = q_name = ft.operand.id
                sets = [x for x in own_nodes(fn.node) if isinstance(x, ast.Assign) and n(x.targets[0]) == F]
                trues = [x for x in sets if eqx(x.value, "True")]
                falses = [x for x in sets if eqx(x.value, "False")]
                if len(trues) + len(falses) != len(sets) or not trues or not falses:
                    continue
                raise_branch = g.branch(ft, True)
                if (g.must_pass(CFG.ENTRY, rs_node, lambda q: q is ft) and not g.reaches(raise_branch, rs_node) and not g.reaches(raise_branch, CFG.EXIT)
                        and all(g.must_pass(CFG.ENTRY, x, lambda q: q is t) and not g.reaches(g.branch(t, not pol), x, avoid=lambda q: q is t) for x in trues)
                        and all(x.lineno < loop.lineno for x in falses)):
                    ok_a = ok_brk
    conv = [q for q in g.nodes if g.kind.get(q) == "test" and has(q, "__r.converged".replace("__r", _result_name(fn, rs_call) or "__none__"))]
    ok_b = False
    for q in conv:
        pol = not (isinstance(q, ast.UnaryOp) and isinstance(q.op, ast.Not))      # polarity on which the result is converged
        if g.must_pass(rs_node, CFG.EXIT, lambda z: z is q) and not g.reaches(g.branch(q, not pol), CFG.EXIT):
            ok_b = True
    return ok_a and ok_b


def _converged_before_return(g, fn, rs_call) -> bool:
    rs_node = g.node_of(rs_call)
    if rs_node is None:
        return False
    conv = [q for q in g.nodes if g.kind.get(q) == "test" and has(q, "__r.converged".replace("__r", _result_name(fn, rs_call) or "__none__"))]
    for q in conv:
        pol = not (isinstance(q, ast.UnaryOp) and isinstance(q.op, ast.Not))      # polarity on which the result is converged
        if g.must_pass(rs_node, CFG.EXIT, lambda z: z is q) and not g.reaches(g.branch(q, not pol), CFG.EXIT):
            return True
    return False


def _helper_returns_only_on_sign_change(g, helper, loop, fn_name: str) -> bool:
    """the scanning helper returns a temperature only from the branch on which the sign of the scanned function differs from its sign at the
    start; every other way out raises"""
    if loop is None:
        return False
    sign_tests = [t for t in g.nodes if g.kind.get(t) == "test" and isinstance(t, ast.Compare) and has(t, "np.sign") and isinstance(t.ops[0], (ast.NotEq, ast.Eq))
                  and any(isinstance(c_, ast.Call) and isinstance(c_.func, ast.Name) and c_.func.id == fn_name for c_ in ast.walk(t))]
    if len(sign_tests) != 1:
        return False
    t = sign_tests[0]
    pol = isinstance(t.ops[0], ast.NotEq)
    return g.must_pass(CFG.ENTRY, CFG.EXIT, lambda q: q is t) and not g.reaches(g.branch(t, not pol), CFG.EXIT, avoid=lambda q: q is t)


def _result_name(fn, call):
    for st in own_nodes(fn.node):
        if isinstance(st, ast.Assign) and st.value is call and isinstance(st.targets[0], ast.Name):
            return st.targets[0].id
    return None


def rules(chk: Check) -> None:
    S = chk.src
    fi = S.func(f"{FE}.tracePhase")
    chk.touch(fi.name)
    cx = Ctx(S, fi)
    g = CFG(fi.node)
    # ---- roles (variables are identified by what is assigned to them, not by their spelling)
    rk = [x for x in own_nodes(fi.node) if isinstance(x, ast.Assign) and isinstance(x.value, ast.Call) and (dotted(x.value.func) or "").endswith("RK45")
          and isinstance(x.targets[0], ast.Name)]
    if len(rk) != 1:
        raise AnchorMissing("tracePhase: the RK45 integrator assignment not found")
    ODE = rk[0].targets[0].id
    steps = [x for x in g.nodes if isinstance(x, ast.Expr) and eqx(x.value, f"{ODE}.step()")]
    appends = {}      # role -> (statement, list name, appended expression)
    loop_ids = {id(y) for w in own_nodes(fi.node) if isinstance(w, ast.While) for y in ast.walk(w)}
    cat = []          # every `L = concatenate((L', [v]), axis=0)` of the integration loop
    for x in g.nodes:
        if (isinstance(x, ast.Assign) and isinstance(x.targets[0], ast.Name) and id(x) in loop_ids and isinstance(x.value, ast.Call) and eqx(x.value.func, "np.concatenate")
                and x.value.args and isinstance(x.value.args[0], ast.Tuple) and len(x.value.args[0].elts) == 2 and isinstance(x.value.args[0].elts[1], ast.List)
                and len(x.value.args[0].elts[1].elts) == 1 and eqx(kwarg(x.value, "axis", 1), "0")):
            cat.append((x, x.targets[0].id, x.value.args[0].elts[0], x.value.args[0].elts[1].elts[0]))
    own_list = True
    for x, L, src_list, v in cat:
        own_list = own_list and eqx(src_list, L)
        role = "T" if eqx(v, f"{ODE}.t") else "field" if eqx(v, f"{ODE}.y") else "V" if isinstance(v, ast.Name) else f"?{n(v)}"
        if role in appends:
            role = role + "'"
        appends[role] = (x, L, n(v))
    if len(steps) != 1 or len(cat) != 3:
        raise AnchorMissing("tracePhase: ode.step() / the three appends (np.append == np.concatenate of a pair) to the recorded lists not found")
    if set(appends) != {"T", "field", "V"}:
        chk.ob("R11.2", fi.where(), "the recorded triple is (ode.t, ode.y, V), each appended to its own list", False, str({k: n(v[0]) for k, v in appends.items()}), key="triple")
        return
    APP = [appends[k][0] for k in ("T", "field", "V")]
    TL, FL, VL, VT = appends["T"][1], appends["field"][1], appends["V"][1], appends["V"][2]
    # the ODE right-hand side: whatever callable is handed to RK45 (nested function, method, module-level function, functools.partial of one)
    rkc0 = rk[0].value
    fo = _callable(S, fi, cx.resolve(rkc0.args[0]) if rkc0.args else None) or _callable(S, fi, rkc0.args[0] if rkc0.args else None)
    if fo is None or not any(True for _ in calls_in(fo.node, "allSecondDerivatives")):
        raise AnchorMissing("tracePhase: the ODE right-hand side handed to RK45 (calls allSecondDerivatives) not found")
    # the spinodal test, with the parameter `spinodal` fixed to True (its default): the parameter may guard the test in any spelling
    # (`if not spinodal: return 1.0` in a helper, `spinodal and ...`, an enclosing `if spinodal:`)
    if any(isinstance(x, ast.Name) and x.id == "spinodal" and isinstance(x.ctx, ast.Store) for x in ast.walk(fi.node)):
        raise Undecided("tracePhase: the parameter `spinodal` is re-bound")
    fT = specialise(fi.node, "spinodal", True)
    gT = CFG(fT)
    fiT = copy.copy(fi)
    fiT.node = fT
    cT = Ctx(S, fiT)
    stepsT = [x for x in gT.nodes if isinstance(x, ast.Expr) and eqx(x.value, f"{ODE}.step()")]
    APPT = [x for x in gT.nodes if isinstance(x, ast.Assign) and any(same(x, a_) for a_ in APP)]
    if len(stepsT) != 1 or len(APPT) != 3:
        raise AnchorMissing("tracePhase (spinodal=True): ode.step() / the three appends not found")
    EIG = f"float(min(scipylinalg.eigvalsh(self.effectivePotential.deriv2Field2(FieldPoint({ODE}.y), {ODE}.t))))"
    nestedT = {x.name: x for x in ast.walk(fT) if isinstance(x, (ast.FunctionDef, ast.Lambda)) and x is not fT and hasattr(x, "name")}

    def eigen(e) -> bool:
        """e is the smallest eigenvalue of the field Hessian at the integrator's current (ode.y, ode.t)"""
        if eqx(e, EIG, cT):
            return True
        if isinstance(e, ast.Call):
            f = None
            if isinstance(e.func, ast.Name) and e.func.id in nestedT:
                f = nestedT[e.func.id]
                ps = [a_.arg for a_ in f.args.args]
            else:
                fm = _callable(S, fi, e.func)
                if fm is not None and fm is not fi:
                    f, ps = fm.node, [a_.arg for a_ in fm.node.args.args if a_.arg != "self"]
            if f is None or e.keywords or len(e.args) != len(ps):
                return False
            # a straight-line helper with one return: evaluate its return value with the arguments bound
            rets_ = [r for r in own_nodes(f) if isinstance(r, ast.Return)]
            if len(rets_) != 1 or f.body[-1] is not rets_[0] or any(isinstance(x, (ast.If, ast.For, ast.While, ast.Try, ast.With)) for x in f.body):
                return False
            ff = copy.copy(fi)
            ff.node = f
            bind = {p_: cT.resolve(a_) for p_, a_ in zip(ps, e.args)}
            val = Ctx(S, ff).resolve(rets_[0].value)

            class B(ast.NodeTransformer):
                def visit_Name(self, node):
                    return copy.deepcopy(bind[node.id]) if node.id in bind and isinstance(node.ctx, ast.Load) else node
            return eqx(B().visit(copy.deepcopy(val)), EIG, cT)
        return False

    spin_tests, spin_pol = [], {}
    for t in gT.nodes:
        if gT.kind.get(t) != "test":
            continue
        core_t, flip = cT.resolve(t) if isinstance(t, ast.Name) else t, False
        while isinstance(core_t, ast.UnaryOp) and isinstance(core_t.op, ast.Not):
            core_t, flip = core_t.operand, not flip
        if isinstance(core_t, ast.Compare) and len(core_t.ops) == 1:
            l_, o_, r_ = core_t.left, core_t.ops[0], core_t.comparators[0]
            if eqx(l_, "0") and not eqx(r_, "0"):
                l_, r_, o_ = r_, l_, {ast.Lt: ast.Gt, ast.Gt: ast.Lt, ast.LtE: ast.GtE, ast.GtE: ast.LtE}.get(type(o_), type(None))()
            if eqx(r_, "0") and isinstance(o_, (ast.LtE, ast.Gt)) and eigen(l_):
                spin_tests.append(t)
                spin_pol[id(t)] = (not flip) if isinstance(o_, ast.LtE) else flip       # the branch on which the eigenvalue is <= 0
    ok = len(spin_tests) == 1 and all(gT.must_pass(stepsT[0], a_, lambda q: q in spin_tests) for a_ in APPT)
    chk.ob("R11.1", fi.where(), "every path from ode.step() to the recording of a point passes the spinodal test", ok, key="spinodal-before-record")
    # the branch of the test on which the eigenvalue is <= 0 never reaches a recording without first taking another step
    ok_b = False
    if len(spin_tests) == 1:
        t = spin_tests[0]
        ok_b = not any(gT.reaches(gT.branch(t, spin_pol[id(t)]), a_, avoid=lambda q: q is stepsT[0]) for a_ in APPT)
    chk.ob("R11.1", fi.where(), "a non-positive smallest Hessian eigenvalue stops the tracing (the point is not recorded)", ok_b, key="spinodal-breaks")
    wl = [w for w in own_nodes(fi.node) if isinstance(w, ast.While) and any(y is steps[0] for y in ast.walk(w))]
    in_loop = {id(y) for w in wl for y in ast.walk(w)}
    size_tests = [t for t in g.nodes if g.kind.get(t) == "test" and id(t) in in_loop
                  and any(isinstance(c_, ast.Compare) and has(c_, f"{ODE}.step_size") for c_ in ast.walk(cx.resolve(t)))]
    ok = len(size_tests) == 1 and all(g.must_pass(steps[0], a, lambda q: q in size_tests) for a in APP) and has(size_tests[0], f"{ODE}.step_size < 1e-16 * T0", cx)
    chk.ob("R11.1", fi.where(), "every recorded point also passed the step-size collapse test", ok, key="stepsize-before-record")
    chk.ob("R11.1", fi.where(), "the spinodal event is the smallest eigenvalue of the field Hessian at the current (field, temperature); disabled only by spinodal=False",
           len(spin_tests) == 1, "with spinodal=True exactly one test compares float(min(eigvalsh(deriv2Field2(FieldPoint(ode.y), ode.t)))) with 0", key="spinodal-event")
    a = fi.node.args
    names = [x.arg for x in a.args]
    dfl = dict(zip(names[len(names) - len(a.defaults):], [n(d_) for d_ in a.defaults]))
    chk.ob("R11.1", fi.where(), "spinodal detection and per-step re-minimisation are on by default", dfl.get("spinodal") == "True" and dfl.get("paranoid") == "True", str(dfl),
           key="defaults")
    # ---- R11.2
    chk.ob("R11.2", fi.where(), "the recorded triple is (ode.t, ode.y, V), each appended to its own list",
           len({TL, FL, VL}) == 3 and own_list, f"lists {TL}, {FL}, {VL}; recorded potential `{VT}`", key="triple")
    kinds = []
    okp = True
    nd = 0
    for par in (True, False):
        # `paranoid` selects one of two complementary blocks: analyse each setting on its own (no infeasible paths)
        gs = CFG(specialise(fi.node, "paranoid", par))
        pa = [x for x in gs.nodes if isinstance(x, ast.Assign) and same(x, appends["V"][0])][0]
        rd = gs.reaching_defs(pa, VT)
        nd += len(rd)
        for d in rd:
            if d is CFG.ENTRY:
                okp = False
                kinds.append(f"paranoid={par}: undefined on some path")
                continue
            # the value stored in VT by d: a component of a parallel assignment, followed through plain copies of locals
            org = _origin(gs, d, VT)
            if org is None:
                okp = False
                kinds.append(n(getattr(d, "value", d))[:60])
                continue
            st0, v, pos = org          # defining statement, its right-hand side, position in an unpacked call result (or None)
            if pos == 1 and isinstance(v, ast.Call) and eqx(v.func, "self.effectivePotential.findLocalMinimum"):
                argok = len(v.args) >= 2 and eqx(v.args[0], f"Fields({ODE}.y)") and eqx(v.args[1], f"{ODE}.t")
                first = n(st0.targets[0].elts[0])
                # ode.y must be replaced by element 0 of the same result on every path to the append
                repl = [x for x in gs.nodes if isinstance(x, ast.Assign) and any(eqx(t_, f"{ODE}.y") and eqx(v_, f"{first}[0]") for t_, v_ in _pairs(x))]
                follow = gs.must_pass(st0, pa, lambda q: q in repl)
                kinds.append(f"paranoid={par}: re-minimised")
                okp = okp and argok and follow
            elif pos is None and has(v, f"self.effectivePotential.evaluate(Fields({ODE}.y), {ODE}.t)"):
                kinds.append(f"paranoid={par}: evaluated")
            else:
                okp = False
                kinds.append(n(v)[:60])
    chk.ob("R11.2", fi.where(), "the recorded potential is V at the recorded point: either findLocalMinimum(Fields(ode.y), ode.t)[1] with ode.y replaced by "
           "its element 0, or evaluate(Fields(ode.y), ode.t) (both settings of `paranoid`)", okp and nd >= 3, str(kinds), key="value-at-point")
    # ode.y is not modified between those definitions and the append other than by that replacement
    other = []
    for x in g.nodes:
        if isinstance(x, ast.AugAssign) and eqx(x.target, f"{ODE}.y"):
            other.append(x)
        elif isinstance(x, ast.Assign):
            for t_, v_ in _pairs(x):
                if eqx(t_, f"{ODE}.y") and not (isinstance(v_, ast.Subscript) and eqx(v_.slice, "0")):
                    other.append(x)
    chk.ob("R11.2", fi.where(), "ode.y is only ever overwritten by a re-minimised location", not other, "; ".join(n(x) for x in other), key="no-other-writes")
    # initial point
    first_step_line = steps[0].lineno
    init = {}
    for st in own_nodes(fi.node):
        if isinstance(st, ast.Assign) and isinstance(st.targets[0], ast.Name) and st.targets[0].id in (TL, FL, VL) and st.lineno < first_step_line and st.targets[0].id not in init:
            init[st.targets[0].id] = st.value
    rkc = rk[0].value
    T0e, PH0 = rkc.args[1] if len(rkc.args) > 1 else None, rkc.args[2] if len(rkc.args) > 2 else None
    # the starting point: (location, value) = findLocalMinimum(starting guess, starting temperature)
    start = [st for st in fi.node.body if isinstance(st, ast.Assign) and isinstance(st.targets[0], ast.Tuple) and len(st.targets[0].elts) == 2
             and all(isinstance(e_, ast.Name) for e_ in st.targets[0].elts) and isinstance(st.value, ast.Call) and eqx(st.value.func, "self.effectivePotential.findLocalMinimum")
             and len(st.value.args) >= 2 and eqx(st.value.args[0], "self.startingPhaseLocationGuess") and eqx(st.value.args[1], "self.startingTemperature", cx)]
    okI = False
    if len(start) == 1 and T0e is not None and PH0 is not None:
        loc, val = (e_.id for e_ in start[0].targets[0].elts)
        okI = set(init) == {TL, FL, VL} and eqx(T0e, "self.startingTemperature", cx) and eqx(PH0, f"FieldPoint({loc}[0])", cx) \
            and eqx(init[TL], f"np.full(1, {n(T0e)})") and isinstance(init[FL], ast.Call) and n(init[FL].func) == "np.full" and has(init[FL], n(PH0)) \
            and isinstance(init[VL], ast.Call) and n(init[VL].func) == "np.full" and has(init[VL], val)
    chk.ob("R11.2", fi.where(), "the table starts with the re-minimised starting point (T0, phase0, potential0)", bool(okI), str({k: n(v) for k, v in init.items()})[:200],
           key="initial-point")
    # ---- R11.3
    # the end bookkeeping is read off the written-out form of the function: a `for` over a literal tuple of (limit list, condition) cases that
    # merges the two copy-pasted blocks is one copy of its body per case again; a store through a local that merely names one of the two
    # limit lists (`L = self.minPossibleTemperature; L[1] = True`) is a store to that attribute
    fiW = _written_out(S, fi)
    cw = cx if fiW is fi else Ctx(S, fiW)
    stores = {}
    for guards, st in walk_guarded(fiW.node):
        if not (isinstance(st, ast.Assign) and len(st.targets) == 1):
            continue
        tg = n(_through_alias(fiW, cw, st.targets[0]))
        if tg.startswith("self.m") and "PossibleTemperature" in tg:
            gt = [t for t, pol in guards if pol and not isinstance(t, tuple)]
            stores[tg] = (st.value, gt[-1] if gt else None)
    # the joined list of temperatures: the argument of min(...) in the stored lower end
    TF = None
    if "self.minPossibleTemperature[0]" in stores:
        b = match(stores["self.minPossibleTemperature[0]"][0], "min(__TF) + 2 * dT", cw)
        TF = b["TF"] if b else None
    ok = TF is not None and "self.maxPossibleTemperature[0]" in stores and eqx(stores["self.maxPossibleTemperature[0]"][0], f"max({TF}) - 2 * dT", cw)
    chk.ob("R11.3", fi.where(), "usable range = [min(T) + 2 dT, max(T) - 2 dT] of the tabulated temperatures (documented safety margin)", bool(ok), key="margin")
    TF = TF or "TFullList"
    lo, hi = stores.get("self.minPossibleTemperature[1]", (None, None)), stores.get("self.maxPossibleTemperature[1]", (None, None))
    ok = lo[1] is not None and hi[1] is not None and eqx(lo[1], f"min({TF}) > TMin", cw) and eqx(lo[0], "True") and eqx(hi[1], f"max({TF}) < TMax", cw) and eqx(hi[0], "True")
    chk.ob("R11.3", fi.where(), "an end is flagged as a genuine end of the phase only when the table stops short of the requested range on that side", ok,
           str({k: n(v[1]) if v[1] is not None else "" for k, v in stores.items()}), key="flags")
    clip = {st.targets[0].id: st.value for st in own_nodes(fi.node) if isinstance(st, ast.Assign) and isinstance(st.targets[0], ast.Name) and st.targets[0].id in ("TMin", "TMax")}
    ok = eqx(clip.get("TMin"), "max(self.minPossibleTemperature[0], TMin)") and eqx(clip.get("TMax"), "min(self.maxPossibleTemperature[0], TMax)")
    chk.ob("R11.3", fi.where(), "the requested range is first clipped to the range already known to be possible", ok, str({k: n(v) for k, v in clip.items()}), key="clip")
    # direction bookkeeping: which end each pass integrates to, and how the two passes are joined
    dirs, DIR = _directions(fi, rk[0], cx)
    chk.ob("R11.3", fi.where(), "direction 0 integrates up to TMax, direction 1 down to TMin", dirs == ["TMax", "TMin"], str(dirs), key="directions")
    joins = {}
    for guards, st in walk_guarded(fi.node):
        if isinstance(st, ast.Assign) and isinstance(st.targets[0], ast.Name) and has(st.value, "np.flip"):
            second = any((not pol and eqx(t, f"{DIR} == 0")) or (pol and (eqx(t, f"{DIR} == 1") or eqx(t, f"{DIR} != 0") or eqx(t, f"{DIR} > 0")))
                         for t, pol in guards if not isinstance(t, tuple))
            for role, lst in (("T", TL), ("field", FL), ("V", VL)):
                if second and eqx(st, f"{st.targets[0].id} = np.concatenate((np.flip({lst}, axis=0), {st.targets[0].id}), axis=0)"):
                    joins[role] = st.targets[0].id
    ok = set(joins) == {"T", "field", "V"} and joins.get("T") == TF
    chk.ob("R11.3", fi.where(), "the downward list is reversed and put in front of the upward list for temperatures, fields and potentials alike (increasing T)", ok,
           str(joins)[:300], key="join-order")
    # the upward pass initialises the joined lists with the upward lists
    fin = [c for c in calls_in(fi.node, "newInterpolationTableFromValues")]
    ok = len(fin) == 1 and ok and len(fin[0].args) == 2 and eqx(fin[0].args[0], TF) \
        and eqx(fin[0].args[1], f"np.concatenate(({joins.get('field')}, {joins.get('V')}), axis=1)", cx)
    chk.ob("R11.3", fi.where(), "the interpolation table is built from (T, [fields..., V]) rows of exactly these lists", ok, key="table")
    # ---- R11.4
    fc = S.func("thermodynamics:Thermodynamics.findCriticalTemperature")
    cc = Ctx(S, fc)
    rs = [c for c in calls_in(fc.node, "root_scalar")]
    if len(rs) != 1 or not rs[0].args or not isinstance(rs[0].args[0], ast.Name):
        raise AnchorMissing("findCriticalTemperature: the root_scalar refinement of a local function not found")
    DIFF = rs[0].args[0].id
    fd = S.func(f"thermodynamics:Thermodynamics.findCriticalTemperature.{DIFF}")
    chk.touch(fc.name, fd.name)
    cd = Ctx(S, fd)
    prm = [a_.arg for a_ in fd.node.args.args]
    rets = [r for r in own_nodes(fd.node) if isinstance(r, ast.Return)]
    ok = len(rets) == 1 and len(prm) == 1 and has(rets[0].value, f"self.freeEnergyLow({prm[0]}).veffValue - self.freeEnergyHigh({prm[0]}).veffValue", cd)
    chk.ob("R11.4", fd.where(), "the scanned function is F_low(T) - F_high(T)", ok, n(rets[0].value) if rets else "", key="difference")
    # the coarse scan: a `while` in findCriticalTemperature itself, or in a helper that receives the scanned function
    sf, bind, scan_call = fc, {}, None          # function holding the loop, helper parameter -> caller expression, the call
    loop = [x for x in own_nodes(fc.node) if isinstance(x, ast.While)]
    if not loop:
        for c in own_nodes(fc.node):
            if not isinstance(c, ast.Call) or c is rs[0]:
                continue
            if not any(isinstance(a_, ast.Name) and a_.id == DIFF for a_ in list(c.args) + [k.value for k in c.keywords]):
                continue
            short = c.func.attr if isinstance(c.func, ast.Attribute) else (c.func.id if isinstance(c.func, ast.Name) else None)
            cand = S.modules[fc.module].funcs.get(f"{fc.cls}.{short}") or S.modules[fc.module].funcs.get(f"{fc.qual}.{short}") or S.modules[fc.module].funcs.get(short or "")
            if cand is None or not any(isinstance(x, ast.While) for x in own_nodes(cand.node)):
                continue
            ps = [a_.arg for a_ in cand.node.args.args]
            deco = {ast.unparse(d_) for d_ in cand.node.decorator_list}
            if cand.cls and "staticmethod" not in deco and cand.parent is None and ps:
                ps = ps[1:]
            bind = dict(zip(ps, c.args))
            bind.update({k.arg: k.value for k in c.keywords if k.arg})
            sf, scan_call = cand, c
            loop = [x for x in own_nodes(cand.node) if isinstance(x, ast.While)]
            chk.touch(cand.name)
            break
    cs_ = Ctx(S, sf)

    def caller_expr(e):
        """expression of the scanning function in terms of findCriticalTemperature's names"""
        e = cs_.resolve(e) if sf is not fc else e
        if bind:
            from ..nf import _subst
            e = _subst(e, bind)
        return e

    ok = False
    Tn_, St_ = "T", "TStep"
    fn_name = DIFF if sf is fc else next((p_ for p_, v_ in bind.items() if isinstance(v_, ast.Name) and v_.id == DIFF), DIFF)
    if len(loop) == 1:
        b = match(loop[0].test, "__T - __S > __E")
        if b:
            Tn_, St_, En_ = b["T"], b["S"], b["E"]
            pre = {st.targets[0].id: st.value for st in own_nodes(sf.node) if isinstance(st, ast.Assign) and isinstance(st.targets[0], ast.Name)
                   and st.lineno < loop[0].lineno and st.targets[0].id in (Tn_, St_)}
            start = caller_expr(pre[Tn_]) if Tn_ in pre else None
            step = caller_expr(pre[St_] if St_ in pre else ast.Name(id=St_, ctx=ast.Load()))
            end = caller_expr(ast.Name(id=En_, ctx=ast.Load()))
            ok = eqx(start, "TMax", cc) and eqx(step, "dT", cc) and eqx(end, "TMin", cc) and \
                any(eqx(s_, f"{Tn_} -= {St_}") or eqx(s_, f"{Tn_} = {Tn_} - {St_}") for s_ in loop[0].body)
    chk.ob("R11.4", sf.where(), "the coarse scan starts at TMax and steps downward by dT while staying above TMin", ok, key="scan")
    # refinement bracket [Tc, Tc + step]: Tc is the scan variable (or the value the scanning helper returned), step the scan step
    # The ends may be saved in locals first (`lo, hi = T, T + TStep`; `bracket=(lo, hi)`): they are looked through only when they are saved where the
    # scan variable already has its final value (same reaching definitions as at the call of the root finder), never through Ctx, which would
    # also accept an end computed from the start temperature before the loop.
    gc = CFG(fc.node)
    rs_node = gc.node_of(rs[0])
    br = _value_at(gc, kwarg(rs[0], "bracket"), rs_node)
    ok = False
    if isinstance(br, (ast.Tuple, ast.List)) and len(br.elts) == 2 and isinstance(br.elts[0], ast.Name):
        Tc = br.elts[0].id
        if sf is fc:
            okT = Tc == Tn_
            stepc = ast.Name(id=St_, ctx=ast.Load())
        else:
            okT = any(isinstance(st, ast.Assign) and st.value is scan_call and n(st.targets[0]) == Tc for st in own_nodes(fc.node))
            stepc = bind.get(St_) if St_ in bind else None
        if okT and stepc is not None:
            want = _value_at(gc, ast.BinOp(left=ast.Name(id=Tc, ctx=ast.Load()), op=ast.Add(), right=copy.deepcopy(stepc)), rs_node)
            ok = same(br.elts[1], want, cc)
    chk.ob("R11.4", fc.where(), "the crossing is refined by a bracketed root on the last step [T, T + dT]", ok, key="refine")
    # every path on which the scan ends without a sign change, or the refinement reports non-convergence, ends in a raise
    if sf is fc:
        ok = _raises_unless(gc, fc, rs[0], loop[0] if loop else None)
    else:
        ok = _helper_returns_only_on_sign_change(CFG(sf.node), sf, loop[0] if loop else None, fn_name) and _converged_before_return(gc, fc, rs[0])
    chk.ob("R11.4", fc.where(), "no sign change, or a non-converged refinement, raises instead of returning a temperature", ok, key="raises")
    # (a `for` over a literal pair of (free energy, log message) that merges the two "trace the phase if not interpolated" blocks is written out first)
    from . import c06
    tr = [c for c in calls_in(c06.written_out(S, fc).node, "tracePhase")]
    ok = len(tr) == 2 and all(kwarg(c, "spinodal") is not None and n(kwarg(c, "spinodal")) == "True" for c in tr)
    chk.ob("R11.4", fc.where(), "phases traced here stop at spinodals", ok, key="trace-spinodal")
    # ---- R11.5
    co = Ctx(S, fo)
    c = [x for x in calls_in(fo.node, "allSecondDerivatives")]
    rets = [r for r in own_nodes(fo.node) if isinstance(r, ast.Return)]
    op = [a_.arg for a_ in fo.node.args.args if a_.arg != "self"]
    ok = len(c) == 1 and len(op) == 2 and eqx(c[0], f"self.effectivePotential.allSecondDerivatives(FieldPoint({op[1]}), {op[0]})") and len(rets) == 1
    if ok:
        tgt = [st for st in own_nodes(fo.node) if isinstance(st, ast.Assign) and st.value is c[0] and isinstance(st.targets[0], ast.Tuple) and len(st.targets[0].elts) == 3]
        ok = len(tgt) == 1 and all(isinstance(e_, ast.Name) for e_ in tgt[0].targets[0].elts[:2])
        if ok:
            H, G = (e_.id for e_ in tgt[0].targets[0].elts[:2])
            ok = has(rets[0].value, f"scipylinalg.solve({H}, -{G}, assume_a='sym')", co) or has(rets[0].value, f"scipylinalg.solve({H}, -{G})", co)
    chk.ob("R11.5", fo.where(), "tracer ODE: d phi/dT = -H^{-1} d(grad V)/dT with H and the mixed derivative at the current (field, temperature)", ok, key="ode")
    fa = S.func("effectivePotential:EffectivePotential.allSecondDerivatives")
    chk.touch(fa.name)
    ca = Ctx(S, fa)
    rets = [r for r in own_nodes(fa.node) if isinstance(r, ast.Return)]
    ok = False
    if len(rets) == 1 and isinstance(rets[0].value, ast.Tuple) and len(rets[0].value.elts) == 3:
        b = match(rets[0].value.elts[0], "__r[..., :-1, :-1]", ca)
        ok = b is not None and eqx(rets[0].value.elts[1], f"{b['r']}[..., -1, :-1]", ca) and eqx(rets[0].value.elts[2], f"{b['r']}[..., -1, -1]", ca)
    chk.ob("R11.5", fa.where(), "allSecondDerivatives splits the (fields + T) Hessian into field block, mixed row and TT entry", ok, key="hessian-split")
    ok = len(rkc.args) >= 4 and bool(dirs)
    chk.ob("R11.5", fi.where(), "the integrator starts at (T0, phase0) and runs to the end of the requested direction", ok, key="rk45")
    # ---- R11.6 per-phase state: the range bookkeeping lists belong to the instance (two phases are traced one after the other)
    from ..core import shared_mutable_class_state
    shared = shared_mutable_class_state(S)
    mine = [h for h in shared if h[2] in ("FreeEnergy", "InterpolatableFunction", "Thermodynamics")]
    chk.ob("R11.6", f"src/WallGo/freeEnergy.py", "range bookkeeping (minPossibleTemperature / maxPossibleTemperature) and table state are per-instance: no mutable "
           "class-level attribute is mutated in place by the methods (the two phases must not share one [T, flag] list)", not mine,
           "; ".join(f"{f.qual} mutates class-level `{a}` of {c}" for f, x, c, a in mine)[:300], key="per-instance-state")
    # ---- R11.7 the refined critical temperature / re-minimised locations are actually used
    from .shared import solver_results_consumed
    chk.stage(solver_results_consumed, chk, "R11.7", ("thermodynamics", "freeEnergy", "effectivePotential"), 1)
    fin = S.func(f"{FE}.__init__")
    created = {t.attr for s_ in ast.walk(fin.node) if isinstance(s_, ast.Assign) for t in s_.targets
               if isinstance(t, ast.Attribute) and isinstance(t.value, ast.Name) and t.value.id == "self"}
    chk.ob("R11.6", fin.where(), "FreeEnergy.__init__ creates fresh [T, flag] lists for minPossibleTemperature and maxPossibleTemperature",
           {"minPossibleTemperature", "maxPossibleTemperature"} <= created, str(sorted(created))[:200], key="lists-created")
    chk.floor("R11.6", 2)
    chk.floor("R11.1", 5)
    chk.floor("R11.2", 4)
    chk.floor("R11.3", 6)
    chk.floor("R11.4", 5)
    chk.floor("R11.5", 3)
