"""C08 -- results are covariant under relabelling of field space (translation, reflection, permutation of the fields).

Affine-kind inference over field-space values:   P2 = Fields (points x fields) holding locations,  P1 = one location (FieldPoint),
V2 / V1 = displacement-like (differences, gradients, dphi/dz),  F = one number per field (widths, offsets, scales),  S = field-independent.

R08.1 translation: locations are used affinely (P - P -> V, P + V -> P, S*V -> V); scaling / abs / norm / sum / literal comparison of a
      location and P + P are non-affine sites; their set must equal the triaged table
R08.2 permutation: no constant index along the field axis of a field-kinded value, except the gauge choice offsets[1:] / prepended 0
R08.3 axis roles: reductions over fields use the field axis, profile concatenations the point axis; wallProfile broadcasts
      z[:, None] / widths[None, :]; per-field scales are checked against fieldCount
R08.4 the action's kinetic term and the grid envelope depend on the vevs only through vevHighT - vevLowT and treat the fields symmetrically
"""
from __future__ import annotations

import ast
from typing import Optional

import sympy as sp

from ..core import AnchorMissing, Check, FuncInfo, calls_in, dotted, kwarg, own_nodes, src
from ..hydro import n
from ..nf import Ctx, eqx, find, has, match
from ..terms import Extractor, SUM, is_zero

LEVEL = "other"
EOM = "equationOfMotion:EOM"

# ---------------------------------------------------------------- seeds (qualified API names)
ATTR = {
    ("Thermodynamics", "phaseLowT"): "P2", ("Thermodynamics", "phaseHighT"): "P2",
    ("FreeEnergy", "startingPhaseLocationGuess"): "P2", ("FreeEnergyValueType", "fieldsAtMinimum"): "P2",
    ("PhaseInfo", "phaseLocation1"): "P2", ("PhaseInfo", "phaseLocation2"): "P2",
    ("BoltzmannBackground", "fieldProfiles"): "P2", ("WallGoResults", "fieldProfiles"): "P2",
    ("WallParams", "widths"): "F", ("WallParams", "offsets"): "F",
    ("VeffDerivativeSettings", "fieldValueVariationScale"): "F",
}
PARAM = {}
for q in ("_getNextPressure", "_intermediatePressureResults", "action", "wallProfile"):
    PARAM[(f"EOM.{q}", "vevLowT")] = "P2"
    PARAM[(f"EOM.{q}", "vevHighT")] = "P2"
for q in ("findPlasmaProfile",):
    PARAM[(f"EOM.{q}", "fields")] = "P2"
    PARAM[(f"EOM.{q}", "dPhidz")] = "V2"
for q in ("findPlasmaProfilePoint", "temperatureProfileEqLHS"):
    PARAM[(f"EOM.{q}", "fields")] = "P1"
    PARAM[(f"EOM.{q}", "dPhidz")] = "V1"
for q in ("plasmaVelocity", "deltaToTmunu"):
    PARAM[(f"EOM.{q}", "fields")] = "P1"
for q in ("evaluate", "derivT", "derivField", "deriv2FieldT", "deriv2Field2", "allSecondDerivatives"):
    PARAM[(f"EffectivePotential.{q}", "fields")] = "P"
PARAM[("EffectivePotential.findLocalMinimum", "initialGuess")] = "P2"
PARAM[("FreeEnergy.__init__", "startingPhaseLocationGuess")] = "P2"
PARAM[("Thermodynamics.__init__", "phaseLowT")] = "P2"
PARAM[("Thermodynamics.__init__", "phaseHighT")] = "P2"
PARAM[("FreeEnergy.tracePhase.odeFunction", "field")] = "P1"
PARAM[("FreeEnergy.tracePhase.spinodalEvent", "field")] = "P1"
RET = {
    "EOM.wallProfile": ("P2", "V2"), "EffectivePotential.findLocalMinimum": ("P2", "S"), "EffectivePotential.evaluate": "S",
    "EffectivePotential.derivField": "V", "EffectivePotential.derivT": "S", "Particle.msqVacuum": "S", "Particle.msqDerivative": "V",
}
# model callbacks take locations
TAKES_POINT = {"evaluate", "derivT", "derivField", "deriv2FieldT", "deriv2Field2", "allSecondDerivatives", "findLocalMinimum", "msqVacuum", "msqDerivative"}
CASTS = {"FieldPoint", "Fields", "castFromNumpy", "view", "array", "asarray", "asanyarray", "copy", "deepcopy", "resizeFields", "atleast_2d", "atleast_1d"}

# triaged non-affine sites of the pinned tree
NON_AFFINE_SITES = {
    "FreeEnergy.tracePhase|abs|P1":
        "tolAbsolute = rTol * max(*abs(phase0), T0): an absolute tolerance of the ODE integrator sized by the location itself; it only "
        "affects the RK45 step control, and the paranoid re-minimisation (default) removes the dependence from the tabulated points",
    "BoltzmannSolver.checkLinearization|sum-over-fields|P2":
        "np.sum(fieldProfiles, axis=1): the sum of all field values is used as a diagnostic weight in the linearisation criteria only; "
        "it does not enter the wall velocity",
}
FIELD_INDEX_EXCEPTIONS = {
    "EOM._intermediatePressureResults|F|1:": "gauge choice: the first wall offset is pinned to zero, the remaining offsets are free parameters",
    "EOM._toWallParams|wallArray": "inverse of the packing above (prepends the pinned 0.0)",
}
SCOPE = ["equationOfMotion", "freeEnergy", "thermodynamics", "manager", "boltzmann", "effectivePotential"]


def rank_of(k: Optional[str]) -> Optional[int]:
    if k in ("P2", "V2", "Q2"):
        return 2
    if k in ("P1", "V1", "Q1", "F"):
        return 1
    return None


def base_kind(k):
    # P location, V displacement-like (odd under the reflection of its field), Q per-field quantity that is even under reflections (V*V, V**2, |V|)
    return k[0] if isinstance(k, str) and k[0] in "PVQ" else k


class Affine:
    def __init__(self, S):
        self.S = S
        self.sites = []   # (func, kind, node, text, key)
        self.index_sites = []
        self.typed = 0

    def site(self, fi, what, kind, node, text):
        self.sites.append((fi, what, node, text, f"{fi.qual}|{what}|{kind}"))

    def analyse(self, fi: FuncInfo, outer=None):
        env = dict(outer or {})
        for p in fi.params():
            if (fi.qual, p) in PARAM:
                env[p] = PARAM[(fi.qual, p)]
        self.block(fi.node.body, env, fi)

    def block(self, stmts, env, fi):
        for st in stmts:
            if isinstance(st, (ast.FunctionDef,)):
                sub = FuncInfo(fi.module, f"{fi.qual}.{st.name}", st, fi.cls, fi)
                e2 = dict(env)
                for p in st.args.args:
                    if (sub.qual, p.arg) in PARAM:
                        e2[p.arg] = PARAM[(sub.qual, p.arg)]
                    else:
                        e2.pop(p.arg, None)
                self.block(st.body, e2, sub)
                continue
            if isinstance(st, ast.Assign):
                v = self.kind(st.value, env, fi)
                for t in st.targets:
                    self.assign(t, v, env)
            elif isinstance(st, ast.AnnAssign) and st.value is not None:
                self.assign(st.target, self.kind(st.value, env, fi), env)
            elif isinstance(st, ast.AugAssign):
                self.kind(st.value, env, fi)
            elif isinstance(st, (ast.Return, ast.Expr)):
                if st.value is not None:
                    self.kind(st.value, env, fi)
            elif isinstance(st, ast.If):
                self.kind(st.test, env, fi)
                self.block(st.body, env, fi)
                self.block(st.orelse, env, fi)
            elif isinstance(st, (ast.For, ast.While)):
                if isinstance(st, ast.While):
                    self.kind(st.test, env, fi)
                else:
                    self.kind(st.iter, env, fi)
                self.block(st.body, env, fi)
            elif isinstance(st, ast.With):
                self.block(st.body, env, fi)
            elif isinstance(st, ast.Try):
                self.block(st.body, env, fi)
                for h in st.handlers:
                    self.block(h.body, env, fi)
            elif isinstance(st, ast.Assert):
                self.kind(st.test, env, fi)

    def assign(self, t, v, env):
        if isinstance(t, ast.Name):
            if v is not None:
                env[t.id] = v
            else:
                env.pop(t.id, None)
        elif isinstance(t, (ast.Tuple, ast.List)):
            for i, e in enumerate(t.elts):
                self.assign(e, v[i] if isinstance(v, tuple) and i < len(v) else None, env)
        elif isinstance(t, ast.Attribute):
            d = dotted(t)
            if d and v is not None:
                env[d] = v

    def attr_kind(self, base, attr):
        for (c, a), k in ATTR.items():
            if a == attr and (base is None or base == c or True):
                return k
        return None

    def kind(self, e, env, fi):
        k = self._kind(e, env, fi)
        if k is not None:
            self.typed += 1
        return k

    def _kind(self, e, env, fi):
        if isinstance(e, ast.Constant):
            return "L" if isinstance(e.value, (int, float)) and not isinstance(e.value, bool) else None
        if isinstance(e, ast.Name):
            return env.get(e.id)
        if isinstance(e, ast.Attribute):
            d = dotted(e)
            if d and d in env:
                return env[d]
            if e.attr in ("widths", "offsets") and True:
                return "F"
            if e.attr in ("fieldsAtMinimum", "fieldProfiles", "phaseLocation1", "phaseLocation2", "phaseLowT", "phaseHighT", "startingPhaseLocationGuess"):
                return "P2"
            if e.attr in ("fieldValueVariationScale",):
                return "F"
            if e.attr == "y" and d in ("ode.y",):
                return "P1"
            if e.attr in ("T", "real"):
                return self.kind(e.value, env, fi)
            self.kind(e.value, env, fi)
            return None
        if isinstance(e, ast.UnaryOp):
            return self.kind(e.operand, env, fi)
        if isinstance(e, (ast.Tuple, ast.List)):
            return tuple(self.kind(x, env, fi) for x in e.elts)
        if isinstance(e, ast.BinOp):
            a, b = self.kind(e.left, env, fi), self.kind(e.right, env, fi)
            return self.arith(e, a, b, fi)
        if isinstance(e, ast.Compare):
            ks = [self.kind(e.left, env, fi)] + [self.kind(c, env, fi) for c in e.comparators]
            if any(base_kind(k) == "P" for k in ks if isinstance(k, str)) and any(k == "L" for k in ks):
                pk = [k for k in ks if isinstance(k, str) and base_kind(k) == "P"][0]
                self.site(fi, "compare-with-literal", pk, e, n(e)[:100])
            return None
        if isinstance(e, ast.BoolOp):
            for v in e.values:
                self.kind(v, env, fi)
            return None
        if isinstance(e, ast.IfExp):
            self.kind(e.test, env, fi)
            a, b = self.kind(e.body, env, fi), self.kind(e.orelse, env, fi)
            return a if a == b else None
        if isinstance(e, ast.Subscript):
            base = self.kind(e.value, env, fi)
            if isinstance(base, tuple):
                if isinstance(e.slice, ast.Constant) and isinstance(e.slice.value, int) and -len(base) <= e.slice.value < len(base):
                    return base[e.slice.value]
                return None
            return self.subscript(e, base, fi)
        if isinstance(e, ast.Call):
            return self.call(e, env, fi)
        if isinstance(e, (ast.ListComp, ast.GeneratorExp)):
            e2 = dict(env)
            for g in e.generators:
                self.kind(g.iter, e2, fi)
            return self.kind(e.elt, e2, fi)
        if isinstance(e, ast.Starred):
            return self.kind(e.value, env, fi)
        return None

    def subscript(self, e, base, fi):
        if not isinstance(base, str) or base in ("S", "L"):
            return None
        sl = e.slice
        elts = list(sl.elts) if isinstance(sl, ast.Tuple) else [sl]
        r = rank_of(base)
        # broadcasting / None entries do not index
        real = [x for x in elts if not (isinstance(x, ast.Constant) and x.value is None)]
        has_ellipsis = any(isinstance(x, ast.Constant) and x.value is Ellipsis for x in elts)

        def is_const(x):
            if isinstance(x, ast.Constant) and isinstance(x.value, int):
                return True
            if isinstance(x, ast.UnaryOp) and isinstance(x.operand, ast.Constant):
                return True
            if isinstance(x, ast.Slice) and (x.lower is not None or x.upper is not None):
                return all(b is None or isinstance(b, ast.Constant) or (isinstance(b, ast.UnaryOp) and isinstance(b.operand, ast.Constant))
                           for b in (x.lower, x.upper))
            return False
        if r == 2:
            # axis 0 = points, axis 1 = fields
            field_idx = None
            if has_ellipsis:
                field_idx = real[-1] if real and not (isinstance(real[-1], ast.Constant) and real[-1].value is Ellipsis) else None
            elif len(real) >= 2:
                field_idx = real[1]
            if field_idx is not None and is_const(field_idx):
                self.index_sites.append((fi, base, e, n(e)))
            if len(real) >= 1 and not isinstance(real[0], ast.Slice) and not has_ellipsis and len(real) == 1:
                return base[0] + "1"   # one location / one row
            return base
        if r == 1:
            if real and is_const(real[0]):
                self.index_sites.append((fi, base, e, n(e)))
            return base if real and isinstance(real[0], ast.Slice) else ("S" if real else base)
        return None

    def arith(self, e, a, b, fi):
        A, B = base_kind(a), base_kind(b)
        ra, rb = rank_of(a) if isinstance(a, str) else None, rank_of(b) if isinstance(b, str) else None
        rk = str(max([x for x in (ra, rb) if x is not None] or [1]))
        if isinstance(e.op, ast.Sub):
            if A == "P" and B == "P":
                return "V" + rk
            if A == "P" and B == "V":
                return "P" + rk
            if A == "V" and B == "V":
                return "V" + rk
            if A == "P" and b in ("S", "L", "F"):
                self.site(fi, "shift-by-number", a, e, n(e)[:100])
                return None
            if A == "V":
                return a
            return None
        if isinstance(e.op, ast.Add):
            if A == "P" and B == "P":
                self.site(fi, "sum-of-locations", a, e, n(e)[:100])
                return None
            if (A == "P" and B == "V") or (A == "V" and B == "P"):
                return "P" + rk
            if A == "V" and B == "V":
                return "V" + rk
            if (A == "P" and b in ("S", "L", "F")) or (B == "P" and a in ("S", "L", "F")):
                self.site(fi, "shift-by-number", a if A == "P" else b, e, n(e)[:100])
                return None
            if A == "V" or B == "V":
                return a if A == "V" else b
            return None
        if isinstance(e.op, (ast.Mult, ast.Div)):
            if A == "P" and B != "P" and b is not None and isinstance(e.op, (ast.Mult, ast.Div)):
                self.site(fi, "scaling-a-location", a, e, n(e)[:100])
                return None
            if B == "P" and a is not None and isinstance(e.op, ast.Mult):
                self.site(fi, "scaling-a-location", b, e, n(e)[:100])
                return None
            if A == "P" and B == "P":
                self.site(fi, "product-of-locations", a, e, n(e)[:100])
                return None
            if A == "V" and B == "V":
                return "Q" + rk   # component-wise product of two displacement-like quantities: even under the reflection of any field
            if (A == "Q" and B == "V") or (A == "V" and B == "Q"):
                return "V" + rk
            if A == "Q" and B == "Q":
                return "Q" + rk
            if A == "Q":
                return a
            if B == "Q" and isinstance(e.op, ast.Mult):
                return b
            if A == "V":
                return a
            if B == "V" and isinstance(e.op, ast.Mult):
                return b
            if a == "F" or b == "F":
                return "F"
            return None
        if isinstance(e.op, ast.Pow):
            if A == "P":
                self.site(fi, "power-of-a-location", a, e, n(e)[:100])
                return None
            if A == "V":
                ex = e.right.value if isinstance(e.right, ast.Constant) and isinstance(e.right.value, int) else None
                if ex is not None and ex % 2 == 0:
                    return "Q" + str(rank_of(a) or 1)
                return a
            return a if A == "Q" else None
        return None

    def call(self, e, env, fi):
        d = dotted(e.func) or ""
        short = e.func.attr if isinstance(e.func, ast.Attribute) else d.split(".")[-1]
        args = [self.kind(a, env, fi) for a in e.args]
        kw = {k.arg: self.kind(k.value, env, fi) for k in e.keywords if k.arg}
        a0 = args[0] if args else None
        recv = self.kind(e.func.value, env, fi) if isinstance(e.func, ast.Attribute) and not d.startswith(("np.", "self.", "scipy")) else None
        if short in CASTS:
            if short == "FieldPoint" and isinstance(a0, str) and base_kind(a0) in "PV":
                return base_kind(a0) + "1"
            if short in ("Fields", "castFromNumpy") and isinstance(a0, str) and base_kind(a0) in "PV":
                return base_kind(a0) + "2"
            if short == "Fields" and isinstance(a0, tuple) and a0 and isinstance(a0[0], str):
                return base_kind(a0[0]) + "2" if base_kind(a0[0]) in "PV" else None
            if short == "view" and recv:
                return recv
            return a0 if isinstance(a0, str) else (recv if short in ("copy", "resizeFields") else None)
        if short == "getFieldPoint" and isinstance(recv, str):
            return base_kind(recv) + "1"
        if short in ("getField", "getFieldPreserveShape", "setField") and isinstance(recv, str) and base_kind(recv) in "PV":
            i = e.args[0] if e.args else None
            if isinstance(i, ast.Constant):
                self.index_sites.append((fi, recv, e, n(e)))
            return None
        if short == "takeSlice" and isinstance(recv, str):
            return recv
        if short in ("abs", "absolute", "norm", "max", "min", "amax", "amin") and isinstance(a0, str) and base_kind(a0) == "P":
            self.site(fi, "abs" if short in ("abs", "absolute") else short, a0, e, n(e)[:100])
            return None
        if short in ("sum", "mean") and isinstance(a0, str) and base_kind(a0) == "P":
            ax = kw.get("axis")
            axn = kwarg(e, "axis", 1)
            over_fields = axn is not None and (n(axn) in ("1", "-1") or n(axn).endswith("overFieldTypes"))
            self.site(fi, "sum-over-fields" if over_fields or rank_of(a0) == 1 else "sum-over-points", a0, e, n(e)[:100])
            return None
        if short in ("sum", "mean") and isinstance(a0, str) and base_kind(a0) == "Q":
            return "S"
        if short in ("sum", "mean") and isinstance(a0, str) and base_kind(a0) == "V":
            # the sum over the fields of a quantity that is odd under the reflection of one field depends on each field's sign convention
            axn = kwarg(e, "axis", 1)
            over_points = axn is not None and (n(axn) == "0" or n(axn).endswith("overFieldPoints")) and rank_of(a0) == 2
            if over_points:
                return "V1"
            self.site(fi, "sum-of-odd-over-fields", a0, e, n(e)[:100])
            return None
        if short in ("abs", "absolute") and isinstance(a0, str) and base_kind(a0) == "V":
            return "Q" + str(rank_of(a0) or 1)
        if short == "concatenate":
            parts = a0 if isinstance(a0, tuple) else ()
            ks = {base_kind(p) for p in parts if isinstance(p, str)}
            if ks == {"P"}:
                return "P2"
            if ks == {"F"} or ks == {"F", "L"}:
                return "F"
            return None
        if short in ("tanh", "cosh", "exp", "sqrt", "log") and isinstance(a0, str) and base_kind(a0) == "P":
            self.site(fi, f"{short}-of-a-location", a0, e, n(e)[:100])
            return None
        if short in ("allclose", "isclose"):
            return None
        # package API
        qual = None
        for q in RET:
            if q.split(".")[-1] == short:
                qual = q
        if short in TAKES_POINT:
            # location arguments must be locations (not displacements / scaled values): checked via arithmetic sites above
            pass
        if qual:
            r = RET[qual]
            if r == "V" and isinstance(a0, str):
                return "V" + str(rank_of(a0) or 2)
            return r
        return None


def rules(chk: Check) -> None:
    S = chk.src
    A = Affine(S)
    nfun = 0
    for m in SCOPE:
        for fi in S.module(m).funcs.values():
            if fi.parent is None:
                A.analyse(fi)
                nfun += 1
                chk.touch(fi.name)
    if A.typed < 250:
        raise AnchorMissing(f"affine-kind inference typed only {A.typed} nodes (floor 250): seeds no longer match the API")
    for (qual, p) in PARAM:
        if qual.count(".") >= 2:
            continue      # seeds of nested helper functions are optional (renaming / inlining one is not an API change)
        if not any(qual in m_.funcs and p in m_.funcs[qual].params() for m_ in S.modules.values()):
            raise AnchorMissing(f"affine seed {qual}({p}) names an API member that no longer exists")
    # ---- R08.1
    seen = set()
    for fi, what, node, text, key in A.sites:
        seen.add(key)
        listed = key in NON_AFFINE_SITES
        chk.ob("R08.1", fi.where(node), f"non-covariant use of a field-space quantity ({what}): `{text}`", listed,
               NON_AFFINE_SITES.get(key, "not in the triaged table: the result would change under a relabelling of field space (translation of the origin / reflection of a field)"), key=key)
    chk.ob("R08.1", "src/WallGo", f"field-space locations are combined affinely everywhere else ({A.typed} expression nodes typed in {nfun} functions: "
           "P - P -> V, P + V -> P, number * V -> V)", True, key="affine-elsewhere")
    # the tanh ansatz: fields = vevLowT + S * (vevHighT - vevLowT)  (term level)
    fw = S.func(f"{EOM}.wallProfile")
    ex = Extractor(S)
    ps = [p for p in ex.paths(fw) if p.raised is None]
    vL, vH = ex.sym("vevLowT"), ex.sym("vevHighT")
    sh = sp.Symbol("shift__", real=True)
    okp = True
    for p in ps:
        f, df = p.value
        unwrap = lambda t: t.args[0] if isinstance(t, sp.core.function.AppliedUndef) and t.func.__name__ == "Fields.castFromNumpy" else t
        f, df = unwrap(f), unwrap(df)
        r1 = sp.simplify(f.subs({vL: vL + sh, vH: vH + sh}, simultaneous=True) - f - sh)
        r2 = sp.simplify(df.subs({vL: vL + sh, vH: vH + sh}, simultaneous=True) - df)
        r3 = sp.simplify(f.subs({vL: -vL, vH: -vH}, simultaneous=True) + f)
        okp = okp and r1 == 0 and r2 == 0 and r3 == 0
    chk.ob("R08.1", fw.where(), "wallProfile is equivariant: translating both vevs translates the profile and leaves dphi/dz unchanged; reflecting both reflects it",
           okp, key="profile-equivariant", how="cas-proof")
    # ---- R08.2
    for fi, kind, node, text in A.index_sites:
        key = f"{fi.qual}|{kind}|{n(node.slice) if isinstance(node, ast.Subscript) else text}"
        key2 = f"{fi.qual}|{kind}|{n(node.slice).strip('()') if isinstance(node, ast.Subscript) else text}"
        listed = key2 in FIELD_INDEX_EXCEPTIONS or key in FIELD_INDEX_EXCEPTIONS
        chk.ob("R08.2", fi.where(node), f"constant index along the field axis of a {kind} value: `{text}`", listed,
               FIELD_INDEX_EXCEPTIONS.get(key2, "not a listed exception: singles out one field, breaking covariance under permutation of the fields"), key=key2)
    ft = S.func(f"{EOM}._toWallParams")
    chk.touch(ft.name)
    ct = Ctx(S, ft)
    prm = [a_.arg for a_ in ft.node.args.args][1:]
    rets = [r for r in own_nodes(ft.node) if isinstance(r, ast.Return)]
    ok = False
    if len(rets) == 1 and len(prm) == 1 and isinstance(rets[0].value, ast.Call) and eqx(rets[0].value.func, "WallParams"):
        w, o = kwarg(rets[0].value, "widths", 0), kwarg(rets[0].value, "offsets", 1)
        A = prm[0]
        ok = eqx(w, f"{A}[:self.nbrFields]", ct) and (eqx(o, f"np.concatenate((np.array([0.0]), {A}[self.nbrFields:]))", ct)
                                                      or eqx(o, f"np.concatenate(([0.0], {A}[self.nbrFields:]))", ct))
    chk.ob("R08.2", ft.where(), "_toWallParams: widths = first nbrFields entries, offsets = (0, remaining entries): inverse of the packing (gauge: first offset 0)",
           ok, key="EOM._toWallParams|wallArray")
    fi_ = S.func(f"{EOM}._intermediatePressureResults")
    ci = Ctx(S, fi_)
    mins = [c for c in calls_in(fi_.node, "minimize") if "optimize" in (dotted(c.func) or "")]
    if len(mins) != 1:
        raise AnchorMissing("_intermediatePressureResults: the scipy.optimize.minimize call of the action not found")
    x0 = kwarg(mins[0], "x0", 1)
    ok = eqx(x0, "np.concatenate((wallParams.widths, wallParams.offsets[1:]))", ci)
    chk.ob("R08.2", fi_.where(), "the minimiser's parameter vector is (all widths, offsets[1:])", ok, n(x0) if x0 is not None else "", key="packing")
    bd = kwarg(mins[0], "bounds")
    bdr = ci.resolve(bd) if bd is not None else None
    okb = False
    shown = {}
    if isinstance(bdr, ast.Call) and (dotted(bdr.func) or "").endswith("Bounds"):
        lb, ub = kwarg(bdr, "lb", 0), kwarg(bdr, "ub", 1)
        shown = {"lb": n(lb) if lb is not None else "", "ub": n(ub) if ub is not None else ""}
        okb = all(b_ is not None and eqx(b_, f"np.concatenate((self.nbrFields * [self.wallThicknessBounds[{i}] / self.thermo.Tnucl], "
                                         f"(self.nbrFields - 1) * [self.wallOffsetBounds[{i}]]))", ci) for b_, i in ((lb, 0), (ub, 1)))
    chk.ob("R08.2", fi_.where(), "bounds are the same for every field: nbrFields width bounds followed by nbrFields-1 offset bounds", okb, str(shown)[:300], key="bounds-uniform")
    # ---- R08.3
    cat = [c for c in calls_in(fi_.node, "concatenate") if has(c, "vevLowT")]
    ok = len(cat) == 1 and kwarg(cat[0], "axis", 1) is not None and (n(kwarg(cat[0], "axis", 1)).endswith("overFieldPoints") or eqx(kwarg(cat[0], "axis", 1), "0"))
    chk.ob("R08.3", fi_.where(), "profiles with end points are concatenated along the point axis", ok, key="concat-axis")
    # dV/dz: the coefficient array of the Polynomial that is integrated to give the pressure
    polys = [c for c in calls_in(fi_.node, "Polynomial") if len(c.args) >= 1]
    ax = None
    for c0 in polys:
        r0 = ci.resolve(c0.args[0], keep={"dVfull", "dPhidz", "dVdPhi", "dVout"})
        for c in ast.walk(r0):
            if isinstance(c, ast.Call) and (dotted(c.func) or "") == "np.sum" and ax is None:
                ax = kwarg(c, "axis", 1)
    ok = ax is not None and (eqx(ax, "1") or n(ax).endswith("overFieldTypes"))
    chk.ob("R08.3", fi_.where(), "dV/dz sums dV/dphi_i * dphi_i/dz over the field axis", ok, key="sum-axis")
    cw = Ctx(S, fw)
    forms = []
    for c in ast.walk(fw.node):
        if isinstance(c, ast.BinOp) and isinstance(c.op, ast.Div) and (eqx(c.right, "wallParams.widths", cw) or eqx(c.right, "wallParams.widths[None, :]", cw)):
            forms.append(c)
    ok = len(forms) == 2 and any(match(f_, "__z / wallParams.widths") for f_ in forms) and any(match(f_, "__z[:, None] / wallParams.widths[None, :]") for f_ in forms)
    chk.ob("R08.3", fw.where(), "wallProfile broadcasts positions along axis 0 and per-field widths along axis 1", ok, str([n(f_) for f_ in forms]), key="broadcast")
    fc = S.func("effectivePotential:EffectivePotential.configureDerivatives")
    chk.touch(fc.name)
    cc = Ctx(S, fc)
    FS = "self.derivativeSettings.fieldValueVariationScale"
    ok = any(eqx(a_.test, f"{FS}.size == self.fieldCount") or eqx(a_.test, f"len({FS}) == self.fieldCount") for a_ in own_nodes(fc.node) if isinstance(a_, ast.Assert))
    ones = any(isinstance(st, ast.Assign) and eqx(st.targets[0], FS) and (has(st.value, "np.ones(self.fieldCount)") or any(isinstance(c_, ast.Call) and eqx(c_.func, "np.full") and c_.args and eqx(c_.args[0], "self.fieldCount")
                                                                for c_ in ast.walk(st.value))) for st in own_nodes(fc.node))
    chk.ob("R08.3", fc.where(), "per-field finite-difference scales: a scalar is broadcast to fieldCount entries, an array must have fieldCount entries", ok and ones,
           key="scales-length")
    fcomb = [st for st in own_nodes(fc.node) if isinstance(st, ast.Assign) and "combinedScales" in n(st.targets[0])]
    ok = len(fcomb) == 1 and (eqx(fcomb[0].value, f"np.concatenate(({FS}, self.derivativeSettings.temperatureVariationScale))", cc)
                                or eqx(fcomb[0].value, f"np.concatenate(({FS}, [self.derivativeSettings.temperatureVariationScale]))", cc))
    chk.ob("R08.3", fc.where(), "combined scales = (field scales..., temperature scale), the order of the combined (fields..., T) input", ok, key="scales-order")
    fcomb2 = S.func("effectivePotential:EffectivePotential.__combineInputs") if S.has_func("effectivePotential:EffectivePotential.__combineInputs") else None
    if fcomb2 is not None:
        sts = [s_ for s_ in own_nodes(fcomb2.node) if isinstance(s_, ast.Assign)]
        ok = bool(find(sts, "__c[..., :-1] = fields")) and bool(find(sts, "__c[..., -1] = temperature"))
        chk.ob("R08.3", fcomb2.where(), "combined input puts the fields first and the temperature last", ok, key="combine-order")
    fd = S.func("effectivePotential:EffectivePotential.derivField")
    cdf = Ctx(S, fd)
    ok = any(kwarg(c, "axis") is not None and (eqx(kwarg(c, "axis"), "np.arange(self.fieldCount).tolist()", cdf) or eqx(kwarg(c, "axis"), "list(range(self.fieldCount))", cdf))
             for c in calls_in(fd.node, "gradient"))
    chk.ob("R08.3", fd.where(), "derivField takes the gradient along all field axes (0 .. fieldCount-1) of the combined input", ok, key="gradient-axes")
    # ---- R08.4
    fa = S.func(f"{EOM}.action")
    chk.touch(fa.name)
    ca = Ctx(S, fa)
    K = None
    # the kinetic term: the summand of the action that contains both phase locations
    kin = [st for st in own_nodes(fa.node) if isinstance(st, ast.Assign) and has(st.value, "vevHighT") and has(st.value, "vevLowT")
           and not any(isinstance(c_, ast.Call) and (dotted(c_.func) or "").endswith("wallProfile") for c_ in ast.walk(st.value))]
    for st in kin:
        K = Extractor(S).expr(ca.resolve(st.value, keep={"vevHighT", "vevLowT"}), {"__module__": "equationOfMotion", "__class__": "EOM"})
    okk = None
    if isinstance(K, sp.Basic) and len(kin) == 1:
        vLs, vHs = sp.Symbol("vevLowT", real=True), sp.Symbol("vevHighT", real=True)
        okk = sp.simplify(K.subs({vLs: vLs + sh, vHs: vHs + sh}, simultaneous=True) - K) == 0 and \
            sp.simplify(K.subs({vLs: -vLs, vHs: -vHs}, simultaneous=True) - K) == 0 and K.func == SUM
    chk.ob("R08.4", fa.where(), "kinetic term: a sum over fields of a function of (vevHighT - vevLowT)_i and width_i only, even under reflection", okk, str(K), key="kinetic")
    fu = S.func(f"{EOM}._updateGrid")
    chk.touch(fu.name)
    cu = Ctx(S, fu)
    names = {x.id for x in ast.walk(fu.node) if isinstance(x, ast.Name)} | {x.attr for x in ast.walk(fu.node) if isinstance(x, ast.Attribute)}
    ok = not ({"vevLowT", "vevHighT", "fields"} & names)
    cp = [c for c in calls_in(fu.node, "changePositionFalloffScale")]
    if len(cp) != 1 or len(cp[0].args) + len(cp[0].keywords) < 4:
        raise AnchorMissing("_updateGrid: the changePositionFalloffScale call not found")
    thick = kwarg(cp[0], "wallThickness", 2)
    centre = kwarg(cp[0], "wallCenter", 3)
    W, O = "wallParams.widths", "wallParams.offsets"
    RIGHT, LEFT = f"np.max((1 - {O}) * {W})", f"np.min((-1 - {O}) * {W})"
    ok_t = eqx(thick, f"({RIGHT} - {LEFT}) / 2", cu)
    ok_c = eqx(centre, f"({RIGHT} + {LEFT}) / 2 - (({RIGHT} - {LEFT}) / 2) * np.log(2) / 2", cu)
    idx = [n(x) for x in own_nodes(fu.node) if isinstance(x, ast.Subscript) and (has(x.value, W, cu) or has(x.value, O, cu))]
    chk.ob("R08.4", fu.where(), "grid envelope: max / min over all fields of (+-1 - offset_i) * width_i -- no vev enters and no field is singled out", ok and ok_t and ok_c and not idx,
           f"thickness {n(thick)}; centre {n(centre)}; indexed: {idx}", key="envelope")
    # R08.5: the width bounds reach the widths and the offset bounds the offsets (offsets change sign under a permutation of the fields,
    # widths do not: exchanging the two bound pairs makes the result depend on the order of the fields; plumbing rule shared with C01 R01.7)
    from ..core import Remap
    from . import c01
    c01.r01_7(Remap(chk, {"R01.7": "R08.5"}, only=lambda r, k, w: k in ("plumbing|EOM.wallThicknessBounds", "plumbing|EOM.wallOffsetBounds")))
    chk.floor("R08.5", 2)
    chk.floor("R08.1", 3)
    chk.floor("R08.2", 4)
    chk.floor("R08.3", 7)
    chk.floor("R08.4", 2)
    # R08.6: widths and relative offsets are clipped and bounded each with bounds of their own kind (C07's dimension inference restricted to the wall-parameter
    # code): a positive-only thickness bound applied to a relative offset, whose sign depends on which field is labelled first, singles out one labelling
    from . import c07
    from ..core import Remap as _Remap
    chk.stage(c07.rules, _Remap(chk, {"R07.1": "R08.6"}, only=lambda r, k, w: any(f in str(w) for f in ("EOM._intermediatePressureResults", "EOM.action", "EOM.wallProfile", "EOM._toWallParams",
                                                                                                   "EOM.solveWall", "EOM.wallPressure"))))
    chk.floor("R08.6", 3)


def extra(chk: Check) -> dict:
    return {"triaged_non_affine_sites": NON_AFFINE_SITES, "field_index_exceptions": FIELD_INDEX_EXCEPTIONS}
