"""C05 -- LTE wall velocity conserves entropy flux across the wall.

R05.1 the entropy relation T+ gamma+ = T- gamma- at both sites (inside the 2x2 matching, after the solve)
R05.2 the LTE root function: entropy-branch matching -> shock integration -> Tn mismatch
R05.3 sentinel table (1 <-> mismatch positive at the top of the window or failed matching; 0 <-> negative at the bottom); flag typestate
R05.4 manager and wall solver obtain the LTE velocity from the same routine
R05.5 template model: sentinel conditions and shooting function of its own LTE solver

Recognition is by role: nested functions are "the function handed to root / root_scalar", the window ends are "the local that starts at
self.vMin / just below self.vJ", the mismatches are "the local assigned from <root function>(<window end>)", sentinels are decided on the
control-flow graph (which branch of which test can reach the return), expressions are compared through normal forms / terms.
"""
from __future__ import annotations

import ast

import sympy as sp

from ..core import AnchorMissing, Check, Undecided, calls_in, dotted, kwarg, own_nodes, src, walk_guarded
from ..flow import CFG, reads_of
from ..hydro import HY, TM, drop_ite, fn, hydro_extractor, junction_terms, n, th
from ..nf import Ctx, eqx, has, match, same
from ..terms import Extractor, is_zero
from .c02 import _solver_function
from .c06 import _local_func, _only_when, _pol, _stores

LEVEL = "other"


def _is_const(e, value) -> bool:
    return isinstance(e, ast.Constant) and not isinstance(e.value, bool) and isinstance(e.value, (int, float)) and e.value == value


def _test_meaning(g: CFG, t):
    """the condition an if / while test stands for when it reads named booleans: a local B whose only definition reaching the test is
    `B = <comparison / and / or / not of locals and constants>` stands for that expression, provided no local the expression reads (nor B) can be
    re-bound on the way from that assignment to the test (so that the expression has the same value at both places)"""
    import copy

    def meaning(e, at, depth):
        if isinstance(e, ast.UnaryOp) and isinstance(e.op, ast.Not):
            return ast.copy_location(ast.UnaryOp(op=ast.Not(), operand=meaning(e.operand, at, depth)), e)
        if isinstance(e, ast.BoolOp):
            return ast.copy_location(ast.BoolOp(op=e.op, values=[meaning(v, at, depth) for v in e.values]), e)
        if not isinstance(e, ast.Name) or depth >= 3:
            return e
        rd = g.reaching_defs(at, e.id)
        if len(rd) != 1 or rd[0] is CFG.ENTRY or not isinstance(rd[0], (ast.Assign, ast.AnnAssign)) or rd[0].value is None:
            return e
        d = rd[0]
        tg = d.targets[0] if isinstance(d, ast.Assign) and len(d.targets) == 1 else d.target if isinstance(d, ast.AnnAssign) else None
        if not (isinstance(tg, ast.Name) and tg.id == e.id) or d is at:
            return e
        v = d.value
        if not all(isinstance(y, (ast.Name, ast.Constant, ast.Compare, ast.BoolOp, ast.UnaryOp, ast.Not, ast.boolop, ast.cmpop, ast.Load)) for y in ast.walk(v)) \
                or not any(isinstance(y, (ast.Compare, ast.BoolOp, ast.UnaryOp)) for y in ast.walk(v)):
            return e            # (only named *tests*: anything else is left to the caller's own resolution)
        reads = {y.id for y in ast.walk(v) if isinstance(y, ast.Name)} | {e.id}
        # statements that can execute after the assignment and before the use (without passing the assignment again)
        for q in g.reachable(d, avoid=lambda q_: q_ is d or q_ is at):
            if q in (CFG.EXIT, CFG.RAISE, CFG.ENTRY) or q is at or q is d:
                continue
            if g.defs_of(q) & reads and g.reaches({q}, at, avoid=lambda r_: r_ is d):
                return e
        # the expression is evaluated at the assignment: named booleans it reads are resolved there
        return meaning(copy.deepcopy(v), d, depth + 1)

    return meaning(t, t, 0)


def _only_when_named(g: CFG, node, pos: str, neg: str | None, want: bool) -> bool:
    """_only_when with the tests read through named booleans (see _test_meaning)"""
    for t in g.nodes:
        if g.kind.get(t) != "test":
            continue
        p = _pol(_test_meaning(g, t), pos, neg)
        if p is None:
            continue
        taken = (p == want)
        if g.must_pass(CFG.ENTRY, node, lambda q: q is t) and not g.reaches(g.branch(t, not taken), node, avoid=lambda q: q is t):
            return True
    return False


def r05_1(chk: Check):
    S = chk.src
    ex, fj, vpvm, vpovm = junction_terms(S)
    fo = S.func(f"{HY}.matchDeflagOrHyb")
    fm, _ = _solver_function(S, fo, ("root",), "fun")
    chk.touch(fm.name)
    po = [p for p in fo.params() if p != "self"]
    if len(po) != 2 or len(fm.params()) != 1:
        raise AnchorMissing("matchDeflagOrHyb(vw, vp) / its one-argument residual: parameter lists changed")
    VW, VP = po
    exm = hydro_extractor(S)
    X = exm.sym("mappedTpTm")
    ps = [p for p in exm.paths(fm, {fm.params()[0]: X}, {VP: None}) if p.raised is None]
    if len(ps) != 1:
        raise Undecided("matching (entropy branch): expected one path")
    e1, e2 = (drop_ite(x) for x in ps[0].value)
    # the common factor of the two residuals (read off the returned terms)
    common = [f_ for f_ in sp.Mul.make_args(e1) if f_ in set(sp.Mul.make_args(e2))]
    c = sp.Mul(*common) if common else sp.Integer(1)
    Tpm = fn("_inverseMappingT")(X)
    T0, T1 = fn("getitem")(Tpm, 0), fn("getitem")(Tpm, 1)
    Tp, Tm = ex.sym("Tp"), ex.sym("Tm")
    A1 = (vpvm * vpovm).subs({Tp: T0, Tm: T1}, simultaneous=True)
    vpsq = sp.simplify(A1 - e1 / c)          # the v+^2 the solver imposes
    vmsq = sp.Min(exm.sym(VW) ** 2, th("csqLowT")(T1))
    # T+^2 gamma+^2 == T-^2 gamma-^2
    ok, how = is_zero(T0**2 / (1 - vpsq) - T1**2 / (1 - vmsq), chk.seed)
    chk.ob("R05.1", fm.where(), "inside the matching (vp=None): the imposed v+^2 satisfies T+^2 gamma+^2 == T-^2 gamma-^2 with v-^2 = min(vw^2, cs-^2)",
           ok, f"v+^2 = {vpsq}; {how}"[:300], key="entropy|matching", how=how)
    # after the solve: the returned (v+, v-, T+, T-)
    chk.touch(fo.name)
    co = Ctx(S, fo)
    g = CFG(fo.node)
    rets = [r for r in g.nodes if isinstance(r, ast.Return) and isinstance(r.value, ast.Tuple) and len(r.value.elts) == 4]
    if len(rets) != 1 or not all(isinstance(e, ast.Name) for e in (rets[0].value.elts[0], rets[0].value.elts[2], rets[0].value.elts[3])):
        raise AnchorMissing("matchDeflagOrHyb: the returned (v+, v-, T+, T-) not found")
    r0 = rets[0]
    VPr, TP, TM_ = r0.value.elts[0].id, r0.value.elts[2].id, r0.value.elts[3].id
    VMe = r0.value.elts[1]
    # v+ when it was not given: the assignment(s) to the returned v+ that are reached only when the parameter is None
    defs = [d for d in g.reaching_defs(r0, VPr) if d is not CFG.ENTRY]
    cand = [d for d in defs if isinstance(d, ast.Assign)]
    if not cand or VPr != VP:
        raise AnchorMissing("matchDeflagOrHyb: v+ from entropy conservation after the solve not found")
    # (the test may be a named boolean, `fromEntropy = vp is None ... if fromEntropy:`, as long as vp is not re-bound in between)
    unguarded = [d for d in defs if not _only_when_named(g, d, f"{VP} is None", f"{VP} is not None", True)]
    keep = {TP, TM_} | ({VMe.id} if isinstance(VMe, ast.Name) else set())
    exo = Extractor(S, positive={TM_, TP})
    env = {"__module__": "hydrodynamics", "__class__": "Hydrodynamics"}
    Tp_, Tm_ = exo.sym(TP), exo.sym(TM_)
    vm_ = exo.sym(VMe.id) if isinstance(VMe, ast.Name) else exo.expr(co.resolve(VMe, keep=keep), dict(env))
    ok, how = True, ""
    for d in cand:
        val = exo.expr(co.resolve(d.value, keep=keep), dict(env))
        ok_d, how = is_zero(sp.expand(val**2) - (1 - Tp_**2 * (1 - vm_**2) / Tm_**2), chk.seed)
        ok = ok and bool(ok_d)
    chk.ob("R05.1", fo.where(cand[0]), "after the solve: v+ = sqrt(T-^2 - T+^2 (1 - v-^2))/T-, i.e. T+ gamma+ == T- gamma-", ok and not unguarded and len(cand) == len(defs),
           how if not unguarded else f"{how}; v+ is overwritten also when it was given by the caller", key="entropy|post-solve", how=how)
    # that assignment uses the solved temperatures and v- = sqrt(max(min(vw^2, cs^2(T-)), 0))
    okv = eqx(VMe, f"np.sqrt(max(min({VW}**2, self.thermodynamics.csqLowT({TM_})), 0))", co)
    # ... (T+, T-) being the inverse-mapped solution of the 2x2 solve
    sols = [st.targets[0].id for st in own_nodes(fo.node) if isinstance(st, ast.Assign) and isinstance(st.value, ast.Call) and (dotted(st.value.func) or "").split(".")[-1] == "root"
            and isinstance(st.targets[0], ast.Name)]
    tt = [st for st in own_nodes(fo.node) if isinstance(st, ast.Assign) and isinstance(st.targets[0], (ast.List, ast.Tuple)) and [n(e) for e in st.targets[0].elts] == [TP, TM_]]
    okt = len(sols) == 1 and len(tt) == 1 and eqx(tt[0].value, f"self._inverseMappingT({sols[0]}.x)", co)
    chk.ob("R05.1", fo.where(), "after the solve: v- = sqrt(max(min(vw^2, csqLowT(T-)), 0)) with the solved T-", okv and okt, key="vm|post-solve")
    chk.floor("R05.1", 3)


def _window(S, fi, ex):
    """(VMIN, VMAX): the locals that start at self.vMin and just below self.vJ"""
    env = {"__module__": "hydrodynamics", "__class__": "Hydrodynamics"}
    lo, hi = set(), set()
    for st in own_nodes(fi.node):
        if isinstance(st, ast.Assign) and len(st.targets) == 1 and isinstance(st.targets[0], ast.Name):
            if eqx(st.value, "self.vMin"):
                lo.add(st.targets[0].id)
            elif has(st.value, "self.vJ") and not any(isinstance(x, ast.Call) for x in ast.walk(st.value)):
                try:
                    d = ex.expr(st.value, dict(env)) - ex.sym("self.vJ")
                except Exception:
                    continue
                if isinstance(d, sp.Basic) and d.is_number and d < 0:
                    hi.add(st.targets[0].id)
    return (lo.pop() if len(lo) == 1 else None), (hi.pop() if len(hi) == 1 else None)


def r05_23(chk: Check):
    S = chk.src
    fi = S.func(f"{HY}.findvwLTE")
    chk.touch(fi.name)
    cx = Ctx(S, fi)
    ex = hydro_extractor(S)
    g = CFG(fi.node)
    # ---- roles
    rsc = calls_in(fi.node, "root_scalar")
    rets = [x for x in g.nodes if isinstance(x, ast.Return)]
    # the root solve whose root is returned -> the Tn-mismatch function; the other one -> the shock-front function
    main = []
    for c in rsc:
        tgt = [st.targets[0].id for st in own_nodes(fi.node) if isinstance(st, ast.Assign) and st.value is c and isinstance(st.targets[0], ast.Name)]
        if len(tgt) == 1 and any(eqx(r.value, f"float({tgt[0]}.root)") or eqx(r.value, f"{tgt[0]}.root") for r in rets):
            main.append((c, tgt[0]))
        elif any(r.value is not None and any(y is c for y in ast.walk(r.value)) for r in rets):
            main.append((c, None))
    if len(main) != 1 or not isinstance(kwarg(main[0][0], "f", 0), ast.Name):
        raise AnchorMissing("findvwLTE: the root solve whose root is returned (on a local function) not found")
    rs0, SOL = main[0]
    DIFF = kwarg(rs0, "f", 0).id
    fd = _local_func(S, fi, DIFF)
    others = {kwarg(c, "f", 0).id for c in rsc if c is not rs0 and isinstance(kwarg(c, "f", 0), ast.Name)} - {DIFF}
    if fd is None or len(others) != 1 or _local_func(S, fi, next(iter(others))) is None or len(fd.params()) != 1:
        raise AnchorMissing("findvwLTE: the Tn-mismatch function and the shock-front function (local functions handed to root_scalar) not found")
    SHOCK = others.pop()
    fs = _local_func(S, fi, SHOCK)
    vw = ex.sym("vw")
    val = ex.single(fd, {fd.params()[0]: vw})
    md = fn("matchDeflagOrHyb")(vw)
    want = fn("solveHydroShock")(vw, fn("getitem")(md, 0), fn("getitem")(md, 2)) - ex.sym("self.Tnucl")
    ok, how = is_zero(val - want, chk.seed)
    chk.ob("R05.2", fd.where(), "LTE root function == solveHydroShock(vw, v+, T+) - Tnucl with (v+, ., T+, .) = matchDeflagOrHyb(vw) "
           "(one argument: v+ fixed by entropy conservation)", ok, f"{val}; {how}", key="root-function", how=how)
    vals = ex.single(fs, {fs.params()[0]: vw})
    wants = fn("getitem")(md, 0) * vw - th("csqHighT")(fn("getitem")(md, 2))
    ok, how = is_zero(vals - wants, chk.seed)
    chk.ob("R05.2", fs.where(), "front-position function == v+ vw - csqHighT(T+) for the entropy-branch matching", ok, f"{vals}; {how}",
           key="front-function", how=how)
    # ---- R05.3 sentinels
    VMIN, VMAX = _window(S, fi, Extractor(S))
    ones = [r for r in rets if _is_const(r.value, 1)]
    zeros = [r for r in rets if _is_const(r.value, 0)]
    roots = [r for r in rets if r not in ones and r not in zeros]

    def evaluation(at: str | None):
        """(statement, expression text) of the evaluation of the mismatch at window end `at`: a local assigned DIFF(at), else the call itself"""
        if at is None:
            return None, None
        st = [x for x in g.nodes if isinstance(x, ast.Assign) and len(x.targets) == 1 and isinstance(x.targets[0], ast.Name) and eqx(x.value, f"{DIFF}({at})")]
        if len(st) == 1 and len(_stores(fi, st[0].targets[0].id)) == 1:
            return st[0], st[0].targets[0].id
        return None, f"{DIFF}({at})"

    evmax, TOP = evaluation(VMAX)
    evmin, BOT = evaluation(VMIN)
    COND1 = f"{TOP} > 0 or not self.success" if TOP else None
    top_ones = [r for r in ones if COND1 and _only_when(g, r, COND1, None, True, cx)]
    tests1 = [t for t in g.nodes if g.kind.get(t) == "test" and COND1 and _pol(t, COND1, None, cx) is not None]
    # `iff`: the branch of that test on which the condition holds returns 1 and nothing else
    ok1 = len(top_ones) >= 1 and len(tests1) == 1 and all(
        not g.reaches(g.branch(tests1[0], _pol(tests1[0], COND1, None, cx)), r, avoid=lambda q: q is tests1[0]) for r in rets if r not in top_ones)
    if ok1 and evmax is None:
        # inline form: the mismatch must be evaluated before the flag is read (left operand of the `or`)
        t = tests1[0]
        ok1 = isinstance(t, ast.BoolOp) and has(t.values[0], f"{DIFF}({VMAX})")
    chk.ob("R05.3", fi.where(), "runaway sentinel 1 is returned iff the Tn mismatch at the top of the window is positive or the matching failed",
           ok1, f"top-of-window mismatch `{TOP}`; {len(top_ones)} guarded return(s)", key="sentinel|1")
    handlers = [h for h in g.nodes if g.kind.get(h) == "handler" and h.type is not None and eqx(h.type, "ValueError")]
    ok_exc = all(r in top_ones or any(g.must_pass(CFG.ENTRY, r, lambda q: q is h) for h in handlers) for r in ones)
    chk.ob("R05.3", fi.where(), "every other `return 1` is the no-shock exit of the bracketing (except ValueError)", ok_exc and len(ones) == 2,
           key="sentinel|1-other")
    COND0 = f"{BOT} < 0" if BOT else None
    ok0 = len(zeros) == 1 and COND0 is not None and _only_when(g, zeros[0], COND0, f"{BOT} >= 0", True, cx) and evmin is not None
    if ok0:
        t0 = [t for t in g.nodes if g.kind.get(t) == "test" and _pol(t, COND0, f"{BOT} >= 0", cx) is not None]
        ok0 = len(t0) == 1 and all(not g.reaches(g.branch(t0[0], _pol(t0[0], COND0, f"{BOT} >= 0", cx)), r, avoid=lambda q: q is t0[0]) for r in rets if r is not zeros[0])
    chk.ob("R05.3", fi.where(), "static sentinel 0 is returned iff the mismatch is already negative at the smallest allowed velocity", ok0,
           f"bottom-of-window mismatch `{BOT}`", key="sentinel|0")
    br = kwarg(rs0, "bracket")
    okr = VMIN is not None and VMAX is not None and br is not None and (eqx(br, f"({VMIN}, {VMAX})") or eqx(br, f"[{VMIN}, {VMAX}]")) and len(roots) == 1 and SOL is not None
    chk.ob("R05.3", fi.where(), "otherwise the root of the mismatch bracketed by (vmin, vmax) is returned", okr, key="sentinel|root")
    okw = VMIN is not None and VMAX is not None and len(_stores(fi, VMIN)) == 1
    chk.ob("R05.3", fi.where(), "the window is [vMin, vJ) (narrowed to where the shock front is ahead of the wall)", okw, key="window")
    # order: the 1-decision is taken before the 0-decision (a failed matching at vmax never yields 0)
    if ones and zeros:
        chk.ob("R05.3", fi.where(), "the top-of-window decision precedes the bottom-of-window decision",
               bool(ok1) and all(_only_when(g, z, COND1, None, False, cx) for z in zeros) and (evmin is None or _only_when(g, evmin, COND1, None, False, cx)), key="order")
    # flag typestate: self.success = True before the first matching call, read after the vmax evaluation
    stores = [x for x in g.nodes if isinstance(x, ast.Assign) and eqx(x.targets[0], "self.success")]
    first_calls = [x for x in g.nodes if g.kind.get(x) != "def" and not isinstance(x, ast.FunctionDef) and
                   any(isinstance(c, ast.Call) and isinstance(c.func, ast.Name) and c.func.id in (SHOCK, DIFF) for c in ast.walk(x))]
    okf = len(stores) == 1 and eqx(stores[0].value, "True") and bool(first_calls) and \
        all(g.must_pass(CFG.ENTRY, c_, lambda q: q in stores) for c_ in first_calls)
    chk.ob("R05.3", fi.where(), "self.success is reset to True before any matching is evaluated", okf, key="flag-reset")
    reads = [x for x in g.nodes if g.kind.get(x) != "def" and reads_of(x, "self.success")]
    evalmax = [evmax] if evmax is not None else [x for x in g.nodes if g.kind.get(x) == "test" and VMAX and has(x, f"{DIFF}({VMAX})")]
    okr2 = bool(reads) and bool(evalmax) and all(r_ in evalmax or g.must_pass(CFG.ENTRY, r_, lambda q: q in evalmax) for r_ in reads)
    chk.ob("R05.3", fi.where(), "the flag is read after the evaluation at the top of the window", okr2, key="flag-read")
    chk.floor("R05.2", 2)
    chk.floor("R05.3", 8)


def r05_4(chk: Check):
    S = chk.src
    fm = S.func("manager:WallGoManager.wallSpeedLTE")
    chk.touch(fm.name)
    rets = [r for r in own_nodes(fm.node) if isinstance(r, ast.Return)]
    chk.ob("R05.4", fm.where(), "WallGoManager.wallSpeedLTE returns hydrodynamics.findvwLTE()",
           len(rets) == 1 and eqx(rets[0].value, "self.hydrodynamics.findvwLTE()", Ctx(S, fm)), key="manager")
    fe = S.func("equationOfMotion:EOM.solveWall")
    chk.touch(fe.name)
    ce = Ctx(S, fe)
    lte = [c for c in ast.walk(fe.node) if isinstance(c, ast.Call) and isinstance(c.func, ast.Attribute) and c.func.attr == "findvwLTE"]
    uses = [c for c in calls_in(fe.node, "setWallVelocities")]
    given = [kwarg(c, "wallVelocityLTE", 2) for c in uses]
    ok = all(eqx(c, "self.hydrodynamics.findvwLTE()") for c in lte) and any(a is not None and eqx(a, "self.hydrodynamics.findvwLTE()", ce) for a in given)
    chk.ob("R05.4", fe.where(), "EOM.solveWall reports the LTE velocity of hydrodynamics.findvwLTE()", ok, key="eom")
    ok = bool(uses) and all(a is not None and eqx(a, "self.hydrodynamics.findvwLTE()", ce) for a in given)
    chk.ob("R05.4", fe.where(), "every setWallVelocities(...) in solveWall passes that value as the LTE velocity", ok, key="eom-report")
    chk.floor("R05.4", 3)


def _rel(t):
    """(kind, lhs, rhs) of a relational term with the smaller side first: LT / LE"""
    if isinstance(t, sp.Basic) and isinstance(t, sp.core.function.AppliedUndef) and len(t.args) == 2:
        k = t.func.__name__
        if k in ("LT", "LE"):
            return k, t.args[0], t.args[1]
        if k in ("GT", "GE"):
            return {"GT": "LT", "GE": "LE"}[k], t.args[1], t.args[0]
    return None


def r05_5(chk: Check):
    S = chk.src
    ft = S.func(f"{TM}.findvwLTE")
    chk.touch(ft.name)
    ex = hydro_extractor(S)
    g = CFG(ft.node)
    ct = Ctx(S, ft)
    rets = [x for x in g.nodes if isinstance(x, ast.Return)]
    env = {"__module__": "hydrodynamicsTemplateModel", "__class__": "HydrodynamicsTemplateModel"}
    zero = [r for r in rets if _is_const(r.value, 0)]
    one = [r for r in rets if _is_const(r.value, 1)]
    rs = [c for c in calls_in(ft.node, "root_scalar")]
    if len(rs) != 1 or not isinstance(kwarg(rs[0], "f", 0), ast.Name) or _local_func(S, ft, kwarg(rs[0], "f", 0).id) is None:
        raise AnchorMissing("template findvwLTE: the root solve on a local shooting function not found")
    SH = kwarg(rs[0], "f", 0).id
    fs = _local_func(S, ft, SH)
    ok0 = False
    shown0 = ""
    if len(zero) == 1:
        al, psi, mu, nu = (ex.sym(f"self.{k}") for k in ("alN", "psiN", "mu", "nu"))
        want = {("LT", al, (1 - psi) / 3), ("LE", al, (mu - nu) / (3 * mu))}
        for t in g.nodes:
            if g.kind.get(t) != "test" or not (isinstance(t, ast.BoolOp) and isinstance(t.op, ast.Or) and len(t.values) == 2):
                continue
            shown0 = n(t)
            # the return is reached exactly through the true branch of this test
            if not (g.must_pass(CFG.ENTRY, zero[0], lambda q: q is t) and not g.reaches(g.branch(t, False), zero[0], avoid=lambda q: q is t)):
                continue
            if any(g.reaches(g.branch(t, True), r, avoid=lambda q: q is t) for r in rets if r is not zero[0]):
                continue
            try:
                got = [_rel(ex.expr(ct.resolve(v), dict(env))) for v in t.values]
            except Undecided:
                continue
            if all(x is not None for x in got):
                ok0 = all(any(x[0] == w[0] and is_zero(x[1] - w[1], chk.seed)[0] and is_zero(x[2] - w[2], chk.seed)[0] for x in got) for w in want) \
                    and len({x[0] for x in got}) == 2
    chk.ob("R05.5", ft.where(), "template: 0 is returned iff alpha_n < (1 - Psi_n)/3 or alpha_n <= (mu - nu)/(3 mu)", ok0, shown0[:200], key="template|0")
    COND = f"self.alN > self.maxAl(100) or {SH}(self.vJ) < 0"
    ok1 = len(one) == 1 and _only_when(g, one[0], COND, None, True, ct)
    if ok1:
        t1 = [t for t in g.nodes if g.kind.get(t) == "test" and _pol(t, COND, None, ct) is not None]
        ok1 = len(t1) == 1 and all(not g.reaches(g.branch(t1[0], _pol(t1[0], COND, None, ct)), r, avoid=lambda q: q is t1[0]) for r in rets if r is not one[0])
    chk.ob("R05.5", ft.where(), "template: 1 is returned iff alpha_n > maxAl or the shooting residual at vJ is negative", ok1, key="template|1")
    vw = ex.sym("vw")
    val = ex.single(fs, {fs.params()[0]: vw})
    al = fn("solveAlpha")(vw)
    vm = sp.Min(ex.sym("self.cb"), vw)
    want = fn("_shooting")(vw, fn("getVp")(vm, al))
    ok, how = is_zero(val - want, chk.seed)
    chk.ob("R05.5", fs.where(), "template root function == _shooting(vw, getVp(min(cb, vw), solveAlpha(vw)))", ok, f"{val}; {how}", key="template|root-function", how=how)
    b = kwarg(rs[0], "bracket")
    SOLt = [st.targets[0].id for st in own_nodes(ft.node) if isinstance(st, ast.Assign) and st.value is rs[0] and isinstance(st.targets[0], ast.Name)]
    other = [r for r in rets if r not in zero and r not in one]
    ok = b is not None and (eqx(b, "[1e-3, self.vJ]", ct) or eqx(b, "(1e-3, self.vJ)", ct)) and len(other) == 1 and \
        ((len(SOLt) == 1 and (eqx(other[0].value, f"float({SOLt[0]}.root)") or eqx(other[0].value, f"{SOLt[0]}.root")))
         or (other[0].value is not None and any(y is rs[0] for y in ast.walk(other[0].value))))
    chk.ob("R05.5", ft.where(), "template: the LTE velocity is the bracketed root of that function on [1e-3, vJ]", ok, key="template|root")
    chk.floor("R05.5", 4)


def r05_9(chk: Check) -> None:
    """maxAl: when the wall residual at vw = vJ has no sign change on [lowerLimit, upperLimit], the bound returned is the end of the range at which
    the residual was tested: negative at the upper end and everywhere -> the maximal alpha_n lies above the range -> upperLimit; positive at the lower
    end and everywhere -> lowerLimit.  (findvwLTE compares alN with this bound to decide between a solution and the runaway sentinel.)"""
    import ast
    from ..core import walk_guarded
    from ..hydro import TM
    from ..nf import Ctx, match
    S = chk.src
    fi = S.func(f"{TM}.maxAl")
    chk.touch(fi.name)
    cx = Ctx(S, fi)
    cnt = 0
    for guards, st in walk_guarded(fi.node):
        if not isinstance(st, ast.Return) or not guards:
            continue
        tested = None
        for t, pol in guards:
            if isinstance(t, tuple) or not pol:
                continue
            b = match(t, "__F(__X) < 0", cx) or match(t, "__F(__X) > 0", cx)
            if b:
                tested = b["X"]
        if tested is None:
            continue
        cnt += 1
        ok = isinstance(st.value, ast.Name) and st.value.id == tested
        chk.ob("R05.9", fi.where(st), f"maxAl: without a sign change the bound returned is the end `{tested}` at which the residual was tested", ok,
               f"returns `{ast.unparse(st.value) if st.value is not None else None}`", key=f"maxAl-no-root|{cnt}")
    if cnt < 2:
        from ..core import AnchorMissing
        raise AnchorMissing("maxAl: the two no-sign-change exits not found")
    chk.floor("R05.9", 2)


def r05_10(chk: Check) -> None:
    """findvwLTE decides its two sentinels (1: too strong, 0: too weak) from the sign of the nucleation-temperature mismatch evaluated at one end of the
    window.  Each such evaluation runs the 2x2 matching, which may fail to converge and records that in self.success; a sentinel drawn from an
    unconverged matching is not a statement about the transition.  The flag must be consulted between the evaluation and the sentinel return -- at
    BOTH ends (the upper end does; a contradiction between the two sites is what this rule looks for)."""
    S = chk.src
    fi = S.func(f"{HY}.findvwLTE")
    chk.touch(fi.name)
    g = CFG(fi.node)
    cx = Ctx(S, fi)
    evalfns = {f.node.name for f in S.modules[fi.module].funcs.values() if f.parent is fi and any(True for _ in calls_in(f.node, "matchDeflagOrHyb"))}
    cnt = 0
    evals = {}      # local name -> the statement `D = <evaluation function>(...)`
    for d in g.nodes:
        if isinstance(d, ast.Assign) and len(d.targets) == 1 and isinstance(d.targets[0], ast.Name) and isinstance(d.value, ast.Call) \
                and isinstance(d.value.func, ast.Name) and d.value.func.id in evalfns:
            evals[d.targets[0].id] = d
    is_eval = lambda q: isinstance(q, ast.AST) and g.kind.get(q) != "def" and any(isinstance(c, ast.Call) and isinstance(c.func, ast.Name) and c.func.id in evalfns for c in ast.walk(q))
    for t in g.nodes:
        if g.kind.get(t) != "test":
            continue
        rt = cx.resolve(t, keep=set(evals))
        ds = [a.id for c in ast.walk(rt) if isinstance(c, ast.Compare) and len(c.ops) == 1
              for a, b_ in ((c.left, c.comparators[0]), (c.comparators[0], c.left))
              if isinstance(a, ast.Name) and a.id in evals and isinstance(b_, ast.Constant) and b_.value == 0]
        if not ds:
            continue
        # the sentinel this test decides: a `return 0 / 1` reached from exactly one of its branches without another test or evaluation in between
        stop = lambda q: q is not t and (g.kind.get(q) == "test" or is_eval(q))
        reach = {pol: {q for s0 in g.branch(t, pol) for q in g.reachable(s0, avoid=stop, include_start=True)
                       if isinstance(q, ast.Return) and isinstance(q.value, ast.Constant) and q.value.value in (0, 1)} for pol in (True, False)}
        sentinel = [q for q in (reach[True] ^ reach[False])]
        if not sentinel:
            continue
        cnt += 1
        nm, d = ds[0], evals[ds[0]]
        consulted = reads_of(t, "self.success") or reads_of(rt, "self.success") or \
            g.must_pass(d, sentinel[0], lambda q: q is not t and g.kind.get(q) == "test" and (reads_of(q, "self.success") or reads_of(cx.resolve(q), "self.success")))
        chk.ob("R05.10", fi.where(t), f"findvwLTE returns the sentinel {sentinel[0].value.value} on the sign of `{nm}` only after consulting the convergence flag of the matching that "
               "produced it", bool(consulted), f"`{n(t)[:60]}` does not read self.success", key=f"sentinel-flag|Hydrodynamics.findvwLTE|{sentinel[0].value.value}")
    if cnt < 2:
        raise AnchorMissing("findvwLTE: the two sentinel decisions not found")
    chk.floor("R05.10", 2)


def rules(chk: Check) -> None:
    for grp in (r05_1, r05_23, r05_4, r05_5, r05_9, r05_10):
        chk.stage(grp, chk)
    # R05.6: the matching handed back at the LTE velocity is the exact one: the re-evaluation of the upper end of the v+ bracket (cs^2 at T+ instead
    # of Tn) is entered on a sign change between the very points it then brackets, so it is not silently skipped in favour of the template fallback
    from .shared import guarded_brackets
    from .shared import per_object_state
    chk.stage(per_object_state, chk, "R05.6", ("Hydrodynamics", "HydrodynamicsTemplateModel", "Thermodynamics", "FreeEnergy", "InterpolatableFunction"))
    chk.stage(guarded_brackets, chk, "R05.6", ["hydrodynamics:Hydrodynamics.findMatching", "hydrodynamics:Hydrodynamics.findvwLTE"], floor=2)
    # R05.7: tiny offsets of bracket ends point into the bracket (the end never lands just outside the admissible interval, where the
    # bracketed function jumps); results of root finders stored in locals are read (a refined bracket end is not dropped)
    from .shared import bracket_offsets_inward, solver_results_consumed
    chk.stage(bracket_offsets_inward, chk, "R05.7", ("hydrodynamics", "hydrodynamicsTemplateModel"), 1)
    chk.stage(solver_results_consumed, chk, "R05.7", ("hydrodynamics", "hydrodynamicsTemplateModel"), 10)
    # R05.8: initial guesses / brackets of the matching carry no hard-wired absolute scale (a bare number where a temperature is expected makes
    # the LTE velocity depend on the units of T: shared with C07 R07.4, hydrodynamics modules only)
    from ..core import Remap
    from . import c07
    chk.stage(c07.rules, Remap(chk, {"R07.4": "R05.8"}, only=lambda r, k, w: "hydrodynamics" in str(w)))
    chk.floor("R05.8", 3)
