"""C05 -- LTE wall velocity conserves entropy flux across the wall.

R05.1 the entropy relation T+ gamma+ = T- gamma- at both sites (inside the 2x2 matching, after the solve)
R05.2 the LTE root function: entropy-branch matching -> shock integration -> Tn mismatch
R05.3 sentinel table (1 <-> mismatch positive at the top of the window or failed matching; 0 <-> negative at the bottom); flag typestate
R05.4 manager and wall solver obtain the LTE velocity from the same routine
R05.5 template model: sentinel conditions and shooting function of its own LTE solver
"""
from __future__ import annotations

import ast

import sympy as sp

from ..core import AnchorMissing, Check, Undecided, calls_in, dotted, kwarg, own_nodes, src, walk_guarded
from ..flow import CFG, reads_of
from ..hydro import HY, TM, drop_ite, fn, hydro_extractor, junction_terms, n, th
from ..terms import Extractor, is_zero

LEVEL = "other"


def r05_1(chk: Check):
    S = chk.src
    ex, fj, vpvm, vpovm = junction_terms(S)
    fm = S.func(f"{HY}.matchDeflagOrHyb.matching")
    chk.touch(fm.name)
    exm = hydro_extractor(S)
    ps = [p for p in exm.paths(fm, None, {"vp": None}) if p.raised is None]
    if len(ps) != 1:
        raise Undecided("matching (entropy branch): expected one path")
    e1, e2 = (drop_ite(x) for x in ps[0].value)
    c = ps[0].env.get("c")
    Tpm = fn("_inverseMappingT")(exm.sym("mappedTpTm"))
    T0, T1 = fn("getitem")(Tpm, 0), fn("getitem")(Tpm, 1)
    Tp, Tm = ex.sym("Tp"), ex.sym("Tm")
    A1 = (vpvm * vpovm).subs({Tp: T0, Tm: T1}, simultaneous=True)
    vpsq = sp.simplify(A1 - e1 / c)          # the v+^2 the solver imposes
    vmsq = sp.Min(exm.sym("vw") ** 2, th("csqLowT")(T1))
    # T+^2 gamma+^2 == T-^2 gamma-^2
    ok, how = is_zero(T0**2 / (1 - vpsq) - T1**2 / (1 - vmsq), chk.seed)
    chk.ob("R05.1", fm.where(), "inside the matching (vp=None): the imposed v+^2 satisfies T+^2 gamma+^2 == T-^2 gamma-^2 with v-^2 = min(vw^2, cs-^2)",
           ok, f"v+^2 = {vpsq}; {how}"[:300], key="entropy|matching", how=how)
    # after the solve
    fo = S.func(f"{HY}.matchDeflagOrHyb")
    chk.touch(fo.name)
    cand = []
    for guards, st in walk_guarded(fo.node):
        if isinstance(st, ast.Assign) and n(st.targets[0]) == "vp" and any(pol and n(t) == "vp is None" for t, pol in guards if not isinstance(t, tuple)):
            cand.append(st)
    cand = [c_ for c_ in cand if "sqrt" in n(c_.value)]
    if len(cand) != 1:
        raise AnchorMissing("matchDeflagOrHyb: v+ from entropy conservation after the solve not found")
    exo = Extractor(S, positive={"Tm", "Tp"})
    val = exo.expr(cand[0].value, {"__module__": "hydrodynamics", "__class__": "Hydrodynamics"})
    Tp_, Tm_, vm_ = exo.sym("Tp"), exo.sym("Tm"), exo.sym("vm")
    ok, how = is_zero(sp.expand(val**2) - (1 - Tp_**2 * (1 - vm_**2) / Tm_**2), chk.seed)
    chk.ob("R05.1", fo.where(cand[0]), "after the solve: v+ = sqrt(T-^2 - T+^2 (1 - v-^2))/T-, i.e. T+ gamma+ == T- gamma-", ok, how,
           key="entropy|post-solve", how=how)
    # that assignment uses the solved temperatures and v- = sqrt(max(min(vw^2, cs^2(T-)), 0))
    defs = {}
    for st in own_nodes(fo.node):
        if isinstance(st, ast.Assign) and isinstance(st.targets[0], ast.Name):
            defs.setdefault(st.targets[0].id, []).append(st.value)
    okv = any(n(v_).replace(" ", "") == "min(vw**2,self.thermodynamics.csqLowT(Tm))" for v_ in defs.get("vmsq", [])) and \
        any(n(v_).replace(" ", "") == "np.sqrt(max(vmsq,0))" for v_ in defs.get("vm", []))
    chk.ob("R05.1", fo.where(), "after the solve: v- = sqrt(max(min(vw^2, csqLowT(T-)), 0)) with the solved T-", okv, key="vm|post-solve")
    chk.floor("R05.1", 3)


def r05_23(chk: Check):
    S = chk.src
    fi = S.func(f"{HY}.findvwLTE")
    chk.touch(fi.name)
    ex = hydro_extractor(S)
    fd = S.func(f"{HY}.findvwLTE.shockTnuclDiff")
    val = ex.single(fd)
    vw = ex.sym("vw")
    md = fn("matchDeflagOrHyb")(vw)
    want = fn("solveHydroShock")(vw, fn("getitem")(md, 0), fn("getitem")(md, 2)) - ex.sym("self.Tnucl")
    ok, how = is_zero(val - want, chk.seed)
    chk.ob("R05.2", fd.where(), "LTE root function == solveHydroShock(vw, v+, T+) - Tnucl with (v+, ., T+, .) = matchDeflagOrHyb(vw) "
           "(one argument: v+ fixed by entropy conservation)", ok, f"{val}; {how}", key="root-function", how=how)
    fs = S.func(f"{HY}.findvwLTE.shock")
    vals = ex.single(fs)
    wants = fn("getitem")(md, 0) * vw - th("csqHighT")(fn("getitem")(md, 2))
    ok, how = is_zero(vals - wants, chk.seed)
    chk.ob("R05.2", fs.where(), "front-position function == v+ vw - csqHighT(T+) for the entropy-branch matching", ok, f"{vals}; {how}",
           key="front-function", how=how)
    # ---- R05.3 sentinels
    g = CFG(fi.node)
    rets = [x for x in g.nodes if isinstance(x, ast.Return)]
    table = []
    for guards, st in walk_guarded(fi.node):
        if isinstance(st, ast.Return):
            gs = [(n(t) if not isinstance(t, (tuple, ast.ExceptHandler)) else ("except " + n(t.type) if isinstance(t, ast.ExceptHandler) and t.type else "case"), pol)
                  for t, pol in guards]
            table.append((n(st.value), gs, st))
    ones = [t for t in table if t[0] == "1"]
    zeros = [t for t in table if t[0] == "0"]
    roots = [t for t in table if t[0] not in ("0", "1")]
    # names
    defs = {}
    for st in own_nodes(fi.node):
        if isinstance(st, ast.Assign) and isinstance(st.targets[0], ast.Name):
            defs.setdefault(st.targets[0].id, []).append(st.value)

    def is_call(name, arg):
        return any(isinstance(v, ast.Call) and n(v.func) == "shockTnuclDiff" and n(v.args[0]) == arg for v in defs.get(name, []))

    ok1 = False
    for val_, gs, st in ones:
        for gtxt, pol in gs:
            if pol and gtxt.replace(" ", "") in ("shockTnuclDiffMax>0ornotself.success",):
                ok1 = is_call("shockTnuclDiffMax", "vmax")
    chk.ob("R05.3", fi.where(), "runaway sentinel 1 is returned iff the Tn mismatch at the top of the window is positive or the matching failed",
           ok1, str([(v_, g_) for v_, g_, _ in ones])[:300], key="sentinel|1")
    ok_exc = all(any(g_[0].startswith("except ValueError") for g_ in gs) or any(g_[1] and "shockTnuclDiffMax" in g_[0] for g_ in gs) for _, gs, _ in ones)
    chk.ob("R05.3", fi.where(), "every other `return 1` is the no-shock exit of the bracketing (except ValueError)", ok_exc and len(ones) == 2,
           key="sentinel|1-other")
    ok0 = len(zeros) == 1 and any(pol and gtxt.replace(" ", "") == "shockTnuclDiffMin<0" for gtxt, pol in zeros[0][1]) and is_call("shockTnuclDiffMin", "vmin")
    chk.ob("R05.3", fi.where(), "static sentinel 0 is returned iff the mismatch is already negative at the smallest allowed velocity", ok0,
           str([(v_, g_) for v_, g_, _ in zeros])[:300], key="sentinel|0")
    rs = [c for c in calls_in(fi.node, "root_scalar") if n(c.args[0]) == "shockTnuclDiff"]
    okr = len(rs) == 1 and n(kwarg(rs[0], "bracket")).strip("()[]").replace(" ", "") == "vmin,vmax" and len(roots) == 1 and "sol.root" in roots[0][0]
    chk.ob("R05.3", fi.where(), "otherwise the root of the mismatch bracketed by (vmin, vmax) is returned", okr, key="sentinel|root")
    okw = any(n(v) == "self.vMin" for v in defs.get("vmin", [])) and any(n(v).startswith("self.vJ -") for v in defs.get("vmax", []))
    chk.ob("R05.3", fi.where(), "the window is [vMin, vJ) (narrowed to where the shock front is ahead of the wall)", okw, key="window")
    # order: the 1-decision is taken before the 0-decision (a failed matching at vmax never yields 0)
    if ones and zeros:
        first1 = min(o[2].lineno for o in ones if any(g_[1] and "shockTnuclDiffMax" in g_[0] for g_ in o[1])) if ok1 else 0
        chk.ob("R05.3", fi.where(), "the top-of-window decision precedes the bottom-of-window decision", ok1 and first1 < zeros[0][2].lineno, key="order")
    # flag typestate: self.success = True before the first matching call, read after the vmax evaluation
    stores = [x for x in g.nodes if isinstance(x, ast.Assign) and n(x.targets[0]) == "self.success"]
    first_calls = [x for x in g.nodes if not isinstance(x, (ast.FunctionDef,)) and g.kind.get(x) != "def" and
                   any(isinstance(c, ast.Call) and n(c.func) in ("shock", "shockTnuclDiff") for c in ast.walk(x) if not isinstance(x, ast.FunctionDef))]
    okf = len(stores) == 1 and n(stores[0].value) == "True" and \
        all(g.must_pass(CFG.ENTRY, c_, lambda q: q in stores) for c_ in first_calls)
    chk.ob("R05.3", fi.where(), "self.success is reset to True before any matching is evaluated", okf, key="flag-reset")
    reads = [x for x in g.nodes if g.kind.get(x) != "def" and reads_of(x, "self.success")]
    evalmax = [x for x in g.nodes if isinstance(x, ast.Assign) and n(x.targets[0]) == "shockTnuclDiffMax"]
    okr2 = bool(reads) and bool(evalmax) and all(g.must_pass(CFG.ENTRY, r_, lambda q: q in evalmax) for r_ in reads)
    chk.ob("R05.3", fi.where(), "the flag is read after the evaluation at the top of the window", okr2, key="flag-read")
    chk.floor("R05.2", 2)
    chk.floor("R05.3", 8)


def r05_4(chk: Check):
    S = chk.src
    fm = S.func("manager:WallGoManager.wallSpeedLTE")
    chk.touch(fm.name)
    rets = [r for r in own_nodes(fm.node) if isinstance(r, ast.Return)]
    chk.ob("R05.4", fm.where(), "WallGoManager.wallSpeedLTE returns hydrodynamics.findvwLTE()",
           len(rets) == 1 and n(rets[0].value) == "self.hydrodynamics.findvwLTE()", key="manager")
    fe = S.func("equationOfMotion:EOM.solveWall")
    chk.touch(fe.name)
    a = [st for st in own_nodes(fe.node) if isinstance(st, ast.Assign) and n(st.targets[0]) == "wallVelocityLTE"]
    ok = len(a) == 1 and n(a[0].value) == "self.hydrodynamics.findvwLTE()"
    chk.ob("R05.4", fe.where(), "EOM.solveWall reports the LTE velocity of hydrodynamics.findvwLTE()", ok, key="eom")
    uses = [c for c in calls_in(fe.node, "setWallVelocities")]
    ok = bool(uses) and all((kwarg(c, "wallVelocityLTE", 2) is not None and n(kwarg(c, "wallVelocityLTE", 2)) == "wallVelocityLTE") for c in uses)
    chk.ob("R05.4", fe.where(), "every setWallVelocities(...) in solveWall passes that value as the LTE velocity", ok, key="eom-report")
    chk.floor("R05.4", 3)


def r05_5(chk: Check):
    S = chk.src
    ft = S.func(f"{TM}.findvwLTE")
    chk.touch(ft.name)
    ex = hydro_extractor(S)
    table = []
    for guards, st in walk_guarded(ft.node):
        if isinstance(st, ast.Return):
            table.append((n(st.value), [(n(t), pol) for t, pol in guards if not isinstance(t, tuple)]))
    env = {"__module__": "hydrodynamicsTemplateModel", "__class__": "HydrodynamicsTemplateModel"}
    zero = [t for t in table if t[0] in ("0.0", "0")]
    one = [t for t in table if t[0] in ("1.0", "1")]
    ok0 = False
    if len(zero) == 1:
        gtxt = [g_ for g_, pol in zero[0][1] if pol]
        if gtxt:
            test = ast.parse(gtxt[-1], mode="eval").body
            if isinstance(test, ast.BoolOp) and isinstance(test.op, ast.Or) and len(test.values) == 2:
                a, b = (ex.expr(v, env) for v in test.values)
                al, psi, mu, nu = (ex.sym(f"self.{k}") for k in ("alN", "psiN", "mu", "nu"))
                ok0 = str(a) == str(sp.Function("LT")(al, (1 - psi) / 3)) and str(b) == str(sp.Function("LE")(al, (mu - nu) / (3 * mu)))
    chk.ob("R05.5", ft.where(), "template: 0 is returned iff alpha_n < (1 - Psi_n)/3 or alpha_n <= (mu - nu)/(3 mu)", ok0, str(zero)[:200], key="template|0")
    ok1 = len(one) == 1 and any(pol and g_.replace(" ", "") == "self.alN>self.maxAl(100)orshootingInLTE(self.vJ)<0" for g_, pol in one[0][1])
    chk.ob("R05.5", ft.where(), "template: 1 is returned iff alpha_n > maxAl or the shooting residual at vJ is negative", ok1, str(one)[:200], key="template|1")
    fs = S.func(f"{TM}.findvwLTE.shootingInLTE")
    val = ex.single(fs)
    vw = ex.sym("vw")
    al = fn("solveAlpha")(vw)
    vm = sp.Min(ex.sym("self.cb"), vw)
    want = fn("_shooting")(vw, fn("getVp")(vm, al))
    ok, how = is_zero(val - want, chk.seed)
    chk.ob("R05.5", fs.where(), "template root function == _shooting(vw, getVp(min(cb, vw), solveAlpha(vw)))", ok, f"{val}; {how}", key="template|root-function", how=how)
    rs = [c for c in calls_in(ft.node, "root_scalar")]
    ok = len(rs) == 1 and n(rs[0].args[0]) == "shootingInLTE" and n(kwarg(rs[0], "bracket")).replace(" ", "") in ("[0.001,self.vJ]", "[1e-3,self.vJ]", "(0.001,self.vJ)")
    chk.ob("R05.5", ft.where(), "template: the LTE velocity is the bracketed root of that function on [1e-3, vJ]", ok, key="template|root")
    chk.floor("R05.5", 4)


def rules(chk: Check) -> None:
    r05_1(chk)
    r05_23(chk)
    r05_4(chk)
    r05_5(chk)
