"""C18 -- interpolated functions honour their evaluation contract for every call history.

R18.1 masked assignment provenance: results[mask] = g(arg) -> arg is the input restricted by the same mask
R18.2 rank: subscript arity on the out-of-bounds result fits its rank for vector- and scalar-valued functions
R18.3 per-point finiteness masks have the rank of the abscissa array in both arms
R18.4 exhaustive per-side mode dispatch with side-consistent operands
R18.5 table state group written together, only by _interpolate; extension keeps (below, old, above) order
R18.6 typestate: a change of extrapolation mode rebuilds the spline when a table exists
R18.7 writer and reader of the text format agree
"""
from __future__ import annotations

import ast

import sympy as sp

from ..core import (AnchorMissing, Check, Undecided, attr_stores, calls_in, dotted, kwarg, own_nodes, src,
                    walk_guarded, slice_src)
from ..flow import CFG
from ..terms import Extractor

LEVEL = "other"
IF = "interpolatableFunction:InterpolatableFunction"
STATE = ["_interpolatedFunction", "_rangeMin", "_rangeMax", "_interpolationPoints", "_interpolationValues",
         "_interpolatedDerivatives"]


def n(x: ast.AST) -> str:
    return " ".join(src(x).split())


# ------------------------------------------------------------------ R18.1
def _mask_summaries(chk: Check) -> dict:
    """methods returning (mask-of-param, ...): name -> param index"""
    out = {}
    ci = chk.src.cls(IF)
    for name, fi in ci.methods.items():
        rets = [r for r in own_nodes(fi.node) if isinstance(r, ast.Return) and isinstance(r.value, ast.Tuple)]
        if len(rets) != 1:
            continue
        first = rets[0].value.elts[0]
        if not isinstance(first, ast.Name):
            continue
        # definition of that name: boolean combination of comparisons on one parameter
        for st in own_nodes(fi.node):
            if isinstance(st, ast.Assign) and len(st.targets) == 1 and n(st.targets[0]) == first.id:
                comps = [c for c in ast.walk(st.value) if isinstance(c, ast.Compare)]
                names = {c.left.id for c in comps if isinstance(c.left, ast.Name)}
                params = [p for p in fi.params() if p != "self"]
                if comps and len(names) == 1 and list(names)[0] in params:
                    out[name] = params.index(list(names)[0])
    return out


def _masks_in(fi, summaries) -> dict:
    """local name -> base array name, for boolean masks defined in the function"""
    masks: dict[str, str] = {}
    changed = True
    stmts = [st for st in own_nodes(fi.node) if isinstance(st, ast.Assign) and len(st.targets) == 1]
    while changed:
        changed = False
        for st in stmts:
            t, v = st.targets[0], st.value
            # m = x <= c   /  m = (x <= a) & (x >= b)
            if isinstance(t, ast.Name) and t.id not in masks:
                comps = [c for c in ast.walk(v) if isinstance(c, ast.Compare)]
                if comps and isinstance(v, (ast.Compare, ast.BinOp, ast.BoolOp)):
                    bases = {c.left.id for c in comps if isinstance(c.left, ast.Name)}
                    if len(bases) == 1:
                        masks[t.id] = list(bases)[0]
                        changed = True
                # m2 = ~m
                if isinstance(v, ast.UnaryOp) and isinstance(v.op, (ast.Invert, ast.Not)) and isinstance(v.operand, ast.Name) \
                        and v.operand.id in masks:
                    masks[t.id] = masks[v.operand.id]
                    changed = True
            # m, shape = self._findInterpolatablePoints(x)
            if isinstance(t, ast.Tuple) and isinstance(v, ast.Call) and isinstance(v.func, ast.Attribute) \
                    and v.func.attr in summaries and isinstance(t.elts[0], ast.Name) and t.elts[0].id not in masks:
                idx = summaries[v.func.attr]
                if idx < len(v.args) and isinstance(v.args[idx], ast.Name):
                    masks[t.elts[0].id] = v.args[idx].id
                    changed = True
    return masks


def r18_1(chk: Check) -> None:
    ci = chk.src.cls(IF)
    summ = _mask_summaries(chk)
    chk.note(f"mask summaries: {summ}")
    count = 0
    for name, fi in sorted(ci.methods.items()):
        masks = _masks_in(fi, summ)
        if not masks:
            continue
        chk.touch(fi.name)
        # restricted aliases: r = x[m]
        alias: dict[str, tuple[str, str]] = {}
        for st in own_nodes(fi.node):
            if isinstance(st, ast.Assign) and len(st.targets) == 1 and isinstance(st.targets[0], ast.Name):
                v = st.value
                if isinstance(v, ast.Subscript) and isinstance(v.value, ast.Name) and isinstance(v.slice, ast.Name) \
                        and v.slice.id in masks and masks[v.slice.id] == v.value.id:
                    alias[st.targets[0].id] = (v.value.id, v.slice.id)
        for st in own_nodes(fi.node):
            if not (isinstance(st, ast.Assign) and len(st.targets) == 1 and isinstance(st.targets[0], ast.Subscript)):
                continue
            tgt = st.targets[0]
            sl = tgt.slice
            m = sl if isinstance(sl, ast.Name) else (sl.elts[0] if isinstance(sl, ast.Tuple) and isinstance(sl.elts[0], ast.Name) else None)
            if m is None or m.id not in masks:
                continue
            base = masks[m.id]
            bad = []
            # all loads of the base array (or of its restricted aliases) on the right-hand side
            parents = {}
            for p in ast.walk(st.value):
                for c in ast.iter_child_nodes(p):
                    parents[c] = p
            for x in ast.walk(st.value):
                if isinstance(x, ast.Name) and isinstance(x.ctx, ast.Load):
                    if x.id == base:
                        par = parents.get(x)
                        if isinstance(par, ast.Subscript) and par.value is x and isinstance(par.slice, ast.Name):
                            if par.slice.id != m.id and not _same_mask(fi, par.slice.id, m.id):
                                bad.append(f"`{n(par)}` is restricted by `{par.slice.id}`, the store by `{m.id}`")
                        elif isinstance(par, ast.Attribute) and par.attr in ("shape", "ndim", "dtype", "size"):
                            pass
                        else:
                            bad.append(f"the whole array `{base}` is passed, not `{base}[{m.id}]`")
                    elif x.id in alias:
                        b2, m2 = alias[x.id]
                        if b2 == base and m2 != m.id and not _same_mask(fi, m2, m.id):
                            bad.append(f"`{x.id}` = {b2}[{m2}] but the store is masked by `{m.id}`")
            count += 1
            chk.ob("R18.1", fi.where(st), f"{name}: `{n(tgt)} = ...` evaluates only the points selected by `{m.id}`",
                   not bad, "; ".join(bad) + f"  [{n(st)[:120]}]", key=f"masked|{name}|{m.id}|{_callee_key(st.value)}")
    # out-of-range points go through the mode dispatch (_evaluateOutOfBounds), in-range points through the spline
    for name in ("evaluate", "derivative"):
        fi = ci.methods.get(name)
        if fi is None:
            raise AnchorMissing(f"InterpolatableFunction.{name} not found")
        inside, outside = set(), set()
        for st in own_nodes(fi.node):
            if isinstance(st, ast.Assign) and len(st.targets) == 1:
                t, v = st.targets[0], st.value
                if isinstance(t, ast.Tuple) and isinstance(v, ast.Call) and isinstance(v.func, ast.Attribute) and v.func.attr in summ \
                        and isinstance(t.elts[0], ast.Name):
                    inside.add(t.elts[0].id)
        for st in own_nodes(fi.node):
            if isinstance(st, ast.Assign) and isinstance(st.targets[0], ast.Name) and isinstance(st.value, ast.UnaryOp) \
                    and isinstance(st.value.op, (ast.Invert, ast.Not)) and isinstance(st.value.operand, ast.Name) and st.value.operand.id in inside:
                outside.add(st.targets[0].id)
        seen_out = seen_in = 0
        for st in own_nodes(fi.node):
            if isinstance(st, ast.Assign) and isinstance(st.targets[0], ast.Subscript) and isinstance(st.targets[0].slice, ast.Name):
                m = st.targets[0].slice.id
                used = {x.attr for x in ast.walk(st.value) if isinstance(x, ast.Attribute) and isinstance(x.value, ast.Name) and x.value.id == "self"}
                if m in outside:
                    seen_out += 1
                    ok = "_evaluateOutOfBounds" in used and not ({"_evaluateDirectly", "_functionImplementation"} & used)
                    chk.ob("R18.1", fi.where(st), f"{name}: out-of-range entries are computed through the per-side mode dispatch "
                           "(_evaluateOutOfBounds), not by direct evaluation", ok, n(st)[:140], key=f"dispatch|{name}|outside")
                elif m in inside:
                    seen_in += 1
                    want = "evaluateInterpolation" if name == "evaluate" else "_interpolatedDerivatives"
                    ok = want in used and not ({"_evaluateDirectly", "_functionImplementation", "_evaluateOutOfBounds"} & used)
                    chk.ob("R18.1", fi.where(st), f"{name}: in-range entries come from the spline ({want})", ok, n(st)[:140],
                           key=f"dispatch|{name}|inside")
        if not (seen_out and seen_in):
            raise AnchorMissing(f"{name}: masked stores for inside/outside points not found")
    chk.floor("R18.1", 12)


def _same_mask(fi, a: str, b: str) -> bool:
    return a == b


def _callee_key(v: ast.expr) -> str:
    if isinstance(v, ast.Call):
        d = dotted(v.func)
        if d:
            return d
        if isinstance(v.func, ast.Subscript):
            return n(v.func.value)
    return type(v).__name__


# ------------------------------------------------------------------ R18.2
def r18_2(chk: Check) -> None:
    fi = chk.src.func(f"{IF}._evaluateOutOfBounds")
    chk.touch(fi.name)
    # rank offsets of the result per arm
    offsets = []
    for guards, st in walk_guarded(fi.node):
        if isinstance(st, ast.Assign) and len(st.targets) == 1 and isinstance(st.targets[0], ast.Name):
            v = st.value
            txt = n(v)
            if txt.startswith("x.shape"):
                if isinstance(v, ast.BinOp) and isinstance(v.op, ast.Add) and isinstance(v.right, ast.Tuple):
                    offsets.append((st.targets[0].id, len(v.right.elts), guards))
                elif isinstance(v, ast.Attribute):
                    offsets.append((st.targets[0].id, 0, guards))
    if len(offsets) < 2:
        raise AnchorMissing("_evaluateOutOfBounds: result-shape arms not found")
    shape_var = offsets[0][0]
    min_off = min(o for _, o, _ in offsets)
    res_names = set()
    for st in own_nodes(fi.node):
        if isinstance(st, ast.Assign) and isinstance(st.value, ast.Call) and (dotted(st.value.func) or "").endswith("empty") \
                and st.value.args and n(st.value.args[0]) == shape_var:
            res_names.add(st.targets[0].id)
    k = 0
    for st in own_nodes(fi.node):
        if isinstance(st, ast.Assign) and isinstance(st.targets[0], ast.Subscript) and isinstance(st.targets[0].value, ast.Name) \
                and st.targets[0].value.id in res_names:
            sl = st.targets[0].slice
            elts = sl.elts if isinstance(sl, ast.Tuple) else [sl]
            extra = [e for e in elts[1:] if not (isinstance(e, ast.Constant) and e.value is Ellipsis)]
            k += 1
            chk.ob("R18.2", fi.where(st), f"`{n(st.targets[0])}`: a mask of x's shape plus {len(extra)} more index(es) fits the result rank "
                   f"in every arm (rank(x)+{min_off} for scalar-valued functions)", len(extra) <= min_off,
                   f"needs rank(x)+{len(extra)}, result has rank(x)+{min_off} when _RETURN_VALUE_COUNT == 1",
                   key=f"rank|{n(st.targets[0])}|{_callee_key(st.value)}|{k}")
    chk.floor("R18.2", 6)


# ------------------------------------------------------------------ R18.3
def r18_3(chk: Check) -> None:
    for fname in ("_dropBadPoints", "scheduleForInterpolation"):
        fi = chk.src.func(f"{IF}.{fname}")
        chk.touch(fi.name)
        # which names index x ?
        used = set()
        for x in own_nodes(fi.node):
            if isinstance(x, ast.Subscript) and isinstance(x.value, ast.Name) and x.value.id == "x" and isinstance(x.slice, ast.Name):
                used.add(x.slice.id)
        found = 0
        for guards, st in walk_guarded(fi.node):
            if not (isinstance(st, ast.Assign) and isinstance(st.targets[0], ast.Name) and st.targets[0].id in used):
                continue
            vec = None
            for t, pol in guards:
                if isinstance(t, ast.Compare):
                    s = n(t)
                    if s in ("fx.ndim > 1", "self._RETURN_VALUE_COUNT > 1"):
                        vec = pol
            if vec is None:
                continue
            v = st.value
            kind, axis = "none", None
            if isinstance(v, ast.Call) and (dotted(v.func) or "").split(".")[-1] in ("all", "any"):
                a = kwarg(v, "axis", 1)
                kind = "reduce_all" if a is None else "reduce_axis"
                if a is not None:
                    try:
                        axis = ast.literal_eval(a)
                    except Exception:
                        axis = n(a)
            inner_ok = any(isinstance(c, ast.Call) and (dotted(c.func) or "").endswith("isfinite") for c in ast.walk(v))
            if vec:
                ok = kind == "reduce_axis" and axis in (1, -1) and inner_ok
                want = "np.all(np.isfinite(fx), axis=-1): one flag per abscissa"
            else:
                ok = kind == "none" and inner_ok
                want = "np.isfinite(fx): one flag per abscissa (a whole-array reduction is a single flag for the table)"
            found += 1
            chk.ob("R18.3", fi.where(st), f"{fname}: finiteness mask for {'vector' if vec else 'scalar'}-valued data has the rank of x "
                   f"({want})", ok, n(st), key=f"mask|{fname}|{'vector' if vec else 'scalar'}")
        if found < 2:
            raise AnchorMissing(f"{fname}: finiteness masks not found")
    chk.floor("R18.3", 4)


# ------------------------------------------------------------------ R18.4
def r18_4(chk: Check) -> None:
    m = chk.src.module("interpolatableFunction")
    enum = m.classes.get("EExtrapolationType")
    if enum is None:
        raise AnchorMissing("EExtrapolationType not found")
    members = [t.id for st in enum.node.body if isinstance(st, ast.Assign) for t in st.targets if isinstance(t, ast.Name)]
    fi = chk.src.func(f"{IF}._evaluateOutOfBounds")
    matches = [st for st in own_nodes(fi.node) if isinstance(st, ast.Match)]
    sides = {"extrapolationTypeLower": ("xLower", "_rangeMin"), "extrapolationTypeUpper": ("xUpper", "_rangeMax")}
    seen = 0
    for mt in matches:
        subj = dotted(mt.subject) or ""
        attr = subj.split(".")[-1]
        if attr not in sides:
            continue
        seen += 1
        mask, bound = sides[attr]
        other_mask, other_bound = [v for k, v in sides.items() if k != attr][0]
        covered = {}
        for c in mt.cases:
            pat = n(c.pattern)
            covered[pat.split(".")[-1]] = c
        chk.ob("R18.4", fi.where(mt), f"match on {attr} covers every EExtrapolationType member", set(members) <= set(covered),
               f"members {members}, cases {sorted(covered)}", key=f"exhaustive|{attr}")
        for mem, c in covered.items():
            body_txt = " ".join(n(s) for s in c.body)
            names_used = {x.id for s in c.body for x in ast.walk(s) if isinstance(x, ast.Name)} | \
                         {x.attr for s in c.body for x in ast.walk(s) if isinstance(x, ast.Attribute)}
            wrong_side = (other_mask in names_used) or (other_bound in names_used and mem != "ERROR")
            # calls made in the arm, with local aliases of the arm resolved one level
            local = {}
            for s_ in c.body:
                if isinstance(s_, ast.Assign) and isinstance(s_.targets[0], ast.Name):
                    local[s_.targets[0].id] = s_.value
            arm_calls = [x for s_ in c.body for x in ast.walk(s_) if isinstance(x, ast.Call) and isinstance(x.func, ast.Attribute)]

            def argtext(call):
                a0 = call.args[0] if call.args else None
                if isinstance(a0, ast.Name) and a0.id in local:
                    a0 = local[a0.id]
                return n(a0) if a0 is not None else ""
            direct = [x for x in arm_calls if x.func.attr == "_evaluateDirectly"]
            interp = [x for x in arm_calls if x.func.attr == "evaluateInterpolation"]
            if mem == "ERROR":
                ok = any(isinstance(s, ast.Raise) for s in c.body)
                want = "raises"
            elif mem == "NONE":
                ok = len(direct) == 1 and not interp and argtext(direct[0]) == f"x[{mask}]"
                want = f"evaluates the function directly at x[{mask}]"
            elif mem == "CONSTANT":
                ok = len(interp) == 1 and not direct and argtext(interp[0]) == f"self.{bound}"
                want = f"uses the spline value at self.{bound}"
            elif mem == "FUNCTION":
                ok = len(interp) == 1 and not direct and argtext(interp[0]) == f"x[{mask}]"
                want = f"evaluates the (extrapolating) spline at x[{mask}]"
            else:
                continue
            chk.ob("R18.4", fi.where(c.body[0]), f"{attr} == {mem}: {want}; no operand of the other side", ok and not wrong_side,
                   body_txt[:160], key=f"arm|{attr}|{mem}")
        # guard of the match: np.any(mask)
    chk.ob("R18.4", fi.where(), "both per-side dispatches are present", seen == 2, key="two-dispatches")
    # xLower / xUpper definitions
    defs = {}
    for st in own_nodes(fi.node):
        if isinstance(st, ast.Assign) and isinstance(st.targets[0], ast.Name) and st.targets[0].id in ("xLower", "xUpper"):
            defs[st.targets[0].id] = n(st.value)
    chk.ob("R18.4", fi.where(), "xLower / xUpper compare x with _rangeMin / _rangeMax in the right direction",
           defs.get("xLower") in ("x <= self._rangeMin", "x < self._rangeMin") and
           defs.get("xUpper") in ("x >= self._rangeMax", "x > self._rangeMax"), str(defs), key="side-masks")
    # spline extrapolates iff FUNCTION mode on either side
    f_int = chk.src.func(f"{IF}._interpolate")
    ok = False
    for st in own_nodes(f_int.node):
        if isinstance(st, ast.Call) and (dotted(st.func) or "").endswith("CubicSpline"):
            e = kwarg(st, "extrapolate", 4)
            if isinstance(e, ast.Name):
                for s2 in own_nodes(f_int.node):
                    if isinstance(s2, ast.Assign) and n(s2.targets[0]) == e.id:
                        t = n(s2.value)
                        ok = "EExtrapolationType.FUNCTION in" in t and "self.extrapolationTypeLower" in t and "self.extrapolationTypeUpper" in t
    chk.ob("R18.4", f_int.where(), "the spline is built extrapolating iff one side is in FUNCTION mode", ok, key="spline-extrapolate")
    # _findInterpolatablePoints: inside = rangeMin <= x <= rangeMax
    f_find = chk.src.func(f"{IF}._findInterpolatablePoints")
    chk.touch(f_find.name)
    okf = False
    for st in own_nodes(f_find.node):
        if isinstance(st, ast.Assign) and isinstance(st.targets[0], ast.Name):
            t = n(st.value)
            if "self._rangeMax" in t and "self._rangeMin" in t:
                okf = ("x <= self._rangeMax" in t or "self._rangeMax >= x" in t) and ("x >= self._rangeMin" in t or "self._rangeMin <= x" in t) and "&" in t
    chk.ob("R18.4", f_find.where(), "interpolatable points are exactly rangeMin <= x <= rangeMax", okf, key="inside-mask")
    chk.floor("R18.4", 12)


# ------------------------------------------------------------------ R18.5
def r18_5(chk: Check) -> None:
    ci = chk.src.cls(IF)
    writers: dict[str, set] = {}
    for name, fi in ci.methods.items():
        for a, st_ in attr_stores(fi.node):
            if a in STATE:
                if name == "__init__" and isinstance(st_, (ast.Assign, ast.AnnAssign)) and isinstance(st_.value, ast.List) \
                        and not st_.value.elts:
                    continue  # empty-table initialisation in the constructor
                writers.setdefault(name, set()).add(a)
    # subclasses / other modules
    ext = []
    for fi in chk.src.all_funcs():
        if fi.module == "interpolatableFunction" and fi.cls == "InterpolatableFunction":
            continue
        for x in ast.walk(fi.node):
            tg = x.targets if isinstance(x, ast.Assign) else ([x.target] if isinstance(x, ast.AugAssign) else [])
            for t in tg:
                for tt in (t.elts if isinstance(t, ast.Tuple) else [t]):
                    if isinstance(tt, ast.Attribute) and tt.attr in STATE:
                        ext.append(fi.where(x))
    chk.ob("R18.5", f"src/WallGo/interpolatableFunction.py", "the six table attributes are written only by _interpolate",
           set(writers) <= {"_interpolate"} and not ext, f"writers {sorted(writers)}; outside: {ext}", key="single-writer")
    f_int = chk.src.func(f"{IF}._interpolate")
    chk.touch(f_int.name)
    chk.ob("R18.5", f_int.where(), "_interpolate writes all six table attributes together",
           writers.get("_interpolate", set()) == set(STATE), str(sorted(writers.get("_interpolate", set()))), key="all-six")
    # pairing inside _interpolate: spline(xF, fxF); rangeMin=min(xF); rangeMax=max(xF); points=xF; values=fxF; (xF,fxF)=_dropBadPoints(x,fx)
    ex = Extractor(chk.src)
    ps = [p for p in ex.paths(f_int) if p.raised is None]
    if len(ps) != 1:
        raise Undecided("_interpolate: expected straight-line code")
    env = ps[0].env
    pts, vals = env.get("self._interpolationPoints"), env.get("self._interpolationValues")
    spl = env.get("self._interpolatedFunction")
    ok = isinstance(spl, sp.Basic) and spl.func.__name__ == "CubicSpline" and spl.args[0] == pts and spl.args[1] == vals
    chk.ob("R18.5", f_int.where(), "the spline is built from exactly the abscissae/values that are stored as the table", ok,
           f"spline({spl}), points {pts}, values {vals}", key="spline-table-pair")
    rmin, rmax = env.get("self._rangeMin"), env.get("self._rangeMax")
    ok = isinstance(rmin, sp.Basic) and isinstance(rmax, sp.Basic) and rmin.func.__name__ in ("np.min", "min") and rmin.args[0] == pts \
        and rmax.func.__name__ in ("np.max", "max") and rmax.args[0] == pts
    chk.ob("R18.5", f_int.where(), "_rangeMin/_rangeMax are the min/max of the stored abscissae", ok, f"{rmin}, {rmax}", key="range-pair")
    okd = isinstance(pts, sp.Basic) and isinstance(vals, sp.Basic) and "_dropBadPoints" in str(pts) and "_dropBadPoints" in str(vals) \
        and pts != vals
    chk.ob("R18.5", f_int.where(), "stored abscissae and values are the two results of one _dropBadPoints(x, fx) call", okd,
           f"{pts} / {vals}", key="filter-pair")
    # extension order
    f_ext = chk.src.func(f"{IF}.extendInterpolationTable")
    chk.touch(f_ext.name)
    assigns = {}
    for st in own_nodes(f_ext.node):
        if isinstance(st, (ast.Assign, ast.AnnAssign)):
            t = st.targets[0] if isinstance(st, ast.Assign) else st.target
            if isinstance(t, ast.Name) and st.value is not None:
                assigns.setdefault(t.id, []).append(st.value)
    cat = {}
    for nm, vs in assigns.items():
        for v in vs:
            if isinstance(v, ast.Call) and (dotted(v.func) or "").endswith("concatenate") and isinstance(v.args[0], ast.Tuple):
                cat[nm] = [n(e) for e in v.args[0].elts]
    xs = [v for k, v in cat.items() if any("_interpolationPoints" in e for e in v)]
    fs = [v for k, v in cat.items() if any("_interpolationValues" in e for e in v)]
    ok = False
    detail = f"{cat}"
    if len(xs) == 1 and len(fs) == 1 and len(xs[0]) == 3 and len(fs[0]) == 3:
        px, pf = xs[0], fs[0]
        # value block i must be f(point block i)
        def val_of(name):
            for v in assigns.get(name, []):
                for c in ast.walk(v):
                    if isinstance(c, ast.Call) and (dotted(c.func) or "").endswith("_functionImplementation"):
                        return n(c.args[0])
            return None
        ok = ("_interpolationPoints" in px[1] and "_interpolationValues" in pf[1]
              and val_of(pf[0]) == px[0] and val_of(pf[2]) == px[2])
    chk.ob("R18.5", f_ext.where(), "extension concatenates (below, old, above) in the same order for abscissae and values, "
           "each new value block being f(its point block)", ok, detail[:300], key="extend-order")
    # new blocks lie strictly outside the old range
    exx = Extractor(chk.src)
    blocks = {}
    for guards, st in walk_guarded(f_ext.node):
        if isinstance(st, ast.Assign) and isinstance(st.value, ast.Call) and (dotted(st.value.func) or "").endswith("arange"):
            blocks[st.targets[0].id] = (guards, st)
    lo = [b for k, b in blocks.items() if "Min" in k]
    hi = [b for k, b in blocks.items() if "Max" in k]
    okb = False
    if len(lo) == 1 and len(hi) == 1:
        gl, sl_ = lo[0]
        gh, sh = hi[0]
        gtxt_l = " and ".join(n(t) for t, pol in gl if pol and not isinstance(t, tuple))
        gtxt_h = " and ".join(n(t) for t, pol in gh if pol and not isinstance(t, tuple))
        a_l = [n(a) for a in sl_.value.args]
        a_h = [n(a) for a in sh.value.args]
        okb = ("newMin < self._rangeMin" in gtxt_l and a_l[:2] == ["newMin", "self._rangeMin"]
               and "newMax > self._rangeMax" in gtxt_h and a_h[0] == "self._rangeMax + spacing")
        detail = f"lower: if {gtxt_l}: arange({', '.join(a_l)}); upper: if {gtxt_h}: arange({', '.join(a_h)})"
    chk.ob("R18.5", f_ext.where(), "new abscissa blocks lie strictly below _rangeMin / strictly above _rangeMax "
           "(arange(newMin, rangeMin, h) and arange(rangeMax + h, ...)), so abscissae stay increasing", okb, detail[:300],
           key="extend-outside")
    chk.floor("R18.5", 7)


# ------------------------------------------------------------------ R18.6
def r18_6(chk: Check) -> None:
    attrs = ("extrapolationTypeLower", "extrapolationTypeUpper")
    writers = []
    for fi in chk.src.all_funcs():
        for x in own_nodes(fi.node):
            tg = x.targets if isinstance(x, ast.Assign) else ([x.target] if isinstance(x, ast.AugAssign) else [])
            for t in tg:
                for tt in (t.elts if isinstance(t, ast.Tuple) else [t]):
                    if isinstance(tt, ast.Attribute) and tt.attr in attrs:
                        writers.append((fi, x))
    fset = chk.src.func(f"{IF}.setExtrapolationType")
    chk.touch(fset.name)
    for fi, x in writers:
        if fi.qual == "InterpolatableFunction.__init__":
            continue
        if fi.name != fset.name:
            chk.ob("R18.6", fi.where(x), "extrapolation modes are changed only through setExtrapolationType (which rebuilds the spline)",
                   False, n(x), key=f"writer|{fi.qual}")
            continue
        g = CFG(fi.node)
        node = g.node_of(x)
        rebuild = set(g.stmts_calling("newInterpolationTableFromValues")) | set(g.stmts_calling("_interpolate"))
        tests = {t for t in g.nodes if g.kind.get(t) == "test" and "hasInterpolation" in n(t)}
        ok = bool(rebuild) and g.must_pass(node, CFG.EXIT, lambda q: q in rebuild or q in tests)
        # and the rebuild is on the True arm of the test
        ok2 = all(any(r in g.reachable(t) for r in rebuild) for t in tests) if tests else True
        chk.ob("R18.6", fi.where(x), f"after `{n(x)}` every path rebuilds the spline when a table exists", ok and ok2,
               key=f"rebuild|{n(x.targets[0]) if isinstance(x, ast.Assign) else ''}")
    # rebuild uses the stored table
    ok = False
    for c in calls_in(fset.node, "newInterpolationTableFromValues"):
        a = [n(v) for v in c.args]
        ok = a == ["self._interpolationPoints", "self._interpolationValues"]
    chk.ob("R18.6", fset.where(), "the rebuild re-interpolates the stored (points, values) pair in this order", ok, key="rebuild-args")
    chk.floor("R18.6", 3)


# ------------------------------------------------------------------ R18.7
def r18_7(chk: Check) -> None:
    fr = chk.src.func(f"{IF}.readInterpolationTable")
    fw = chk.src.func(f"{IF}.writeInterpolationTable")
    chk.touch(fr.name, fw.name)
    rd = [c for c in calls_in(fr.node, "genfromtxt")]
    wr = [c for c in calls_in(fw.node, "savetxt")]
    if not rd or not wr:
        raise AnchorMissing("read/writeInterpolationTable: genfromtxt / savetxt not found")
    dr, dw = kwarg(rd[0], "delimiter"), kwarg(wr[0], "delimiter")
    chk.ob("R18.7", fw.where(wr[0]), "writer and reader use the same column delimiter",
           dr is not None and dw is not None and n(dr) == n(dw), f"{n(dr) if dr else None} vs {n(dw) if dw else None}", key="delimiter")
    cs = [c for c in calls_in(fw.node, "column_stack")]
    okw = False
    if cs and isinstance(cs[0].args[0], ast.Tuple):
        e = [n(x) for x in cs[0].args[0].elts]
        okw = len(e) == 2 and "_interpolationPoints" in e[0] and "_interpolationValues" in e[1]
    chk.ob("R18.7", fw.where(), "writer puts the abscissae in column 0 and the values in the remaining columns", okw, key="writer-columns")
    sub = {}
    for st in own_nodes(fr.node):
        if isinstance(st, ast.Assign) and isinstance(st.value, ast.Subscript) and n(st.value.value) == "data":
            sub[st.targets[0].id] = slice_src(st.value.slice)
    okr = sub.get("x") == ":, 0" and sub.get("fx") == ":, 1:"
    chk.ob("R18.7", fr.where(), "reader takes column 0 as abscissae and columns 1: as values", okr, str(sub), key="reader-columns")
    fmt = kwarg(wr[0], "fmt")
    prec = None
    if isinstance(fmt, ast.Constant) and isinstance(fmt.value, str):
        import re
        m = re.match(r"%\.(\d+)[ge]", fmt.value)
        prec = int(m.group(1)) if m else None
    chk.ob("R18.7", fw.where(wr[0]), "writer keeps at least 15 significant digits", prec is not None and prec >= 15,
           n(fmt) if fmt else "default", key="precision")
    ok = any(isinstance(c, ast.Call) and n(c.func) == "self._interpolate" and [n(a) for a in c.args] == ["x", "fx"]
             for c in own_nodes(fr.node))
    chk.ob("R18.7", fr.where(), "reader interpolates (x, fx) as read", ok, key="reader-interpolate")
    chk.floor("R18.7", 5)


def rules(chk: Check) -> None:
    chk.src.cls(IF)
    r18_1(chk)
    r18_2(chk)
    r18_3(chk)
    r18_4(chk)
    r18_5(chk)
    r18_6(chk)
    r18_7(chk)
