"""C18 -- interpolated functions honour their evaluation contract for every call history.

R18.1 masked assignment provenance: results[mask] = g(arg) -> arg is the input restricted by the same mask
R18.2 rank: subscript arity on the out-of-bounds result fits its rank for vector- and scalar-valued functions
R18.3 per-point finiteness masks have the rank of the abscissa array in both arms
R18.4 exhaustive per-side mode dispatch with side-consistent operands
R18.5 table state group written together, only by _interpolate; extension keeps (below, old, above) order
R18.6 typestate: a change of extrapolation mode rebuilds the spline when a table exists
R18.7 writer and reader of the text format agree

Recognition is by role, not by spelling: a boolean point mask is identified by what it computes (comparison of the input with the
table range, result of _findInterpolatablePoints, negation of such a mask), locals by what is assigned to them, arguments by
parameter (keyword or position), control flow through the CFG.  Keys carry fixed role labels, never names of locals.  A method that
fuses sibling blocks into one `for` over a literal tuple of cases is read case by case (`_written`: the loop is written out, the
block-local names of each copy are replaced by what they hold).
"""
from __future__ import annotations

import ast
import re

import sympy as sp

from ..core import (AnchorMissing, Check, Undecided, attr_stores, calls_in, dotted, kwarg, own_nodes, src,
                    walk_guarded)
from ..flow import CFG
from ..nf import Ctx, eqx, has, match, nf, parse_pattern, same
from ..terms import Extractor

LEVEL = "other"
IF = "interpolatableFunction:InterpolatableFunction"
STATE = ["_interpolatedFunction", "_rangeMin", "_rangeMax", "_interpolationPoints", "_interpolationValues",
         "_interpolatedDerivatives"]
ENUM = "EExtrapolationType"
# per-side: mode attribute -> (role of the side's mask, bound of that side)
SIDES = {"extrapolationTypeLower": ("lower", "_rangeMin"), "extrapolationTypeUpper": ("upper", "_rangeMax")}
# fixed labels of the mask roles (used in keys and messages; they do not depend on how the locals are spelled)
LABEL = {"range": "canInterpolateCondition", "not:range": "needsEvaluationCondition", "lower": "xLower", "upper": "xUpper"}
# methods through which values are obtained: never looked through when the rules ask *which* of them is used
EVAL_API = {"_evaluateOutOfBounds", "_evaluateDirectly", "_functionImplementation", "evaluateInterpolation"}
AS_ARRAY = ("np.asanyarray", "np.asarray", "np.array", "np.atleast_1d", "numpy.asanyarray", "numpy.asarray", "numpy.array")


def n(x: ast.AST) -> str:
    return " ".join(src(x).split())


def _params(fi) -> list[str]:
    return [p for p in fi.params() if p not in ("self", "cls")]


def _arg(S, call: ast.Call, pos: int):
    """argument number `pos` of a call of a method of InterpolatableFunction, by position or by the keyword its signature gives that position"""
    short = call.func.attr if isinstance(call.func, ast.Attribute) else (call.func.id if isinstance(call.func, ast.Name) else "")
    fi = S.cls(IF).methods.get(short)
    prm = _params(fi) if fi is not None else []
    return kwarg(call, prm[pos], pos) if pos < len(prm) else (call.args[pos] if pos < len(call.args) else None)


def _rename_name(node: ast.AST, old: str, new: str) -> ast.AST:
    import copy
    node = copy.deepcopy(node)
    for x in ast.walk(node):
        if isinstance(x, ast.Name) and x.id == old:
            x.id = new
    return node


def _only_via(g: CFG, t, pol: bool, a) -> bool:
    """statement `a` is executed only after test `t` came out as `pol` (if/else arm, or fall-through after a guard clause)"""
    if g.node_of(a) is None:
        return False
    return g.must_pass(CFG.ENTRY, a, lambda q: q is t) and not g.reaches(g.branch(t, not pol), a, avoid=lambda q: q is t)


# ------------------------------------------------------------------ written-out form of a method
# The two per-side blocks of _evaluateOutOfBounds may be fused into one `for` over a literal tuple of cases (side mask, flag, ...), the
# operands of each side chosen inside the body from the loop variables.  The rules read the method case by case: the loop is written
# out (c06.written_out: guard clauses `if c: continue` become if / else, one copy of the body per case, tests between literals decided),
# then the block-local names every copy re-binds (`mode = self.extrapolationTypeLower`, `bound, sign = self._rangeMin, "<"`) are replaced
# by what they hold (`_propagate_locals`).  Nothing is rewritten in a method without such a loop.
PURE_CALLS = ("np.", "numpy.", "math.")
PURE_BUILTINS = {"len", "abs", "float", "int", "bool", "str", "repr", "isinstance", "tuple", "list", "min", "max", "range", "enumerate", "zip", "type"}


def _pure_value(e: ast.AST) -> bool:
    """a constant, a local, an attribute path of a local: reading it evaluates nothing else"""
    if isinstance(e, ast.UnaryOp) and isinstance(e.op, ast.USub):
        e = e.operand
    return isinstance(e, (ast.Constant, ast.Name)) or (isinstance(e, ast.Attribute) and _pure_value(e.value))


def _impure_calls(node: ast.AST) -> list:
    out = []
    for c in ast.walk(node):
        if isinstance(c, ast.Call):
            d = dotted(c.func) or ""
            if not (d.startswith(PURE_CALLS) or d in PURE_BUILTINS):
                out.append(c)
    return out


def _propagate_locals(fn: ast.AST) -> bool:
    """`v = <pure value>` (also `a, b = <pure>, <pure>`) for a local that is bound several times by such assignments only: every later read
    that this binding alone reaches is replaced by the value.  The walk is per block and per branch (arms of if / match are separate paths);
    a binding whose value is an attribute path is forgotten at the first statement that could change what the path denotes (a call of package
    code, a store to an attribute / item); inside one statement such a value is substituted only where no call has been evaluated before the
    read (every impure call of the statement encloses the read)."""
    import copy
    stores: dict = {}
    bad: set = {a.arg for a in ast.walk(fn.args) if isinstance(a, ast.arg)}
    for x in ast.walk(fn):
        if isinstance(x, (ast.FunctionDef, ast.AsyncFunctionDef, ast.Lambda, ast.ClassDef)) and x is not fn:
            for y in ast.walk(x):        # names that occur in a nested scope are left alone
                if isinstance(y, ast.Name):
                    bad.add(y.id)
                elif isinstance(y, ast.arg):
                    bad.add(y.arg)
        elif isinstance(x, ast.Assign) and len(x.targets) == 1:
            t, v = x.targets[0], x.value
            if isinstance(t, ast.Name) and _pure_value(v):
                stores.setdefault(t.id, []).append(x)
                continue
            if isinstance(t, (ast.Tuple, ast.List)) and isinstance(v, (ast.Tuple, ast.List)) and len(t.elts) == len(v.elts) \
                    and all(isinstance(a, ast.Name) for a in t.elts) and all(_pure_value(b) for b in v.elts):
                for a in t.elts:
                    stores.setdefault(a.id, []).append(x)
                continue
            bad |= {y.id for y in ast.walk(t) if isinstance(y, ast.Name) and isinstance(y.ctx, ast.Store)}
        elif isinstance(x, (ast.AugAssign, ast.AnnAssign, ast.For, ast.AsyncFor, ast.comprehension, ast.NamedExpr)):
            bad |= {y.id for y in ast.walk(x.target) if isinstance(y, ast.Name)}
        elif isinstance(x, ast.Assign):
            bad |= {y.id for t in x.targets for y in ast.walk(t) if isinstance(y, ast.Name) and isinstance(y.ctx, ast.Store)}
        elif isinstance(x, (ast.With, ast.AsyncWith)):
            bad |= {y.id for it in x.items if it.optional_vars is not None for y in ast.walk(it.optional_vars) if isinstance(y, ast.Name)}
        elif isinstance(x, ast.ExceptHandler) and x.name:
            bad.add(x.name)
        elif isinstance(x, (ast.MatchAs, ast.MatchStar)) and x.name:
            bad.add(x.name)
        elif isinstance(x, ast.MatchMapping) and x.rest:
            bad.add(x.rest)
        elif isinstance(x, (ast.Global, ast.Nonlocal)):
            bad |= set(x.names)
        elif isinstance(x, (ast.Import, ast.ImportFrom)):
            bad |= {(al.asname or al.name).split(".")[0] for al in x.names}
        elif isinstance(x, ast.Delete):
            bad |= {y.id for t in x.targets for y in ast.walk(t) if isinstance(y, ast.Name)}
    cands = {nm for nm, sts in stores.items() if len(sts) >= 2 and nm not in bad}
    if not cands:
        return False
    changed = [False]

    def is_path(v) -> bool:
        return any(isinstance(y, ast.Attribute) for y in ast.walk(v))

    def subst(root: ast.AST, env: dict):
        """root with the reads of bound names replaced (in place)"""
        if not env:
            return
        calls = _impure_calls(root)
        inside = {id(c): {id(y) for y in ast.walk(c)} for c in calls}

        class T(ast.NodeTransformer):
            def visit_Name(self, x):
                if isinstance(x.ctx, ast.Load) and x.id in env:
                    v = env[x.id]
                    if not is_path(v) or all(id(x) in inside[id(c)] for c in calls):
                        changed[0] = True
                        return ast.copy_location(copy.deepcopy(v), x)
                return x

            def visit_Lambda(self, x):
                return x
        for fld, val in ast.iter_fields(root):
            if isinstance(val, ast.AST):
                setattr(root, fld, T().visit(val))
            elif isinstance(val, list):
                setattr(root, fld, [T().visit(v) if isinstance(v, ast.AST) else v for v in val])

    def kill(env: dict, node: ast.AST, header_only: bool = False):
        names = {y.id for y in ast.walk(node) if isinstance(y, ast.Name) and isinstance(y.ctx, (ast.Store, ast.Del))}
        mutates = bool(_impure_calls(node)) or any(isinstance(y, (ast.Attribute, ast.Subscript)) and isinstance(y.ctx, (ast.Store, ast.Del)) for y in ast.walk(node))
        for k in list(env):
            v = env[k]
            if k in names or {y.id for y in ast.walk(v) if isinstance(y, ast.Name)} & names or (mutates and is_path(v)):
                del env[k]

    def meet(envs: list) -> dict:
        first = envs[0]
        return {k: v for k, v in first.items() if all(k in e and ast.dump(e[k]) == ast.dump(v) for e in envs[1:])}

    def block(stmts: list, env: dict) -> dict:
        for st in stmts:
            if isinstance(st, (ast.FunctionDef, ast.AsyncFunctionDef, ast.ClassDef)):
                continue
            if isinstance(st, ast.If):
                hdr = ast.Expr(value=st.test)
                subst(hdr, env)
                st.test = hdr.value
                kill(env, st.test)
                env = meet([block(st.body, dict(env)), block(st.orelse, dict(env))])
            elif isinstance(st, ast.Match):
                hdr = ast.Expr(value=st.subject)
                subst(hdr, env)
                st.subject = hdr.value
                kill(env, st.subject)
                outs = [block(c.body, dict(env)) for c in st.cases]
                if not any(isinstance(c.pattern, ast.MatchAs) and c.pattern.pattern is None and c.guard is None for c in st.cases):
                    outs.append(dict(env))
                if any(c.guard is not None and _impure_calls(c.guard) for c in st.cases):
                    outs.append({})
                env = meet(outs)
            elif isinstance(st, (ast.For, ast.AsyncFor, ast.While, ast.With, ast.AsyncWith, ast.Try)) or isinstance(st, getattr(ast, "TryStar", ())):
                kill(env, st)                  # whatever the construct may re-bind / change is forgotten before its parts are read
                for fld in ("body", "orelse", "finalbody"):
                    sub = getattr(st, fld, None)
                    if isinstance(sub, list) and sub:
                        block(sub, dict(env))
                for h in getattr(st, "handlers", []) or []:
                    block(h.body, dict(env))
            else:
                subst(st, env)
                kill(env, st)
                if isinstance(st, ast.Assign) and len(st.targets) == 1:
                    t, v = st.targets[0], st.value
                    pairs = [(t, v)] if isinstance(t, ast.Name) else list(zip(t.elts, v.elts)) if isinstance(t, (ast.Tuple, ast.List)) and isinstance(v, (ast.Tuple, ast.List)) \
                        and len(t.elts) == len(v.elts) else []
                    tnames = {a.id for a, _ in pairs if isinstance(a, ast.Name)}
                    for a, b in pairs:
                        if isinstance(a, ast.Name) and a.id in cands and _pure_value(b) and not ({y.id for y in ast.walk(b) if isinstance(y, ast.Name)} & tnames):
                            env[a.id] = b
        return env

    block(fn.body, {})
    return changed[0]


def _guard_clauses(fn: ast.AST) -> bool:
    """in a `for` body:  `if c: A else: B; continue`  ->  `if not c: B; continue` followed by A   (and `if c: B; continue else: A` -> guard, then A):
    the spelling c06.written_out turns into if / else before it writes the loop out"""
    changed = False
    for loop in [x for x in ast.walk(fn) if isinstance(x, ast.For)]:
        body, i = list(loop.body), 0
        while i < len(body):
            st = body[i]
            if isinstance(st, ast.If) and st.body and st.orelse:
                if isinstance(st.orelse[-1], ast.Continue):
                    guard = ast.copy_location(ast.If(test=ast.copy_location(ast.UnaryOp(op=ast.Not(), operand=st.test), st.test), body=st.orelse, orelse=[]), st)
                    rest = [b for b in st.body if not isinstance(b, ast.Pass)]
                elif isinstance(st.body[-1], ast.Continue):
                    guard = ast.copy_location(ast.If(test=st.test, body=st.body, orelse=[]), st)
                    rest = [b for b in st.orelse if not isinstance(b, ast.Pass)]
                else:
                    i += 1
                    continue
                body[i:i + 1] = [guard] + rest
                changed = True
            i += 1
        loop.body = body
    return changed


_WRITTEN18: dict = {}


def _written(S, fi):
    """fi with a loop over literal cases written out and the block-local names of the copies resolved; fi itself when it has no such loop"""
    key = (id(S), fi.name, id(fi.node))
    if key in _WRITTEN18:
        return _WRITTEN18[key][1]
    out = fi
    loops = sum(isinstance(x, ast.For) for x in own_nodes(fi.node))
    if loops:
        import copy
        from ..core import FuncInfo
        from .c06 import written_out
        pre = copy.deepcopy(fi.node)
        src_fi = fi
        if _guard_clauses(pre):
            ast.fix_missing_locations(pre)
            src_fi = FuncInfo(fi.module, fi.qual, pre, fi.cls, fi.parent)
        w = written_out(S, src_fi)
        if w is not src_fi and sum(isinstance(x, ast.For) for x in own_nodes(w.node)) < loops:
            node = copy.deepcopy(w.node)
            _propagate_locals(node)
            ast.fix_missing_locations(node)
            out = FuncInfo(fi.module, fi.qual, node, fi.cls, fi.parent)
    _WRITTEN18[key] = (fi.node, out)
    return out


# ------------------------------------------------------------------ point masks, by role
class Masks:
    """boolean point masks of one method.  info(expr) -> (base array, identity, role, expression) or None

    base        the array parameter / local whose points the mask selects (np.asanyarray(x) and x are the same base)
    identity    a spelling-independent text: two expressions with the same identity select the same points
    role        lower / upper (comparison with _rangeMin / _rangeMax only), range (both), cmp, or not:<role> for a negation
    expression  the mask written out in terms of the base (temporaries, simple helpers and mask-returning methods looked through)
    """

    def __init__(self, S, fi, summaries: dict):
        self.fi, self.cx, self.summ = fi, Ctx(S, fi), summaries
        self.assigns: dict[str, list[ast.AST]] = {}
        self.unpacked: dict[str, list[tuple[ast.Call, int]]] = {}
        self.other: set[str] = set()      # names also bound in a way that is not followed (loops, with, augmented ...)
        for st in own_nodes(fi.node):
            if isinstance(st, ast.Assign):
                for t in st.targets:
                    if isinstance(t, ast.Name) and len(st.targets) == 1:
                        self.assigns.setdefault(t.id, []).append(st.value)
                    elif isinstance(t, (ast.Tuple, ast.List)) and len(st.targets) == 1 and isinstance(st.value, (ast.Tuple, ast.List)) \
                            and len(st.value.elts) == len(t.elts) and all(isinstance(e, ast.Name) for e in t.elts):
                        for e, v in zip(t.elts, st.value.elts):
                            self.assigns.setdefault(e.id, []).append(v)
                    elif isinstance(t, (ast.Tuple, ast.List)) and len(st.targets) == 1 and isinstance(st.value, ast.Call):
                        for i, e in enumerate(t.elts):
                            if isinstance(e, ast.Name):
                                self.unpacked.setdefault(e.id, []).append((st.value, i))
                            else:
                                self.other |= {y.id for y in ast.walk(e) if isinstance(y, ast.Name)}
                    else:
                        self.other |= {y.id for y in ast.walk(t) if isinstance(y, ast.Name) and isinstance(y.ctx, ast.Store)}
            elif isinstance(st, ast.AnnAssign) and st.value is not None and isinstance(st.target, ast.Name):
                self.assigns.setdefault(st.target.id, []).append(st.value)
            elif isinstance(st, ast.AugAssign) and isinstance(st.target, ast.Name):
                self.other.add(st.target.id)
            elif isinstance(st, (ast.For, ast.AsyncFor)):
                self.other |= {y.id for y in ast.walk(st.target) if isinstance(y, ast.Name)}
            elif isinstance(st, ast.NamedExpr) and isinstance(st.target, ast.Name):
                self.other.add(st.target.id)

    def canon(self, name: str, _seen=()) -> str:
        """x and xArr = np.asanyarray(x) are the same array"""
        vs = self.assigns.get(name, [])
        if len(vs) == 1 and name not in self.other and name not in self.unpacked and name not in _seen:
            v = vs[0]
            if isinstance(v, ast.Call) and dotted(v.func) in AS_ARRAY and v.args and isinstance(v.args[0], ast.Name):
                if v.args[0].id == name:
                    return name
                return self.canon(v.args[0].id, _seen + (name,))
        return name

    def info(self, e: ast.AST, _depth: int = 0):
        if e is None or _depth > 6:
            return None
        if isinstance(e, ast.Name):
            if e.id in self.other:
                return None
            if e.id in self.unpacked and e.id not in self.assigns:
                got = set()
                for call, i in self.unpacked[e.id]:
                    short = call.func.attr if isinstance(call.func, ast.Attribute) else None
                    if i != 0 or short not in self.summ:
                        return None
                    pos, pname, mexpr = self.summ[short]
                    a = kwarg(call, pname, pos)
                    if not isinstance(a, ast.Name):
                        return None
                    got.add((self.canon(a.id), short))
                if len(got) == 1:
                    b, short = got.pop()
                    _, pname, mexpr = self.summ[short]
                    return self._written_out(_rename_name(mexpr, pname, b), b)
                return None
            if e.id in self.assigns and e.id not in self.unpacked:
                infos = [self.info(v, _depth + 1) for v in self.assigns[e.id]]
                if infos and all(i is not None for i in infos) and len({i[:2] for i in infos}) == 1:
                    return infos[0]
            return None
        if isinstance(e, ast.UnaryOp) and isinstance(e.op, (ast.Invert, ast.Not)):
            i = self.info(e.operand, _depth + 1)
            if i is None:
                return None
            b, ident, role, r = i
            return b, f"~({ident})", f"not:{role}", ast.UnaryOp(op=ast.Invert(), operand=r)
        if isinstance(e, ast.Call):
            # a (new) helper computing the mask: look through it
            r = self.cx.resolve(e, keep_calls=EVAL_API)
            return self.info(r, _depth + 1) if not isinstance(r, ast.Call) else None
        if isinstance(e, (ast.Compare, ast.BinOp, ast.BoolOp)):
            if isinstance(e, ast.BinOp) and not isinstance(e.op, (ast.BitAnd, ast.BitOr)):
                return None
            r = self.cx.resolve(e, keep_calls=EVAL_API)

            class Arr(ast.NodeTransformer):      # np.asanyarray(x) holds the points of x
                def visit_Call(s, c):
                    s.generic_visit(c)
                    return c.args[0] if dotted(c.func) in AS_ARRAY and len(c.args) == 1 and not c.keywords and isinstance(c.args[0], ast.Name) else c
            r = Arr().visit(r)
            comps = [c for c in ast.walk(r) if isinstance(c, ast.Compare)]
            if not comps:
                return None
            bases = {self.canon(o.id) for c in comps for o in [c.left] + list(c.comparators) if isinstance(o, ast.Name)}
            if len(bases) != 1:
                return None
            b = bases.pop()
            # identity with the base spelled canonically
            class Rn(ast.NodeTransformer):
                def visit_Name(s, x):
                    return ast.copy_location(ast.Name(id=b, ctx=x.ctx), x) if self.canon(x.id) == b else x
            return self._written_out(Rn().visit(r), b)
        return None

    def _written_out(self, r: ast.AST, b: str):
        ident = nf(r, self.cx)
        attrs = {x.attr for x in ast.walk(r) if isinstance(x, ast.Attribute)}
        lo, hi = "_rangeMin" in attrs, "_rangeMax" in attrs
        role = "range" if lo and hi else "lower" if lo else "upper" if hi else "cmp"
        return b, ident, role, r

    def label(self, info) -> str:
        return LABEL.get(info[2], info[1])

    def store_mask(self, st: ast.AST):
        """(mask expression, info) of a masked store `T[mask] = ...` / `T[mask, ...] = ...`"""
        if not (isinstance(st, ast.Assign) and len(st.targets) == 1 and isinstance(st.targets[0], ast.Subscript)):
            return None
        sl = st.targets[0].slice
        m = sl.elts[0] if isinstance(sl, ast.Tuple) and sl.elts else sl
        i = self.info(m)
        return (m, i) if i is not None else None

    def rhs_loads(self, node: ast.AST, base: str, ident: str, bad: list, seen: set, depth: int = 0) -> None:
        """every load of the base array inside `node` (looking through locals) must be `base[same mask]` (or a shape attribute)"""
        stack = [node]
        while stack:
            x = stack.pop()
            if isinstance(x, ast.Subscript) and isinstance(x.value, ast.Name) and self.canon(x.value.id) == base:
                i = self.info(x.slice)
                if i is None or i[0] != base:
                    bad.append(f"`{n(x)}` is not the array restricted by the mask of the store")
                elif i[1] != ident:
                    bad.append(f"`{n(x)}` is restricted by {self.label(i)}, the store by a different mask")
                continue
            if isinstance(x, ast.Attribute) and x.attr in ("shape", "ndim", "dtype", "size") and isinstance(x.value, ast.Name) \
                    and self.canon(x.value.id) == base:
                continue
            if isinstance(x, ast.Name):
                if not isinstance(x.ctx, ast.Load):
                    continue
                if self.canon(x.id) == base:
                    bad.append(f"the whole array `{base}` is passed, not `{base}[mask of the store]`")
                elif self.info(x) is not None:
                    pass
                elif x.id in self.assigns and x.id not in seen and depth < 5:
                    seen.add(x.id)
                    for v in self.assigns[x.id]:
                        self.rhs_loads(v, base, ident, bad, seen, depth + 1)
                continue
            stack.extend(ast.iter_child_nodes(x))


def _mask_summaries(chk: Check) -> dict:
    """methods returning (mask-of-param, ...): name -> (param index, param name, the mask written out in terms of the parameter)"""
    out = {}
    ci = chk.src.cls(IF)
    for name, fi in ci.methods.items():
        rets = [r for r in own_nodes(fi.node) if isinstance(r, ast.Return) and isinstance(r.value, ast.Tuple) and r.value.elts]
        if len(rets) != 1:
            continue
        i = Masks(chk.src, fi, {}).info(rets[0].value.elts[0])
        params = _params(fi)
        if i is not None and i[0] in params:
            out[name] = (params.index(i[0]), i[0], i[3])
    return out


def _callee_key(v: ast.expr) -> str:
    if isinstance(v, ast.Call):
        d = dotted(v.func)
        if d:
            return d
        if isinstance(v.func, ast.Subscript):
            return n(v.func.value)
    return type(v).__name__


# ------------------------------------------------------------------ R18.1
def r18_1(chk: Check) -> None:
    S = chk.src
    ci = S.cls(IF)
    summ = _mask_summaries(chk)
    chk.note(f"mask summaries: { {k: v[0] for k, v in summ.items()} }")
    for name, fi in sorted(ci.methods.items()):
        fi = _written(S, fi)
        M = Masks(S, fi, summ)
        for st in own_nodes(fi.node):
            sm = M.store_mask(st)
            if sm is None:
                continue
            chk.touch(fi.name)
            m, info = sm
            base, ident = info[:2]
            bad: list = []
            M.rhs_loads(st.value, base, ident, bad, set())
            callee = _callee_key(M.cx.resolve(st.value, keep_calls=EVAL_API | {"derivative"}, helpers=False))
            chk.ob("R18.1", fi.where(st), f"{name}: `{n(st.targets[0])} = ...` evaluates only the points selected by the mask of the store "
                   f"({M.label(info)})", not bad, "; ".join(bad) + f"  [{n(st)[:120]}]", key=f"masked|{name}|{M.label(info)}|{callee}")
    # out-of-range points go through the mode dispatch (_evaluateOutOfBounds), in-range points through the spline
    for name in ("evaluate", "derivative"):
        fi = ci.methods.get(name)
        if fi is None:
            raise AnchorMissing(f"InterpolatableFunction.{name} not found")
        fi = _written(S, fi)
        M = Masks(S, fi, summ)
        seen_out = seen_in = 0
        for st in own_nodes(fi.node):
            sm = M.store_mask(st)
            if sm is None or sm[1][2] not in ("range", "not:range"):
                continue
            role = "outside" if sm[1][2] == "not:range" else "inside"
            rr = M.cx.resolve(st.value, keep_calls=EVAL_API)
            used = {x.attr for x in ast.walk(rr) if isinstance(x, ast.Attribute) and isinstance(x.value, ast.Name) and x.value.id == "self"}
            if role == "outside":
                seen_out += 1
                ok = "_evaluateOutOfBounds" in used and not ({"_evaluateDirectly", "_functionImplementation"} & used)
                chk.ob("R18.1", fi.where(st), f"{name}: out-of-range entries are computed through the per-side mode dispatch "
                       "(_evaluateOutOfBounds), not by direct evaluation", ok, n(st)[:140], key=f"dispatch|{name}|outside")
            else:
                seen_in += 1
                want = "evaluateInterpolation" if name == "evaluate" else "_interpolatedDerivatives"
                ok = want in used and not ({"_evaluateDirectly", "_functionImplementation", "_evaluateOutOfBounds"} & used)
                chk.ob("R18.1", fi.where(st), f"{name}: in-range entries come from the spline ({want})", ok, n(st)[:140],
                       key=f"dispatch|{name}|inside")
        if not (seen_out and seen_in):
            raise AnchorMissing(f"{name}: masked stores for inside/outside points not found")
    chk.floor("R18.1", 12)


# ------------------------------------------------------------------ per-side mode dispatch (match statement or if / elif chain)
def _enum_member(e: ast.AST):
    d = dotted(e) if e is not None else None
    if d and d.split(".")[-2:-1] == [ENUM]:
        return d.split(".")[-1]
    return None


def _side_attr(e: ast.AST, cx: Ctx):
    d = dotted(cx.resolve(e)) or ""
    a = d.split(".")[-1]
    return a if a in SIDES and d.startswith("self.") else None


def _eq_test(t: ast.AST, cx: Ctx):
    """(side attribute, member) of a test `self.extrapolationTypeX == EExtrapolationType.M` (either operand order, == or is)"""
    if isinstance(t, ast.Compare) and len(t.ops) == 1 and isinstance(t.ops[0], (ast.Eq, ast.Is)):
        a, b = t.left, t.comparators[0]
        for p, q in ((a, b), (b, a)):
            s, m = _side_attr(p, cx), _enum_member(q)
            if s and m:
                return s, m
    return None


def _dispatches(fi, cx: Ctx) -> list:
    """[(side attribute, anchor node, {member: body}, default body | None)]"""
    out = []

    def chain(head: ast.If, side: str):
        arms, default, cur = {}, None, head
        while True:
            e = _eq_test(cur.test, cx)
            arms.setdefault(e[1], cur.body)
            nxt = cur.orelse[0] if len(cur.orelse) == 1 and isinstance(cur.orelse[0], ast.If) else None
            e2 = _eq_test(nxt.test, cx) if nxt is not None else None
            if e2 and e2[0] == side:
                cur = nxt
                continue
            if cur.orelse:
                default = cur.orelse
            return arms, default

    def visit(stmts):
        i = 0
        while i < len(stmts):
            st = stmts[i]
            i += 1
            if isinstance(st, ast.Match):
                side = _side_attr(st.subject, cx)
                if side:
                    arms, default = {}, None
                    for c in st.cases:
                        pats = c.pattern.patterns if isinstance(c.pattern, ast.MatchOr) else [c.pattern]
                        for p in pats:
                            mem = _enum_member(p.value) if isinstance(p, ast.MatchValue) else None
                            if mem and c.guard is None:
                                arms.setdefault(mem, c.body)
                            elif isinstance(p, ast.MatchAs) and p.pattern is None and c.guard is None and default is None:
                                default = c.body
                    out.append((side, st, arms, default))
                for c in st.cases:
                    visit(c.body)
                continue
            if isinstance(st, ast.If):
                e = _eq_test(st.test, cx)
                if e:
                    side = e[0]
                    arms, default = chain(st, side)
                    # a run of sibling `if mode == M:` statements without else is the same dispatch written as guard-style ifs
                    while default is None and i < len(stmts) and isinstance(stmts[i], ast.If) and (e2 := _eq_test(stmts[i].test, cx)) and e2[0] == side:
                        a2, d2 = chain(stmts[i], side)
                        if d2 is not None:
                            break
                        for k_, v_ in a2.items():
                            arms.setdefault(k_, v_)
                        i += 1
                    out.append((side, st, arms, default))
                    for b_ in list(arms.values()) + ([default] if default else []):
                        visit(b_)
                    continue
            for fld in ("body", "orelse", "finalbody"):
                sub = getattr(st, fld, None)
                if isinstance(sub, list):
                    visit(sub)
            if isinstance(st, ast.Try):
                for h in st.handlers:
                    visit(h.body)

    visit(fi.node.body)
    return out


def _arm_of(disp: list, st: ast.AST):
    """(side role, member) of the dispatch arm containing statement st"""
    for side, _, arms, default in disp:
        for mem, body in arms.items():
            if any(y is st for s_ in body for y in ast.walk(s_)):
                return SIDES[side][0], mem
        if default and any(y is st for s_ in default for y in ast.walk(s_)):
            return SIDES[side][0], "default"
    return None, None


# ------------------------------------------------------------------ R18.2
RANK_ORDER = {("upper", "FUNCTION"): 1, ("upper", "CONSTANT"): 2, ("upper", "NONE"): 3,
              ("lower", "FUNCTION"): 4, ("lower", "CONSTANT"): 5, ("lower", "NONE"): 6}


def _shape_offsets(S, fi, M: Masks, e: ast.AST, bases: set, depth: int = 0, shapes: frozenset = frozenset()) -> list:
    """rank offsets (number of axes appended to the shape of the input) of a result-shape expression, one per arm.
    `bases` are the names holding the input array, `shapes` the names holding its shape (parameters of a helper that
    receives `x.shape` instead of `x`)."""
    if e is None or depth > 5:
        return []
    if isinstance(e, ast.Attribute) and e.attr == "shape" and isinstance(e.value, ast.Name) and M.canon(e.value.id) in bases:
        return [0]
    if isinstance(e, ast.Name) and e.id in shapes and e.id not in M.assigns and e.id not in M.other and e.id not in M.unpacked:
        return [0]
    if isinstance(e, ast.Call) and eqx(e.func, "tuple") and len(e.args) == 1 and not e.keywords:
        return _shape_offsets(S, fi, M, e.args[0], bases, depth + 1, shapes)
    if isinstance(e, ast.BinOp) and isinstance(e.op, ast.Add) and isinstance(e.right, ast.Tuple) \
            and _shape_offsets(S, fi, M, e.left, bases, depth + 1, shapes) == [0]:
        return [len(e.right.elts)]
    if isinstance(e, ast.Tuple) and e.elts and isinstance(e.elts[0], ast.Starred) and not any(isinstance(x, ast.Starred) for x in e.elts[1:]) \
            and _shape_offsets(S, fi, M, e.elts[0].value, bases, depth + 1, shapes) == [0]:
        return [len(e.elts) - 1]          # (*x.shape, k) == x.shape + (k,)
    if isinstance(e, ast.IfExp):
        # a conditional expression is a two-way branch: one arm each
        a, b = _shape_offsets(S, fi, M, e.body, bases, depth + 1, shapes), _shape_offsets(S, fi, M, e.orelse, bases, depth + 1, shapes)
        return a + b if a and b else []
    if isinstance(e, ast.Name) and e.id in M.assigns and e.id not in M.other and e.id not in M.unpacked:
        out = []
        for v in M.assigns[e.id]:
            o = _shape_offsets(S, fi, M, v, bases, depth + 1, shapes)
            if not o:
                return []
            out += o
        return out
    if isinstance(e, ast.Call):
        # a (new) helper computing the shape: analyse its return statements with the parameters that receive the input or its shape
        h = None
        if isinstance(e.func, ast.Attribute) and isinstance(e.func.value, ast.Name) and e.func.value.id in ("self", "cls", fi.cls):
            h = S.modules[fi.module].funcs.get(f"{fi.cls}.{e.func.attr}")
        elif isinstance(e.func, ast.Name):
            h = S.modules[fi.module].funcs.get(f"{fi.qual}.{e.func.id}") or S.modules[fi.module].funcs.get(e.func.id)
        if h is None or h.node.args.vararg or h.node.args.kwarg or any(isinstance(a, ast.Starred) for a in e.args) or any(k.arg is None for k in e.keywords):
            return []
        hp = _params(h)
        hb, hs = set(), set()
        for i, p in enumerate(hp):
            a = kwarg(e, p, i)
            if isinstance(a, ast.Name) and M.canon(a.id) in bases:
                hb.add(p)
            elif a is not None and _shape_offsets(S, fi, M, a, bases, depth + 1, shapes) == [0]:
                hs.add(p)
        if not hb and not hs:
            return []
        HM = Masks(S, h, {})
        out = []
        for r in own_nodes(h.node):
            if isinstance(r, ast.Return) and r.value is not None:
                o = _shape_offsets(S, h, HM, r.value, {HM.canon(p) for p in hb} | hb, depth + 1, frozenset(hs))
                if not o:
                    return []
                out += o
        return out
    return []


def r18_2(chk: Check) -> None:
    S = chk.src
    fi = _written(S, S.func(f"{IF}._evaluateOutOfBounds"))
    chk.touch(fi.name)
    M = Masks(S, fi, _mask_summaries(chk))
    disp = _dispatches(fi, M.cx)
    # the result array: `R = np.empty(<shape>)` whose shape is, per arm, the shape of the input plus k trailing axes
    stores = [(st, M.store_mask(st)) for st in own_nodes(fi.node)]
    stores = [(st, sm) for st, sm in stores if sm is not None and isinstance(st.targets[0].value, ast.Name)]
    bases = {sm[1][0] for _, sm in stores}
    res_names: dict[str, list] = {}
    allocs: dict = {}
    for st in own_nodes(fi.node):
        if isinstance(st, ast.Assign) and len(st.targets) == 1 and isinstance(st.targets[0], ast.Name) and isinstance(st.value, ast.Call) \
                and (dotted(st.value.func) or "").split(".")[-1] in ("empty", "zeros", "ones", "full", "empty_like", "zeros_like", "ones_like", "full_like"):
            like = (dotted(st.value.func) or "").endswith("_like")
            shp = kwarg(st.value, "shape", None) if like else kwarg(st.value, "shape", 0)
            if shp is None:
                continue
            offs = _shape_offsets(S, fi, M, shp, bases)
            if len(offs) >= 2:
                res_names[st.targets[0].id] = offs
                allocs[st.targets[0].id] = st
    if not res_names:
        raise AnchorMissing("_evaluateOutOfBounds: result-shape arms not found")
    # the buffer holds function values: its dtype must not depend on the dtype of the input (an integer x would truncate every extrapolated value)
    for R, st in allocs.items():
        d = kwarg(st.value, "dtype", None)
        like = (dotted(st.value.func) or "").endswith("_like")
        okd = (d is None and not like) or (d is not None and (eqx(d, "float") or eqx(d, "np.float64") or eqx(d, "np.double") or eqx(d, "'float64'")))
        chk.ob("R18.2", fi.where(st), "the out-of-range result buffer is a float array whatever the dtype of the input (np.empty(shape) / dtype=float; a *_like(x) buffer "
               "inherits an integer dtype and truncates the values)", okd, n(st)[:80], key="buffer-dtype")
    k_free = 6
    for st, (m, info) in sorted(stores, key=lambda p: (-p[0].lineno, -p[0].col_offset)):
        R = st.targets[0].value.id
        if R not in res_names:
            continue
        min_off = min(res_names[R])
        sl = st.targets[0].slice
        elts = sl.elts if isinstance(sl, ast.Tuple) else [sl]
        extra = [e for e in elts[1:] if not (isinstance(e, ast.Constant) and e.value is Ellipsis)]
        k = RANK_ORDER.get(_arm_of(disp, st))
        if k is None:
            k_free += 1
            k = k_free
        shown = "res[" + ", ".join([M.label(info)] + [n(e) for e in elts[1:]]) + "]"
        callee = _callee_key(M.cx.resolve(st.value, keep_calls=EVAL_API, helpers=False))
        chk.ob("R18.2", fi.where(st), f"`{n(st.targets[0])}`: a mask of x's shape plus {len(extra)} more index(es) fits the result rank "
               f"in every arm (rank(x)+{min_off} for scalar-valued functions)", len(extra) <= min_off,
               f"needs rank(x)+{len(extra)}, result has rank(x)+{min_off} when _RETURN_VALUE_COUNT == 1",
               key=f"rank|{shown}|{callee}|{k}")
    chk.floor("R18.2", 7)


# ------------------------------------------------------------------ values of a local per branch
def _facts(t: ast.AST, pol: bool):
    """atomic (test, polarity) facts implied by a test coming out as `pol`: conjuncts of a true `and`, disjuncts of a false `or`"""
    while isinstance(t, ast.UnaryOp) and isinstance(t.op, ast.Not):
        t, pol = t.operand, not pol
    if isinstance(t, ast.BoolOp) and ((pol and isinstance(t.op, ast.And)) or (not pol and isinstance(t.op, ast.Or))):
        for v in t.values:
            yield from _facts(v, pol)
    else:
        yield t, pol


def _facts_at(g: CFG, cx: Ctx, node) -> list:
    """facts that hold whenever CFG node `node` is executed: every if / while test that it can only be reached through with one
    outcome (if/else arm or fall-through after a guard clause); named booleans are written out first"""
    out = []
    for t in g.nodes:
        if g.kind.get(t) != "test" or t is node:
            continue
        for pol in (True, False):
            if _only_via(g, t, pol, node):
                out += list(_facts(cx.resolve(t), pol))
    return out


def _survival_facts(g: CFG, cx: Ctx, d, name: str, at) -> list:
    """facts that hold whenever the value assigned to `name` at node `d` is still the one read at node `at`: a default that is
    overwritten inside `if t:` survives only when t came out false (default-then-overwrite == if/else assignment)"""
    out = []
    special = (CFG.ENTRY, CFG.EXIT, CFG.RAISE)

    def kills(q):
        return q is not d and q not in special and name in g.defs_of(q)
    for t in g.nodes:
        if g.kind.get(t) != "test" or t is at or t is d:
            continue
        if at in g.reachable(d, avoid=lambda q: kills(q) or q is t):
            continue              # a path d ->* at that does not evaluate t
        for pol in (True, False):
            other = g.branch(t, not pol)
            if other and not any(b is at or (not kills(b) and at in g.reachable(b, avoid=kills)) for b in other):
                out += list(_facts(cx.resolve(t), pol))
    return out


def _block_cases(g: CFG, cx: Ctx, e: ast.AST, at, facts=(), depth: int = 0) -> list:
    """[(facts, value)]: the values expression `e` can have at CFG node `at`, each with the facts under which it is taken.
    A local stands for its reaching definitions (if/else assignment, default then overwrite), a conditional expression for its two arms."""
    facts = list(facts)
    if depth > 6 or at is None:
        return [(facts, e)]
    if isinstance(e, ast.IfExp):
        t = cx.resolve(e.test)
        return _block_cases(g, cx, e.body, at, facts + list(_facts(t, True)), depth + 1) \
            + _block_cases(g, cx, e.orelse, at, facts + list(_facts(t, False)), depth + 1)
    if isinstance(e, ast.Name):
        defs = [d for d in g.reaching_defs(at, e.id) if d is not CFG.ENTRY]
        if defs and all(isinstance(d, (ast.Assign, ast.AnnAssign)) and d.value is not None
                        and all(isinstance(t, ast.Name) for t in (d.targets if isinstance(d, ast.Assign) else [d.target])) for d in defs):
            out = []
            for d in defs:
                out += _block_cases(g, cx, d.value, d, facts + _facts_at(g, cx, d) + _survival_facts(g, cx, d, e.id, at), depth + 1)
            return out
        return [(facts, e)]
    r = cx.resolve(e)
    if isinstance(r, ast.IfExp):      # a simple helper returning a conditional expression
        return _block_cases(g, cx, r, at, facts, depth + 1)
    return [(facts, r)]



# ------------------------------------------------------------------ R18.3
def _vector_when(t: ast.AST, fx: str, cx: Ctx):
    """True / False when the test being true means vector- / scalar-valued data, else None"""
    if isinstance(t, ast.UnaryOp) and isinstance(t.op, ast.Not):
        v = _vector_when(t.operand, fx, cx)
        return None if v is None else not v
    for q in (f"{fx}.ndim", "self._RETURN_VALUE_COUNT"):
        if eqx(t, f"{q} > 1", cx) or eqx(t, f"{q} >= 2", cx):
            return True
        if eqx(t, f"{q} <= 1", cx) or eqx(t, f"{q} < 2", cx):
            return False
    return None


def r18_3(chk: Check) -> None:
    S = chk.src
    for fname in ("_dropBadPoints", "scheduleForInterpolation"):
        fi = S.func(f"{IF}.{fname}")
        chk.touch(fi.name)
        prm = _params(fi)
        if len(prm) < 2:
            raise AnchorMissing(f"{fname}: (abscissae, values) parameters not found")
        M = Masks(S, fi, {})
        cx = M.cx
        X, FX = prm[0], prm[1]
        g = CFG(fi.node)
        # the per-point masks: whatever indexes the abscissa array.  Every value such a mask can have where it is used (reaching
        # definitions, arms of a conditional expression) is judged under the rank test it is taken under
        uses = []
        for x in own_nodes(fi.node):
            if isinstance(x, ast.Subscript) and isinstance(x.ctx, ast.Load) and isinstance(x.value, ast.Name) and M.canon(x.value.id) == X:
                if isinstance(x.slice, ast.Name) or any(isinstance(c, ast.Call) and (dotted(c.func) or "").endswith("isfinite") for c in ast.walk(cx.resolve(x.slice))):
                    uses.append(x)
        found = 0
        seen = set()
        for u in sorted(uses, key=lambda u_: (u_.lineno, u_.col_offset)):
            at = g.node_of(u)
            if at is None:
                continue
            for facts, v in _block_cases(g, cx, u.slice, at, _facts_at(g, cx, at)):
                if isinstance(v, ast.Name):
                    continue          # provenance not followed (parameter, loop variable, unpacked result)
                vec = None
                for t, pol in facts:
                    w = _vector_when(t, FX, cx)
                    if w is not None:
                        vec = w if pol else not w
                if vec is None or (vec, nf(v, cx)) in seen:
                    continue
                seen.add((vec, nf(v, cx)))
                kind, axis = "none", None
                if isinstance(v, ast.Call) and (dotted(v.func) or "").split(".")[-1] in ("all", "any"):
                    a = kwarg(v, "axis", 1)
                    kind = "reduce_all" if a is None else "reduce_axis"
                    if a is not None:
                        try:
                            axis = ast.literal_eval(a)
                        except Exception:
                            axis = n(a)
                inner_ok = any(isinstance(c, ast.Call) and (dotted(c.func) or "").endswith("isfinite") for c in ast.walk(v))
                if vec:
                    ok = kind == "reduce_axis" and axis in (1, -1) and inner_ok
                    want = "np.all(np.isfinite(fx), axis=-1): one flag per abscissa"
                else:
                    ok = kind == "none" and inner_ok
                    want = "np.isfinite(fx): one flag per abscissa (a whole-array reduction is a single flag for the table)"
                found += 1
                chk.ob("R18.3", fi.where(v if hasattr(v, "lineno") else u), f"{fname}: finiteness mask for {'vector' if vec else 'scalar'}-valued data has the rank of x "
                       f"({want})", ok, n(v), key=f"mask|{fname}|{'vector' if vec else 'scalar'}")
        if found < 2:
            raise AnchorMissing(f"{fname}: finiteness masks not found")
    chk.floor("R18.3", 4)


# ------------------------------------------------------------------ R18.4
def r18_4(chk: Check) -> None:
    S = chk.src
    m = S.module("interpolatableFunction")
    enum = m.classes.get(ENUM)
    if enum is None:
        raise AnchorMissing("EExtrapolationType not found")
    members = [t.id for st in enum.node.body if isinstance(st, ast.Assign) for t in st.targets if isinstance(t, ast.Name)]
    fi = _written(S, S.func(f"{IF}._evaluateOutOfBounds"))
    M = Masks(S, fi, _mask_summaries(chk))
    cx = M.cx
    disp = [d for d in _dispatches(fi, cx)]
    # the mask of each side: the one its arms store through
    side_mask: dict[str, tuple] = {}
    for attr, _, arms, default in disp:
        cnt: dict = {}
        for body in list(arms.values()) + ([default] if default else []):
            for s_ in body:
                for y in ast.walk(s_):
                    sm = M.store_mask(y)
                    if sm is not None:
                        cnt.setdefault(sm[1][1], [0, sm])[0] += 1
        if cnt and attr not in side_mask:
            side_mask[attr] = max(cnt.values(), key=lambda p: p[0])[1]
    seen = set()
    for attr, anchor, arms, default in disp:
        if attr in seen:
            continue
        seen.add(attr)
        role, bound = SIDES[attr]
        other_attr = [k for k in SIDES if k != attr][0]
        other_bound = SIDES[other_attr][1]
        own = side_mask.get(attr)
        covered = dict(arms)
        if default is not None:
            for mem in members:
                covered.setdefault(mem, default)
        chk.ob("R18.4", fi.where(anchor), f"dispatch on {attr} covers every EExtrapolationType member", set(members) <= set(covered),
               f"members {members}, cases {sorted(covered)}", key=f"exhaustive|{attr}")
        for mem, body in covered.items():
            body_txt = " ".join(n(s) for s in body)
            # masks referred to in the arm (by name or written out), and attributes used once its temporaries are looked through
            foreign = False
            for s_ in body:
                for y in ast.walk(s_):
                    if isinstance(y, (ast.Name, ast.Compare)) and not (isinstance(y, ast.Name) and not isinstance(y.ctx, ast.Load)):
                        i = M.info(y)
                        if i is not None and (own is None or i[1] != own[1][1]):
                            foreign = True
            attrs_used = {x.attr for s_ in body for x in ast.walk(cx.resolve(s_, keep_calls=EVAL_API)) if isinstance(x, ast.Attribute)}
            wrong_side = foreign or (other_bound in attrs_used and mem != "ERROR")
            arm_calls = [x for s_ in body for x in ast.walk(s_) if isinstance(x, ast.Call) and isinstance(x.func, ast.Attribute)]
            direct = [x for x in arm_calls if x.func.attr == "_evaluateDirectly"]
            interp = [x for x in arm_calls if x.func.attr == "evaluateInterpolation"]

            def at_masked_input(call) -> bool:
                """the argument is the input restricted by this side's mask"""
                a0 = _arg(S, call, 0)
                if a0 is None or own is None:
                    return False
                r = a0
                for _ in range(4):      # look through arm-local aliases
                    if isinstance(r, ast.Name) and len(M.assigns.get(r.id, [])) == 1 and r.id not in M.other and M.info(r) is None:
                        r = M.assigns[r.id][0]
                if not (isinstance(r, ast.Subscript) and isinstance(r.value, ast.Name) and M.canon(r.value.id) == own[1][0]):
                    return False
                i = M.info(r.slice)
                return i is not None and i[1] == own[1][1]

            def at_bound(call) -> bool:
                a0 = _arg(S, call, 0)
                return a0 is not None and eqx(a0, f"self.{bound}", cx)

            if mem == "ERROR":
                ok = any(isinstance(s, ast.Raise) for s in body)
                want = "raises"
            elif mem == "NONE":
                ok = len(direct) == 1 and not interp and at_masked_input(direct[0])
                want = f"evaluates the function directly at x[{LABEL[role]}]"
            elif mem == "CONSTANT":
                ok = len(interp) == 1 and not direct and at_bound(interp[0])
                want = f"uses the spline value at self.{bound}"
            elif mem == "FUNCTION":
                ok = len(interp) == 1 and not direct and at_masked_input(interp[0])
                want = f"evaluates the (extrapolating) spline at x[{LABEL[role]}]"
            else:
                continue
            chk.ob("R18.4", fi.where(body[0]), f"{attr} == {mem}: {want}; no operand of the other side", ok and not wrong_side,
                   body_txt[:160], key=f"arm|{attr}|{mem}")
    chk.ob("R18.4", fi.where(), "both per-side dispatches are present", seen == set(SIDES), key="two-dispatches")
    # the side masks compare the input with _rangeMin / _rangeMax in the right direction
    shown = {}
    oks = []
    for attr, (role, bound) in SIDES.items():
        sm = side_mask.get(attr)
        if sm is None:
            oks.append(False)
            continue
        mexpr, (base, ident, _, r) = sm
        shown[LABEL[role]] = n(r)
        op = ("<=", "<") if role == "lower" else (">=", ">")
        oks.append(any(ident == nf(parse_pattern(f"{base} {o} self.{bound}"), cx) for o in op))
    chk.ob("R18.4", fi.where(), "xLower / xUpper compare x with _rangeMin / _rangeMax in the right direction",
           len(oks) == 2 and all(oks), str(shown), key="side-masks")
    # spline extrapolates iff FUNCTION mode on either side
    f_int = S.func(f"{IF}._interpolate")
    ci_ = Ctx(S, f_int)
    lo_, up_, fn_ = "self.extrapolationTypeLower", "self.extrapolationTypeUpper", f"{ENUM}.FUNCTION"
    either = [f"{fn_} in ({lo_}, {up_})", f"{fn_} in ({up_}, {lo_})", f"{fn_} in [{lo_}, {up_}]", f"{fn_} in [{up_}, {lo_}]",
              f"{fn_} in {{{lo_}, {up_}}}", f"{lo_} == {fn_} or {up_} == {fn_}", f"{lo_} is {fn_} or {up_} is {fn_}"]
    ok = False
    for c in own_nodes(f_int.node):
        if isinstance(c, ast.Call) and (dotted(c.func) or "").endswith("CubicSpline"):
            e = kwarg(c, "extrapolate", 4)
            ok = e is not None and any(eqx(e, p, ci_) for p in either)
    chk.ob("R18.4", f_int.where(), "the spline is built extrapolating iff one side is in FUNCTION mode", ok, key="spline-extrapolate")
    # the in-range mask of evaluate / derivative (computed by _findInterpolatablePoints or in place): rangeMin <= x <= rangeMax
    summ = _mask_summaries(chk)
    okf = True
    where = None
    shown_in = []
    for name in ("evaluate", "derivative"):
        fe = S.func(f"{IF}.{name}")
        ME = Masks(S, fe, summ)
        ins = [sm[1] for sm in (ME.store_mask(st) for st in own_nodes(fe.node)) if sm is not None and sm[1][2] == "range"]
        shown_in += [n(i[3]) for i in ins]
        okf = okf and bool(ins) and all(i[1] == nf(parse_pattern(f"({i[0]} <= self._rangeMax) & ({i[0]} >= self._rangeMin)"), ME.cx) for i in ins)
        where = where or fe.where()
    for name in summ:
        f_find = S.func(f"{IF}.{name}")
        chk.touch(f_find.name)
        where = f_find.where()
    chk.ob("R18.4", where, "interpolatable points are exactly rangeMin <= x <= rangeMax", okf, str(sorted(set(shown_in))), key="inside-mask")
    chk.floor("R18.4", 12)


# ------------------------------------------------------------------ R18.5
def _is_arange(v: ast.AST) -> bool:
    return isinstance(v, ast.Call) and (dotted(v.func) or "") in ("np.arange", "numpy.arange")


def _is_empty_array(v: ast.AST, cx: Ctx) -> bool:
    return any(eqx(v, p, cx) for p in ("np.array([])", "np.array(())", "np.asarray([])", "np.empty(0)", "np.empty((0,))", "np.zeros(0)", "np.zeros((0,))"))


def _nonpositive_const(e: ast.AST) -> bool:
    try:
        v = ast.literal_eval(e)
    except Exception:
        return False
    return isinstance(v, (int, float)) and v <= 0


def _holds(facts: list, pos: list, neg: list, cx: Ctx) -> bool:
    """one of the facts is a spelling of a condition in `pos` (or the negation of one in `neg`)"""
    return any(any(eqx(t, p_, cx) for p_ in (pos if pol else neg)) for t, pol in facts)


def r18_5(chk: Check) -> None:
    S = chk.src
    ci = S.cls(IF)
    writers: dict[str, set] = {}
    for name, fi in ci.methods.items():
        for a, st_ in attr_stores(fi.node):
            if a in STATE:
                if name == "__init__" and isinstance(st_, (ast.Assign, ast.AnnAssign)) and isinstance(st_.value, ast.List) \
                        and not st_.value.elts:
                    continue  # empty-table initialisation in the constructor
                writers.setdefault(name, set()).add(a)
    # subclasses / other modules
    ext = []
    for fi in S.all_funcs():
        if fi.module == "interpolatableFunction" and fi.cls == "InterpolatableFunction":
            continue
        for x in ast.walk(fi.node):
            tg = x.targets if isinstance(x, ast.Assign) else ([x.target] if isinstance(x, ast.AugAssign) else [])
            for t in tg:
                for tt in (t.elts if isinstance(t, ast.Tuple) else [t]):
                    if isinstance(tt, ast.Attribute) and tt.attr in STATE:
                        ext.append(fi.where(x))
    chk.ob("R18.5", f"src/WallGo/interpolatableFunction.py", "the six table attributes are written only by _interpolate",
           set(writers) <= {"_interpolate"} and not ext, f"writers {sorted(writers)}; outside: {ext}", key="single-writer")
    f_int = S.func(f"{IF}._interpolate")
    chk.touch(f_int.name)
    chk.ob("R18.5", f_int.where(), "_interpolate writes all six table attributes together",
           writers.get("_interpolate", set()) == set(STATE), str(sorted(writers.get("_interpolate", set()))), key="all-six")
    # pairing inside _interpolate: spline(xF, fxF); rangeMin=min(xF); rangeMax=max(xF); points=xF; values=fxF; (xF,fxF)=_dropBadPoints(x,fx)
    ex = Extractor(S)
    # the rule asks *which* filter the stored table went through: _dropBadPoints stays an uninterpreted application even when it is
    # (re)written as straight-line code with conditional expressions, which the extractor would otherwise look through as a "simple helper"
    look_through = ex.inline
    ex.inline = lambda name: name.split(".")[-1] != "_dropBadPoints" and look_through(name)
    ps = [p for p in ex.paths(f_int) if p.raised is None]
    if len(ps) != 1:
        raise Undecided("_interpolate: expected straight-line code")
    env = ps[0].env
    pts, vals = env.get("self._interpolationPoints"), env.get("self._interpolationValues")
    spl = env.get("self._interpolatedFunction")
    ok = isinstance(spl, sp.Basic) and spl.func.__name__ == "CubicSpline" and spl.args[0] == pts and spl.args[1] == vals
    chk.ob("R18.5", f_int.where(), "the spline is built from exactly the abscissae/values that are stored as the table", ok,
           f"spline({spl}), points {pts}, values {vals}", key="spline-table-pair")
    rmin, rmax = env.get("self._rangeMin"), env.get("self._rangeMax")
    ok = isinstance(rmin, sp.Basic) and isinstance(rmax, sp.Basic) and rmin.func.__name__ in ("np.min", "min") and rmin.args[0] == pts \
        and rmax.func.__name__ in ("np.max", "max") and rmax.args[0] == pts
    chk.ob("R18.5", f_int.where(), "_rangeMin/_rangeMax are the min/max of the stored abscissae", ok, f"{rmin}, {rmax}", key="range-pair")
    okd = isinstance(pts, sp.Basic) and isinstance(vals, sp.Basic) and "_dropBadPoints" in str(pts) and "_dropBadPoints" in str(vals) \
        and pts != vals
    chk.ob("R18.5", f_int.where(), "stored abscissae and values are the two results of one _dropBadPoints(x, fx) call", okd,
           f"{pts} / {vals}", key="filter-pair")
    # extension order: the two 3-block concatenations around the stored table
    f_ext = _written(S, S.func(f"{IF}.extendInterpolationTable"))       # (a loop over the two new blocks is written out)
    chk.touch(f_ext.name)
    ce = Ctx(S, f_ext)
    ME = Masks(S, f_ext, {})
    ge = CFG(f_ext.node)

    def seq(c):
        """the sequence handed to np.concatenate, a local holding the tuple looked through (its elements are left as written)"""
        t = kwarg(c, "arrays", 0)
        for _ in range(4):
            if isinstance(t, ast.Name) and t.id in ce.local_defs():
                t = ce.local_defs()[t.id]
        return t
    cats = [c for c in calls_in(f_ext.node, "concatenate") if isinstance(seq(c), (ast.Tuple, ast.List))]
    xs = [(c, seq(c).elts) for c in cats if has(seq(c), "self._interpolationPoints", ce)]
    fs = [(c, seq(c).elts) for c in cats if has(seq(c), "self._interpolationValues", ce)]
    ok = False
    detail = "; ".join(n(c) for c in cats)
    px = pf = None
    if len(xs) == 1 and len(fs) == 1 and len(xs[0][1]) == 3 and len(fs[0][1]) == 3:
        px, pf = xs[0][1], fs[0][1]

        def is_f_of(v, p) -> bool:
            """value block v is f(point block p)"""
            r = ce.resolve(v, keep_calls={"_functionImplementation"})
            return any(isinstance(c, ast.Call) and (dotted(c.func) or "").endswith("_functionImplementation")
                       and _arg(S, c, 0) is not None and same(ce.resolve(_arg(S, c, 0)), ce.resolve(p), ce) for c in ast.walk(r))
        ok = (has(px[1], "self._interpolationPoints", ce) and has(pf[1], "self._interpolationValues", ce)
              and is_f_of(pf[0], px[0]) and is_f_of(pf[2], px[2]))
    chk.ob("R18.5", f_ext.where(), "extension concatenates (below, old, above) in the same order for abscissae and values, "
           "each new value block being f(its point block)", ok, detail[:300], key="extend-order")
    # new blocks lie strictly outside the old range.  Every value a block can have where it is concatenated (reaching definitions,
    # arms of conditional expressions) is either an empty array or one arange(...) taken only under the range test of its side
    okb = False
    prm = _params(f_ext)
    if len(prm) < 2:
        raise AnchorMissing("extendInterpolationTable: (newMin, newMax, ...) parameters not found")
    NEW_MIN, NEW_MAX = prm[0], prm[1]
    if px is not None:
        at = ge.node_of(xs[0][0])
        lo, hi = _block_cases(ge, ce, px[0], at), _block_cases(ge, ce, px[2], at)
        ar_l = [(f_, v) for f_, v in lo if _is_arange(v)]
        ar_h = [(f_, v) for f_, v in hi if _is_arange(v)]
        rest = [v for f_, v in lo + hi if not _is_arange(v) and not _is_empty_array(v, ce)]
        if len(ar_l) == 1 and len(ar_h) == 1 and not rest and not same(ce.resolve(px[0]), ce.resolve(px[2]), ce):
            (gl, al), (gh, ah) = ar_l[0], ar_h[0]
            a_l = [kwarg(al, "start", 0), kwarg(al, "stop", 1)] if len(al.args) + len(al.keywords) >= 2 else [None, None]
            a_h = [kwarg(ah, "start", 0), kwarg(ah, "stop", 1), kwarg(ah, "step", 2)] if len(ah.args) + len(ah.keywords) >= 3 else [None, None, None]
            # start == rangeMax + step, whatever the step is called or however it is written out
            step_ok = a_h[0] is not None and a_h[2] is not None and not _nonpositive_const(a_h[2]) and same(
                a_h[0], ast.BinOp(left=parse_pattern("self._rangeMax"), op=ast.Add(), right=a_h[2]), ce)
            okb = (_holds(gl, [f"{NEW_MIN} < self._rangeMin"], [f"{NEW_MIN} >= self._rangeMin"], ce) and eqx(a_l[0], NEW_MIN, ce) and eqx(a_l[1], "self._rangeMin", ce)
                   and _holds(gh, [f"{NEW_MAX} > self._rangeMax"], [f"{NEW_MAX} <= self._rangeMax"], ce) and step_ok)
            detail = (f"lower: if {' and '.join(('' if pol else 'not ') + n(t) for t, pol in gl)}: {n(al)}; "
                      f"upper: if {' and '.join(('' if pol else 'not ') + n(t) for t, pol in gh)}: {n(ah)}")
        else:
            detail = f"lower block: {[n(v)[:60] for _, v in lo]}; upper block: {[n(v)[:60] for _, v in hi]}"
    chk.ob("R18.5", f_ext.where(), "new abscissa blocks lie strictly below _rangeMin / strictly above _rangeMax "
           "(arange(newMin, rangeMin, h) and arange(rangeMax + h, ..., h)), so abscissae stay increasing", okb, detail[:300],
           key="extend-outside")
    chk.floor("R18.5", 7)


# ------------------------------------------------------------------ R18.6
def r18_6(chk: Check) -> None:
    S = chk.src
    attrs = ("extrapolationTypeLower", "extrapolationTypeUpper")
    writers = []
    for fi in S.all_funcs():
        for x in own_nodes(fi.node):
            tg = x.targets if isinstance(x, ast.Assign) else ([x.target] if isinstance(x, ast.AugAssign) else [])
            for t in tg:
                for tt in (t.elts if isinstance(t, (ast.Tuple, ast.List)) else [t]):
                    if isinstance(tt, ast.Attribute) and tt.attr in attrs:
                        writers.append((fi, x, tt))
    fset = S.func(f"{IF}.setExtrapolationType")
    chk.touch(fset.name)
    cs = Ctx(S, fset)
    REBUILD = ("newInterpolationTableFromValues", "_interpolate")
    for fi, x, tt in writers:
        if fi.qual == "InterpolatableFunction.__init__":
            continue
        if fi.name != fset.name:
            chk.ob("R18.6", fi.where(x), "extrapolation modes are changed only through setExtrapolationType (which rebuilds the spline)",
                   False, n(x), key=f"writer|{fi.qual}")
            continue
        g = CFG(fi.node)
        node = g.node_of(x)
        rebuild = set()
        for r_ in REBUILD:
            rebuild |= set(g.stmts_calling(r_))
        # tests deciding whether a table exists, with the polarity on which it does
        tests = {}
        for t in g.nodes:
            if g.kind.get(t) != "test":
                continue
            if eqx(t, "self.hasInterpolation()", cs):
                tests[t] = True
            elif eqx(t, "not self.hasInterpolation()", cs):
                tests[t] = False
        ok = bool(rebuild) and g.must_pass(node, CFG.EXIT, lambda q: q in rebuild or q in tests)
        # ... and the branch on which a table exists always rebuilds
        ok2 = all(b not in (CFG.EXIT, CFG.RAISE) and (b in rebuild or g.must_pass(b, CFG.EXIT, lambda q: q in rebuild))
                  for t, pol in tests.items() for b in g.branch(t, pol)) and all(g.branch(t, pol) for t, pol in tests.items())
        chk.ob("R18.6", fi.where(x), f"after `{n(x)}` every path rebuilds the spline when a table exists", ok and ok2,
               key=f"rebuild|{n(tt)}")
    # rebuild uses the stored table
    ok = False
    for r_ in REBUILD:
        for c in calls_in(fset.node, r_):
            ok = eqx(_arg(S, c, 0), "self._interpolationPoints", cs) and eqx(_arg(S, c, 1), "self._interpolationValues", cs)
    chk.ob("R18.6", fset.where(), "the rebuild re-interpolates the stored (points, values) pair in this order", ok, key="rebuild-args")
    chk.floor("R18.6", 3)


# ------------------------------------------------------------------ R18.7
def _const(e, cx: Ctx):
    r = cx.resolve(e) if e is not None else None
    return r.value if isinstance(r, ast.Constant) else None


def r18_7(chk: Check) -> None:
    S = chk.src
    fr = S.func(f"{IF}.readInterpolationTable")
    fw = S.func(f"{IF}.writeInterpolationTable")
    chk.touch(fr.name, fw.name)
    cr, cw = Ctx(S, fr), Ctx(S, fw)
    rd = [c for c in calls_in(fr.node, "genfromtxt")]
    wr = [c for c in calls_in(fw.node, "savetxt")]
    if not rd or not wr:
        raise AnchorMissing("read/writeInterpolationTable: genfromtxt / savetxt not found")
    dr, dw = kwarg(rd[0], "delimiter", 3), kwarg(wr[0], "delimiter", 3)
    chk.ob("R18.7", fw.where(wr[0]), "writer and reader use the same column delimiter",
           dr is not None and dw is not None and isinstance(_const(dr, cr), str) and _const(dr, cr) == _const(dw, cw),
           f"{n(dr) if dr else None} vs {n(dw) if dw else None}", key="delimiter")
    # writer: column_stack((abscissae, values)) is what is saved
    cs = [c for c in calls_in(fw.node, "column_stack")]
    okw = False
    if cs:
        tup = cw.resolve(kwarg(cs[0], "tup", 0)) if kwarg(cs[0], "tup", 0) is not None else None
        if isinstance(tup, (ast.Tuple, ast.List)) and len(tup.elts) == 2:
            okw = has(tup.elts[0], "self._interpolationPoints", cw) and has(tup.elts[1], "self._interpolationValues", cw) \
                and not has(tup.elts[0], "self._interpolationValues", cw) and not has(tup.elts[1], "self._interpolationPoints", cw)
    chk.ob("R18.7", fw.where(), "writer puts the abscissae in column 0 and the values in the remaining columns", okw, key="writer-columns")
    # reader: the table read by genfromtxt is split into column 0 / columns 1: and interpolated as (x, fx)
    holder = [st.targets[0].id for st in own_nodes(fr.node) if isinstance(st, ast.Assign) and st.value is rd[0] and len(st.targets) == 1
              and isinstance(st.targets[0], ast.Name)]
    D = holder[0] if len(holder) == 1 else None
    MR = Masks(S, fr, {})

    def roots(e, depth=0) -> list:
        """defining expressions of e, looking through locals and value-preserving reshapes (np.ravel)"""
        if depth > 5:
            return [e]
        if isinstance(e, ast.Call) and dotted(e.func) in ("np.ravel", "np.asarray", "np.asanyarray", "np.array") and e.args:
            return roots(e.args[0], depth + 1)
        if isinstance(e, ast.Name) and e.id != D and e.id in MR.assigns and e.id not in MR.other and e.id not in MR.unpacked:
            out = []
            for v in MR.assigns[e.id]:
                if not (isinstance(v, ast.Call) and dotted(v.func) == "np.ravel" and v.args and isinstance(v.args[0], ast.Name) and v.args[0].id == e.id):
                    out += roots(v, depth + 1)
            return out
        return [e]
    ic = [c for c in calls_in(fr.node, "_interpolate")]
    okr = oki = False
    shown = {}
    if D is not None and len(ic) == 1:
        ax, afx = _arg(S, ic[0], 0), _arg(S, ic[0], 1)
        rx, rfx = (roots(ax) if ax is not None else []), (roots(afx) if afx is not None else [])
        shown = {"x": [n(e) for e in rx], "fx": [n(e) for e in rfx]}
        okr = bool(rx) and bool(rfx) and all(eqx(e, f"{D}[:, 0]") for e in rx) and all(eqx(e, f"{D}[:, 1:]") for e in rfx)
        oki = ax is not None and afx is not None and bool(rx) and bool(rfx)
    chk.ob("R18.7", fr.where(), "reader takes column 0 as abscissae and columns 1: as values", okr, str(shown), key="reader-columns")
    fmt = _const(kwarg(wr[0], "fmt", 2), cw)
    prec = None
    if isinstance(fmt, str):
        mm = re.match(r"%\.(\d+)[ge]", fmt)
        prec = int(mm.group(1)) if mm else None
    chk.ob("R18.7", fw.where(wr[0]), "writer keeps at least 15 significant digits", prec is not None and prec >= 15,
           repr(fmt) if fmt else "default", key="precision")
    chk.ob("R18.7", fr.where(), "reader interpolates (x, fx) as read", oki and okr, key="reader-interpolate")
    chk.floor("R18.7", 5)


def rules(chk: Check) -> None:
    chk.src.cls(IF)
    for grp in (r18_1, r18_2, r18_3, r18_4, r18_5, r18_6, r18_7):
        chk.stage(grp, chk)
    # R18.8: the below / above masks of one call are taken against one state of the table (an adaptive extension in the middle of the call moves the
    # range ends: a mask computed afterwards leaves inputs between the old and the new end in neither mask)
    from .shared import range_masks_are_snapshot
    chk.stage(range_masks_are_snapshot, chk, "R18.8")
