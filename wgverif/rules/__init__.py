"""Rule sets, one module per property."""
import importlib

PROPERTIES = [f"C{i:02d}" for i in range(1, 21)]


def load(pid: str):
    return importlib.import_module(f"wgverif.rules.{pid.lower()}")
