"""Rules shared by several properties (each caller re-reports them under its own rule id)."""
from __future__ import annotations

import ast
from typing import Optional

from ..core import AnchorMissing, Check, calls_in, dotted, kwarg, own_nodes
from ..flow import CFG
from ..hydro import n
from ..nf import Ctx, eqx, nf


def _fname(e) -> Optional[str]:
    return e.id if isinstance(e, ast.Name) else None


def _value_of(g: CFG, at, e: ast.AST, fname: str):
    """argument x when e denotes f(x): directly, or through a local all of whose reaching definitions are f(x') with one spelling x'"""
    if isinstance(e, ast.Call) and _fname(e.func) == fname and len(e.args) == 1 and not e.keywords:
        return e.args[0]
    if isinstance(e, ast.Call) and isinstance(e.func, ast.Attribute) and e.func.attr == "sign" and len(e.args) == 1:
        return _value_of(g, at, e.args[0], fname)
    if isinstance(e, ast.Name):
        defs = g.reaching_defs(at, e.id)
        args = []
        for d in defs:
            if d is CFG.ENTRY or not isinstance(d, (ast.Assign, ast.AnnAssign)) or d.value is None:
                return None
            v = d.value
            if not (isinstance(v, ast.Call) and _fname(v.func) == fname and len(v.args) == 1 and not v.keywords):
                return None
            args.append(v.args[0])
        if args and len({nf(a) for a in args}) == 1:
            return args[0]
    return None


def _sign_test(t: ast.AST):
    """(A, B, polarity on which the signs differ or one value vanishes) for `A*B <= 0`, `A*B < 0`, `A*B > 0`, `A*B >= 0`, sign(A) != sign(B)"""
    flip = False
    while isinstance(t, ast.UnaryOp) and isinstance(t.op, ast.Not):
        t, flip = t.operand, not flip
    if not (isinstance(t, ast.Compare) and len(t.ops) == 1):
        return None
    l, r, op = t.left, t.comparators[0], t.ops[0]
    if isinstance(op, (ast.NotEq, ast.Eq)):
        def sg(x):
            return x.args[0] if isinstance(x, ast.Call) and isinstance(x.func, ast.Attribute) and x.func.attr == "sign" and len(x.args) == 1 else None
        a, b = sg(l), sg(r)
        if a is not None and b is not None:
            return a, b, isinstance(op, ast.NotEq) != flip
        return None
    zero_right = isinstance(r, ast.Constant) and r.value == 0
    zero_left = isinstance(l, ast.Constant) and l.value == 0
    if not (zero_right or zero_left):
        return None
    prod = l if zero_right else r
    if not (isinstance(prod, ast.BinOp) and isinstance(prod.op, ast.Mult)):
        return None
    less = isinstance(op, (ast.Lt, ast.LtE)) if zero_right else isinstance(op, (ast.Gt, ast.GtE))
    return prod.left, prod.right, less != flip


def guarded_brackets(chk: Check, rule: str, functions: list[str], floor: int = 1) -> None:
    """A bracketed root search that is entered only after a sign-change test `f(a) * f(b) <= 0` must bracket between those very points:
    testing one pair of end points and bracketing another lets the search start without a sign change (scipy raises, the caller's fallback
    silently replaces the exact solution) or skips a search whose bracket does contain the root."""
    S = chk.src
    count = 0
    for name in functions:
        fi = S.func(name)
        chk.touch(fi.name)
        scopes = [fi] + [f for f in S.modules[fi.module].funcs.values() if f.parent is fi]
        for sc in scopes:
            g = CFG(sc.node)
            cx = Ctx(S, sc)
            for c in own_nodes(sc.node):
                if not (isinstance(c, ast.Call) and (dotted(c.func) or "").split(".")[-1] in ("root_scalar", "brentq")):
                    continue
                f0 = kwarg(c, "f", 0)
                fname = _fname(f0)
                if fname is None:
                    continue
                if (dotted(c.func) or "").endswith("brentq"):
                    a, b = kwarg(c, "a", 1), kwarg(c, "b", 2)
                else:
                    br = kwarg(c, "bracket")
                    br = cx.resolve(br, maxdepth=1) if isinstance(br, ast.Name) else br
                    a, b = (br.elts if isinstance(br, (ast.List, ast.Tuple)) and len(br.elts) == 2 else (None, None))
                if a is None or b is None:
                    continue
                node = g.node_of(c)
                if node is None:
                    continue
                for t in g.nodes:
                    if g.kind.get(t) != "test" or not g.must_pass(CFG.ENTRY, node, lambda q, t=t: q is t):
                        continue
                    st = _sign_test(t)
                    if st is None:
                        continue
                    A, B, pol = st
                    a_, b_ = a, b
                    if g.reaches(g.branch(t, not pol), node, avoid=lambda q, t=t: q is t):
                        # the search is shared by both branches (`hi = b if sign change else extremum; root_scalar(f, [a, hi])`): on the path
                        # through the sign-change branch the bracket ends are whatever that branch assigns to them
                        inside = g.reachable(next(iter(g.branch(t, pol)), None), avoid=lambda q, t=t: q is t, include_start=True) if g.branch(t, pol) else set()
                        other = set()
                        for s0 in g.branch(t, not pol):
                            other |= g.reachable(s0, avoid=lambda q, t=t: q is t, include_start=True)
                        only = {q for q in inside if q not in other}
                        sub = []
                        for e in (a, b):
                            v = e
                            if isinstance(e, ast.Name):
                                ds = [d for d in g.reaching_defs(node, e.id) if d in only and isinstance(d, ast.Assign) and len(d.targets) == 1 and isinstance(d.targets[0], ast.Name)]
                                if len(ds) == 1:
                                    v = ds[0].value
                            sub.append(v)
                        if sub[0] is a and sub[1] is b:
                            continue            # this test does not select the bracket of this search
                        a_, b_ = sub
                    xa, xb = _value_of(g, t, A, fname), _value_of(g, t, B, fname)
                    if xa is None or xb is None:
                        continue
                    # no re-definition of the tested points between the test and the search is checked by spelling + reaching definitions
                    count += 1
                    ok = {nf(xa), nf(xb)} == {nf(a_), nf(b_)}
                    chk.ob(rule, sc.where(c), f"{sc.qual}: the root of `{fname}` is bracketed between the two points whose sign change was tested "
                           f"(`{n(t)[:70]}`)", ok, f"tested f({n(xa)}), f({n(xb)}); bracket [{n(a_)}, {n(b_)}]", key=f"guarded-bracket|{sc.qual}|{fname}")
    if count < floor:
        raise AnchorMissing(f"rule {rule}: only {count} sign-tested bracketed root searches found (floor {floor})")


def own_jouguet_velocity(chk: Check, rule: str) -> None:
    """Every decision of the full hydrodynamics class that depends on which side of the Jouguet velocity a wall is uses the model's own `self.vJ`
    (the value `findMatching` classifies with).  The template model's vJ differs from it whenever the sound speeds depend on temperature; it may
    size the velocity handed *to the template's own routines*, but a branch decided with it disagrees with the matching for walls in between."""
    S = chk.src
    ci = S.cls("hydrodynamics:Hydrodynamics")
    own = 0
    seen = set()
    for mname, fi in ci.methods.items():
        cx = Ctx(S, fi)
        for c0 in (y for y in ast.walk(fi.node) if isinstance(y, ast.Compare)):      # tests of if / while / conditional expressions / asserts alike
            if id(c0) in seen:
                continue
            seen.add(id(c0))
            c = cx.resolve(c0)          # look through temporaries (`top = self.vJ - eps; if f(top) < ...`)
            sides = [c.left] + list(c.comparators)
            foreign = any(isinstance(x, ast.Attribute) and x.attr == "vJ" and not (isinstance(x.value, ast.Name) and x.value.id == "self")
                          for y in sides for x in ast.walk(y))
            mine = any(eqx(x, "self.vJ") for y in sides for x in ast.walk(y))
            own += 1 if mine else 0
            if foreign:
                chk.ob(rule, fi.where(c0), f"{fi.qual}: the branch `{n(c0)[:80]}` is decided with the model's own Jouguet velocity self.vJ", False,
                       "compares with another model's vJ", key=f"own-vJ|{fi.qual}|{n(c0)[:60]}")
    chk.ob(rule, "src/WallGo/hydrodynamics.py", f"all {own} branch decisions of Hydrodynamics that involve a Jouguet velocity use self.vJ", own >= 2,
           f"{own} comparisons with self.vJ", key="own-vJ|all")


def flag_fresh_before_read(chk: Check, rule: str, cls_name: str = "hydrodynamics:Hydrodynamics", flag: str = "success") -> None:
    """`self.<flag>` records whether the LAST solve converged.  A method that branches on it must have performed (or called a method that
    performs) a solve that writes it, on every path to the read: otherwise the decision is taken on the outcome of an earlier, unrelated call
    (a fresh object starts with the flag down, a previous unconverged matching leaves it down)."""
    S = chk.src
    ci = S.cls(cls_name)
    # methods that write the flag on every path to their normal exit
    always: set[str] = set()
    sometimes: set[str] = set()
    changed = True
    cfgs = {m: CFG(f.node) for m, f in ci.methods.items()}

    def writes(node) -> bool:
        if isinstance(node, (ast.Assign, ast.AugAssign, ast.AnnAssign)):
            for t in (node.targets if isinstance(node, ast.Assign) else [node.target]):
                for x in ast.walk(t):
                    if isinstance(x, ast.Attribute) and x.attr == flag and isinstance(x.value, ast.Name) and x.value.id == "self":
                        return True
        for c in (y for y in ast.walk(node) if isinstance(y, ast.Call)) if isinstance(node, ast.AST) else []:
            if isinstance(c.func, ast.Attribute) and isinstance(c.func.value, ast.Name) and c.func.value.id == "self" and c.func.attr in always:
                return True
        return False

    while changed:
        changed = False
        for m, f in ci.methods.items():
            if m in always or m == "__init__":
                continue
            g = cfgs[m]
            if any(writes(q) for q in g.nodes if g.kind.get(q) not in ("def", "handler")):
                sometimes.add(m)
                if g.must_pass(CFG.ENTRY, CFG.EXIT, lambda q: g.kind.get(q) not in ("def", "handler") and writes(q)):
                    always.add(m)
                    changed = True
    nreads = 0
    for m, f in ci.methods.items():
        if m == "__init__":
            continue
        g = cfgs[m]
        for q in g.nodes:
            if g.kind.get(q) in ("def", "handler"):
                continue
            reads = [x for x in _own_walk(q) if isinstance(x, ast.Attribute) and x.attr == flag and isinstance(x.ctx, ast.Load)
                     and isinstance(x.value, ast.Name) and x.value.id == "self"]
            if not reads:
                continue
            nreads += 1
            ok = g.must_pass(CFG.ENTRY, q, lambda z: z is not q and g.kind.get(z) not in ("def", "handler") and writes(z))
            chk.touch(f.name)
            chk.ob(rule, f.where(q), f"{f.qual}: `self.{flag}` is read only after a solve of this very call has written it (every path to the read "
                   f"passes an assignment of the flag or a call of {sorted(always) or '[]'})", ok, f"`{n(q)[:80]}`", key=f"fresh-flag|{f.qual}")
    if nreads < 1:
        raise AnchorMissing(f"{cls_name}: no read of self.{flag} found")


def _own_walk(node):
    """nodes of a CFG node without descending into nested function definitions"""
    stack = [node]
    while stack:
        x = stack.pop()
        yield x
        for c in ast.iter_child_nodes(x):
            if not isinstance(c, (ast.FunctionDef, ast.AsyncFunctionDef, ast.ClassDef, ast.Lambda)):
                stack.append(c)


PLASMA_VELOCITY_NAMES = {"velocityMid", "vp", "vm", "vpcent", "velocityProfile", "velocityAtCenter", "vPlasma", "velocity", "velocityMidPoint"}


def jouguet_compared_with_wall_velocity(chk: Check, rule: str) -> None:
    """vJ is a threshold for the WALL velocity.  In the wall solver no comparison with the hydrodynamics' vJ may have a plasma velocity on the other
    side (the mid-wall fluid velocity (v+ + v-)/2, v+, v-, the velocity profile): walls just above vJ have plasma velocities below it."""
    S = chk.src
    ci = S.cls("equationOfMotion:EOM")
    count = 0
    for m, f in ci.methods.items():
        scopes = [f] + [x for x in S.modules[f.module].funcs.values() if x.parent is f]
        for sc in scopes:
            cx = Ctx(S, sc)
            for c in (y for y in ast.walk(sc.node) if isinstance(y, ast.Compare)):
                sides = [c.left] + list(c.comparators)
                if not any(isinstance(x, ast.Attribute) and x.attr == "vJ" for s_ in sides for x in ast.walk(s_)):
                    continue
                others = [s_ for s_ in sides if not any(isinstance(x, ast.Attribute) and x.attr == "vJ" for x in ast.walk(s_))]
                count += 1
                bad = []
                for o in others:
                    # plasma velocities are recognised by the public parameter / attribute names they travel under (velocityMid, vp, vm, the
                    # velocity profile); as written, or with temporaries looked through
                    for r in (o, cx.resolve(o, maxdepth=2)):
                        names = {x.id for x in ast.walk(r) if isinstance(x, ast.Name)} | {x.attr for x in ast.walk(r) if isinstance(x, ast.Attribute)}
                        if names & PLASMA_VELOCITY_NAMES:
                            bad.append(n(o))
                            break
                chk.touch(sc.name)
                chk.ob(rule, sc.where(c), f"{sc.qual}: `{n(c)[:70]}` compares the Jouguet velocity with a wall velocity", not bad,
                       f"other side: {bad}", key=f"vJ-vs-wall-velocity|{sc.qual}|{n(c)[:50]}")
    if count < 2:
        raise AnchorMissing("EOM: comparisons of a wall velocity with hydrodynamics.vJ not found")


def per_object_state(chk: Check, rule: str, classes: tuple) -> None:
    """results are a function of the object's own model and inputs: no mutable class-level attribute of these classes is mutated in place by
    their methods (a class-level cache / list is shared by every instance, so a second model would read the first model's entries)"""
    from ..core import shared_mutable_class_state
    S = chk.src
    hits = [h for h in shared_mutable_class_state(S) if h[2] in classes]
    chk.ob(rule, "src/WallGo", f"no method of {', '.join(classes)} mutates a mutable class-level attribute in place (caches and bookkeeping are per instance)",
           not hits, "; ".join(f"{f.qual} mutates class-level `{a}` of {c}" for f, x, c, a in hits)[:300], key="per-object-state|" + "+".join(classes))


def called_for_effect_mutates(chk: Check, rule: str, method: str) -> None:
    """A method that the package calls as a bare statement (`x.<method>(...)`, result discarded) is relied upon to change its receiver.  Every
    definition of that method in the package must then really modify `self` (store to an attribute / item of self, or call -- again for effect --
    a method of one of its attributes that does): a definition that computes a new object and returns it turns those call sites into no-ops."""
    S = chk.src
    sites = []
    for m in S.modules.values():
        for fi in m.funcs.values():
            for st in ast.walk(fi.node):
                if isinstance(st, ast.Expr) and isinstance(st.value, ast.Call) and isinstance(st.value.func, ast.Attribute) and st.value.func.attr == method:
                    sites.append((fi, st))
    defs = [(ci, ci.methods[method]) for m in S.modules.values() for ci in m.classes.values() if method in ci.methods]
    if not sites or not defs:
        raise AnchorMissing(f"`{method}`: no call for effect / no definition found")
    mut = {}

    def mutates(fi, seen=()):
        if fi.name in mut:
            return mut[fi.name]
        res = False
        for st in _own_walk(fi.node):
            tg = []
            if isinstance(st, ast.Assign):
                tg = st.targets
            elif isinstance(st, (ast.AugAssign, ast.AnnAssign)):
                tg = [st.target]
            for t in tg:
                for x in ast.walk(t):
                    if isinstance(x, (ast.Attribute, ast.Subscript)) and isinstance(x.ctx, ast.Store):
                        b = x
                        while isinstance(b, (ast.Attribute, ast.Subscript)):
                            b = b.value
                        if isinstance(b, ast.Name) and b.id == "self":
                            res = True
            if isinstance(st, ast.Expr) and isinstance(st.value, ast.Call) and isinstance(st.value.func, ast.Attribute):
                f = st.value.func
                b = f.value
                while isinstance(b, (ast.Attribute, ast.Subscript)):
                    b = b.value
                if isinstance(b, ast.Name) and b.id == "self" and f.value is not b:
                    # self.<attr>.<m>(...) for effect: mutates when every package definition of <m> mutates
                    inner = [c.methods[f.attr] for m_ in S.modules.values() for c in m_.classes.values() if f.attr in c.methods]
                    if inner and all(x.name in seen or mutates(x, seen + (fi.name,)) for x in inner if x.name != fi.name):
                        res = True
        mut[fi.name] = res
        return res

    for ci, fd in defs:
        chk.touch(fd.name)
        chk.ob(rule, fd.where(), f"{ci.name}.{method} modifies its receiver: it is called for its effect at {len(sites)} site(s) "
               f"({', '.join(sorted({s_[0].qual for s_ in sites}))[:120]})", mutates(fd), key=f"for-effect|{ci.name}.{method}")


# ------------------------------------------------------------------------------------------------ results of solver calls are consumed
SOLVER_CALLS = {"root_scalar", "brentq", "bisect", "newton", "fsolve", "root", "least_squares", "minimize", "minimize_scalar", "solve_ivp", "quad", "quad_vec"}


def _solver_in(e) -> Optional[str]:
    for c in ast.walk(e):
        if isinstance(c, ast.Call):
            d = (dotted(c.func) or "").split(".")[-1]
            if d in SOLVER_CALLS:
                return d
    return None


def solver_results_consumed(chk: Check, rule: str, modules: tuple, floor: int = 1) -> None:
    """A value computed by a root finder / minimiser / integrator and stored in a local is read before the local is overwritten or the
    function ends (liveness).  A solver result written to a name nobody reads (a partial rename, a stale assignment kept after an edit) means
    the code after it still works with the un-refined value -- no exception, no warning.  Decided per function on its CFG; a read inside a
    nested function (closure) counts as a read."""
    S = chk.src
    cnt = 0
    for mn in modules:
        m = S.modules[mn]
        for q, f in m.funcs.items():
            if not isinstance(f.node, (ast.FunctionDef, ast.AsyncFunctionDef)):
                continue
            cands = [st for st in own_nodes(f.node) if isinstance(st, (ast.Assign, ast.AnnAssign)) and st.value is not None and _solver_in(st.value)]
            if not cands:
                continue
            chk.touch(f.name)
            g = CFG(f.node)
            for_targets = {id(st.iter): {x.id for x in ast.walk(st.target) if isinstance(x, ast.Name)} for st in own_nodes(f.node) if isinstance(st, (ast.For, ast.AsyncFor))}

            def loads(qn, name: str) -> bool:
                if not isinstance(qn, ast.AST):
                    return False
                if isinstance(qn, ast.With):
                    return any(isinstance(x, ast.Name) and x.id == name and isinstance(x.ctx, ast.Load) for it in qn.items for x in ast.walk(it.context_expr))
                if isinstance(qn, ast.ExceptHandler):
                    return False
                if isinstance(qn, ast.AugAssign) and isinstance(qn.target, ast.Name) and qn.target.id == name:
                    return True
                return any(isinstance(x, ast.Name) and x.id == name and isinstance(x.ctx, (ast.Load, ast.Del)) for x in ast.walk(qn))

            def stores(qn, name: str) -> bool:
                if not isinstance(qn, ast.AST) or isinstance(qn, (ast.FunctionDef, ast.AsyncFunctionDef, ast.ClassDef, ast.Lambda)):
                    return False
                if id(qn) in for_targets:
                    return name in for_targets[id(qn)]
                if isinstance(qn, ast.With):
                    return any(isinstance(x, ast.Name) and x.id == name for it in qn.items if it.optional_vars is not None for x in ast.walk(it.optional_vars))
                if isinstance(qn, ast.ExceptHandler):
                    return qn.name == name
                return any(isinstance(x, ast.Name) and x.id == name and isinstance(x.ctx, ast.Store) for x in ast.walk(qn))

            for st in cands:
                if st not in g.nodes:
                    continue
                tgts = st.targets if isinstance(st, ast.Assign) else [st.target]
                names = [x.id for t in tgts for x in ast.walk(t) if isinstance(x, ast.Name) and isinstance(x.ctx, ast.Store)]
                if not names or any(not isinstance(x, (ast.Name, ast.Tuple, ast.List, ast.Starred)) for t in tgts for x in [t]):
                    continue            # stored into an attribute / item: visible outside the function
                cnt += 1
                live = []
                for nm in names:
                    if nm.startswith("_") and len(names) > 1:
                        continue
                    region = g.reachable(st, avoid=lambda qn, nm=nm: qn is not st and stores(qn, nm))
                    if any(loads(qn, nm) for qn in region) or (loads(st, nm) and st in region):
                        live.append(nm)
                chk.ob(rule, f.where(st), f"the result of {_solver_in(st.value)}(...) stored in `{', '.join(names)}` is read before it is overwritten or the function ends "
                       "(a solver result nobody reads leaves the code after it working with the un-refined value)", bool(live),
                       "" if live else f"`{n(st)[:90]}`: never read afterwards", key=f"consumed|{f.qual}|{_solver_in(st.value)}|{sum(1 for c in cands[:cands.index(st)] if _solver_in(c.value) == _solver_in(st.value))}")
    if cnt < floor:
        raise AnchorMissing(f"rule {rule}: only {cnt} stored solver results found in {modules} (expected at least {floor})")
    chk.floor(rule, floor)


# ------------------------------------------------------------------------------------------------ no in-place mutation of aliased stored state
VIEW_FUNCS = {"asarray", "asanyarray", "atleast_1d", "atleast_2d", "transpose", "expand_dims", "squeeze", "ravel", "reshape", "swapaxes", "moveaxis", "broadcast_to", "flip"}
VIEW_METHODS = {"reshape", "view", "ravel", "squeeze", "transpose", "swapaxes"}


def _basic_index(sl) -> bool:
    """numpy basic indexing (slices, None, Ellipsis, integers): the result is a view of the array"""
    elts = sl.elts if isinstance(sl, ast.Tuple) else [sl]
    return all(isinstance(e, ast.Slice) or (isinstance(e, ast.Constant) and (e.value is None or e.value is Ellipsis or isinstance(e.value, int)))
               or (isinstance(e, ast.UnaryOp) and isinstance(e.operand, ast.Constant)) for e in elts)


def _array_index(sl) -> bool:
    elts = sl.elts if isinstance(sl, ast.Tuple) else [sl]
    return any(isinstance(e, ast.Slice) or (isinstance(e, ast.Constant) and (e.value is None or e.value is Ellipsis)) for e in elts)


def _stored_state_getters(S) -> dict:
    """method name -> set of tuple positions (or {None}) at which some `return` hands out an attribute of self itself (no copy)"""
    out: dict = {}
    for m in S.modules.values():
        for q, f in m.funcs.items():
            if not isinstance(f.node, (ast.FunctionDef, ast.AsyncFunctionDef)) or "." not in q:
                continue
            for r in own_nodes(f.node):
                if not isinstance(r, ast.Return) or r.value is None:
                    continue
                vals = list(enumerate(r.value.elts)) if isinstance(r.value, ast.Tuple) else [(None, r.value)]
                for k, v in vals:
                    if isinstance(v, ast.Attribute) and isinstance(v.value, ast.Name) and v.value.id == "self":
                        out.setdefault(f.node.name, set()).add(k)
    return out


def no_inplace_mutation_of_aliased_state(chk: Check, rule: str, modules: tuple, floor: int = 1) -> None:
    """An array handed out by another object's getter / read from an attribute (the grid's cached coordinates and Jacobians, polynomial
    coefficients, a caller's container) is shared, not copied: numpy basic indexing, reshape, asarray ... return views of the same memory.
    Updating such a local in place (`x *= ..`, `x[..] = ..`, `x.sort()`, `out=x`) silently rewrites the owner's state, so the next call
    computes with corrupted data.  Every in-place update in the listed modules must act on an array created in the same function."""
    S = chk.src
    getters = _stored_state_getters(S)
    cnt = 0

    def alias_expr(g, at, v, depth, ev):
        """does expression v (evaluated at CFG node `at`) denote memory owned by stored state?  ev collects evidence that it is an array"""
        if depth > 8:
            return None
        if isinstance(v, ast.Name):
            return origin(g, at, v.id, depth + 1, ev)
        if isinstance(v, ast.Subscript):
            if not _basic_index(v.slice):
                return None          # fancy / boolean indexing copies
            if _array_index(v.slice):
                ev.append("indexed with slices")
            return alias_expr(g, at, v.value, depth + 1, ev)
        if isinstance(v, ast.Attribute):
            if v.attr == "T":
                return alias_expr(g, at, v.value, depth + 1, ev)
            b = v
            while isinstance(b, ast.Attribute):
                b = b.value
            if isinstance(b, ast.Name) and b.id == "self":
                return n(v)
            if isinstance(b, ast.Name):
                # attribute of a parameter / local object: stored state of that object
                r = origin(g, at, b.id, depth + 1, ev, want_object=True)
                return n(v) if r else None
            return None
        if isinstance(v, ast.Call):
            d = dotted(v.func) or ""
            last = d.split(".")[-1]
            if d.startswith("np.") and last in VIEW_FUNCS and v.args and not (last == "asarray" and any(k.arg == "dtype" for k in v.keywords)):
                ev.append(f"np.{last}")
                return alias_expr(g, at, v.args[0], depth + 1, ev)
            if isinstance(v.func, ast.Attribute) and last in VIEW_METHODS:
                ev.append(f".{last}()")
                return alias_expr(g, at, v.func.value, depth + 1, ev)
            if isinstance(v.func, ast.Attribute) and last in getters and None in getters[last]:
                return f"{n(v.func)}()"
            return None
        return None

    def origin(g, at, name, depth, ev, want_object=False):
        if depth > 8:
            return None
        for d in g.reaching_defs(at, name):
            if d is CFG.ENTRY:
                if want_object and name != "self":
                    return name      # a parameter object: its attributes are the caller's state
                continue
            if isinstance(d, ast.AugAssign):
                r = origin(g, d, name, depth + 1, ev, want_object)
                if r:
                    return r
                continue
            if not isinstance(d, ast.Assign) or len(d.targets) != 1:
                continue
            t, v = d.targets[0], d.value
            if isinstance(t, ast.Name):
                r = alias_expr(g, d, v, depth + 1, ev)
                if r:
                    return r
            elif isinstance(t, (ast.Tuple, ast.List)):
                pos = [k for k, e_ in enumerate(t.elts) if isinstance(e_, ast.Name) and e_.id == name]
                if not pos:
                    continue
                if isinstance(v, (ast.Tuple, ast.List)) and len(v.elts) == len(t.elts):
                    r = alias_expr(g, d, v.elts[pos[0]], depth + 1, ev)
                    if r:
                        return r
                elif isinstance(v, ast.Call) and isinstance(v.func, ast.Attribute) and v.func.attr in getters and pos[0] in getters[v.func.attr]:
                    ev.append("element of a getter's tuple")
                    return f"{n(v.func)}()[{pos[0]}]"
        return None

    for mn in modules:
        m = S.modules[mn]
        for q, f in m.funcs.items():
            if not isinstance(f.node, (ast.FunctionDef, ast.AsyncFunctionDef)):
                continue
            muts = []
            for st in own_nodes(f.node):
                if isinstance(st, ast.AugAssign) and isinstance(st.target, (ast.Name, ast.Subscript)):
                    muts.append((st, st.target, isinstance(st.target, ast.Subscript)))
                elif isinstance(st, ast.Assign):
                    muts += [(st, t, True) for t in st.targets if isinstance(t, ast.Subscript)]
                elif isinstance(st, ast.Expr) and isinstance(st.value, ast.Call) and isinstance(st.value.func, ast.Attribute) \
                        and st.value.func.attr in ("sort", "fill", "resize", "itemset", "put") and isinstance(st.value.func.value, ast.Name):
                    muts.append((st, st.value.func.value, True))
                for c in (y for y in ast.walk(st) if isinstance(y, ast.Call)) if isinstance(st, (ast.Assign, ast.Expr, ast.AugAssign, ast.Return)) else []:
                    for k in c.keywords:
                        if k.arg == "out" and isinstance(k.value, ast.Name):
                            muts.append((st, k.value, True))
            if not muts:
                continue
            g = None
            for st, t, is_array in muts:
                base = t
                while isinstance(base, (ast.Subscript,)):
                    base = base.value
                if not isinstance(base, ast.Name) or base.id == "self":
                    continue
                if g is None:
                    g = CFG(f.node)
                    chk.touch(f.name)
                if st not in g.nodes:
                    continue
                cnt += 1
                ev: list = []
                src_ = origin(g, st, base.id, 0, ev)
                # a plain `x op= y` on a scalar re-binds the local; only arrays are updated in place
                bad = bool(src_) and (is_array or bool(ev))
                chk.ob(rule, f.where(st), f"the in-place update `{n(st)[:60]}` acts on an array created in this function, not on a view of stored state", not bad,
                       f"`{base.id}` aliases {src_} ({', '.join(ev) or 'subscript store'}): the owner's data is overwritten" if bad else "",
                       key=f"inplace|{f.qual}|{nf(st)[:80]}")
    if cnt < floor:
        raise AnchorMissing(f"rule {rule}: only {cnt} in-place updates found in {modules} (expected at least {floor})")
    chk.floor(rule, floor)


# ------------------------------------------------------------------------------------------------ tiny offsets of bracket ends point inward
def bracket_offsets_inward(chk: Check, rule: str, modules: tuple, floor: int = 1) -> None:
    """A bracket end that sits on a singular / limiting value is moved by a tiny amount so that the root finder never evaluates the limit
    itself.  The move must point INTO the bracket: `lower + tiny`, `upper - tiny`.  The opposite sign puts the end just outside the
    admissible interval, where the bracketed function jumps or is undefined, and the solver then converges onto the jump or loses the sign
    change -- with no error.  Decided on the reaching definitions of both ends of every bracket handed to a scalar root finder."""
    S = chk.src
    cnt = 0

    def tiny(c) -> bool:
        return isinstance(c, ast.Constant) and isinstance(c.value, (int, float)) and not isinstance(c.value, bool) and 0 < abs(c.value) <= 1e-3

    def const(g, at, c):
        """the operand as a tiny literal: written in place, or a local / module constant bound once to one"""
        if tiny(c):
            return c
        if isinstance(c, ast.Name):
            ds = [d for d in g.reaching_defs(at, c.id)]
            if len(ds) == 1 and isinstance(ds[0], ast.Assign) and tiny(ds[0].value):
                return ds[0].value
            if len(ds) == 1 and ds[0] is CFG.ENTRY and c.id in module_consts:
                return module_consts[c.id]
        return None

    def offsets(g, at, e, depth=0) -> list:
        """[(sign, constant, statement/expression)] of the tiny offsets applied at top level to the value of e"""
        out = []
        if depth > 3:
            return out
        if isinstance(e, ast.BinOp) and isinstance(e.op, (ast.Add, ast.Sub)):
            r_, l_ = const(g, at, e.right), const(g, at, e.left)
            if r_ is not None:
                out.append((+1 if isinstance(e.op, ast.Add) == (r_.value > 0) else -1, r_.value, e))
            elif l_ is not None and isinstance(e.op, ast.Add):
                out.append((+1 if l_.value > 0 else -1, l_.value, e))
        elif isinstance(e, ast.Name):
            for d in g.reaching_defs(at, e.id):
                if isinstance(d, ast.Assign) and len(d.targets) == 1 and isinstance(d.targets[0], ast.Name):
                    out += offsets(g, d, d.value, depth + 1)
        return out

    for mn in modules:
        m = S.modules[mn]
        module_consts = {st.targets[0].id: st.value for st in m.tree.body if isinstance(st, ast.Assign) and len(st.targets) == 1 and isinstance(st.targets[0], ast.Name) and tiny(st.value)}
        for q, f in m.funcs.items():
            if not isinstance(f.node, (ast.FunctionDef, ast.AsyncFunctionDef)):
                continue
            calls = [c for c in ast.walk(f.node) if isinstance(c, ast.Call) and (dotted(c.func) or "").split(".")[-1] in ("root_scalar", "brentq", "bisect", "brenth", "ridder", "toms748")]
            calls = [c for c in calls if not any(isinstance(p, (ast.FunctionDef, ast.Lambda)) and p is not f.node and any(y is c for y in ast.walk(p)) for p in ast.walk(f.node))]
            if not calls:
                continue
            g = CFG(f.node)
            for c in calls:
                at = g.node_of(c)
                if at is None:
                    continue
                br = kwarg(c, "bracket", None)
                if br is None and (dotted(c.func) or "").split(".")[-1] != "root_scalar" and len(c.args) >= 3:
                    ends = (c.args[1], c.args[2])
                elif isinstance(br, (ast.List, ast.Tuple)) and len(br.elts) == 2:
                    ends = tuple(br.elts)
                else:
                    continue
                chk.touch(f.name)
                for side, e, want in (("lower", ends[0], +1), ("upper", ends[1], -1)):
                    offs = offsets(g, at, e)
                    if not offs:
                        continue
                    cnt += 1
                    bad = [o for o in offs if o[0] != want]
                    chk.ob(rule, f.where(c), f"the {side} end `{n(e)[:40]}` of the bracket is moved by its tiny offset INTO the bracket ({'+' if want > 0 else '-'} tiny)", not bad,
                           "; ".join(f"`{n(o[2])[:70]}` moves it outward" for o in bad), key=f"inward|{f.qual}|{side}|{nf(e)[:60]}")
    if cnt < floor:
        raise AnchorMissing(f"rule {rule}: only {cnt} offset bracket ends found in {modules} (expected at least {floor})")
    chk.floor(rule, floor)


# ------------------------------------------------------------------------------------------------ sibling getters pad the same ends
class _PadEval:
    """evaluates the statements of a getter (endpoints fixed to True) to sequence patterns: a list of "lit" (one added end point) and "arr"
    (the stored interior array) items.  Understands list displays and `+`, list()/tuple()/np.array()/np.asarray(), np.concatenate / np.hstack /
    np.append (canonicalised to concatenate) / np.insert(a, 0, v) / np.r_, starred displays, and lists built by .insert(0, v) / .append(v)."""

    def __init__(self):
        self.env: dict = {}

    @staticmethod
    def _scalar(e) -> bool:
        if isinstance(e, ast.Constant) and isinstance(e.value, (int, float)) and not isinstance(e.value, bool):
            return True
        if isinstance(e, ast.UnaryOp) and isinstance(e.op, (ast.USub, ast.UAdd)):
            return _PadEval._scalar(e.operand)
        return (dotted(e) or "") in ("np.inf", "numpy.inf", "math.inf", "np.Inf", "np.PINF", "np.NINF") or \
            (isinstance(e, ast.Call) and (dotted(e.func) or "") == "float" and len(e.args) == 1 and isinstance(e.args[0], ast.Constant))

    def seq(self, e):
        if isinstance(e, ast.Name):
            return self.env.get(e.id)
        if self._scalar(e):
            return ["lit"]
        if isinstance(e, (ast.List, ast.Tuple)):
            out = []
            for el in e.elts:
                if isinstance(el, ast.Starred):
                    q = self.seq(el.value)
                    if q is None:
                        return None
                    out += q
                elif self._scalar(el) or isinstance(el, ast.Name) and self.env.get(el.id) == ["lit"]:
                    out.append("lit")
                else:
                    return None
            return out
        if isinstance(e, ast.Attribute):
            b_ = e
            while isinstance(b_, ast.Attribute):
                b_ = b_.value
            return ["arr"] if isinstance(b_, ast.Name) and b_.id == "self" else None
        if isinstance(e, ast.BinOp) and isinstance(e.op, ast.Add):
            l_, r_ = self.seq(e.left), self.seq(e.right)
            return None if l_ is None or r_ is None else l_ + r_
        if isinstance(e, ast.Subscript) and (dotted(e.value) or "") == "np.r_":
            return self.seq(ast.Tuple(elts=list(e.slice.elts) if isinstance(e.slice, ast.Tuple) else [e.slice], ctx=ast.Load()))
        if isinstance(e, ast.Call):
            d = dotted(e.func) or ""
            if d in ("list", "tuple", "np.array", "np.asarray", "np.asanyarray", "np.copy") and e.args:
                return self.seq(e.args[0])
            if d in ("np.concatenate", "np.hstack") and e.args and isinstance(e.args[0], (ast.Tuple, ast.List)):
                out = []
                for el in e.args[0].elts:
                    q = self.seq(el)
                    if q is None:
                        return None
                    out += q
                return out
            if d == "np.insert" and len(e.args) >= 3 and isinstance(e.args[1], ast.Constant) and e.args[1].value == 0:
                a_, v_ = self.seq(e.args[0]), self.seq(e.args[2])
                return None if a_ is None or v_ is None else v_ + a_
        return None

    def run(self, body) -> None:
        for st in body:
            if isinstance(st, ast.Assign) and len(st.targets) == 1:
                t, v = st.targets[0], st.value
                if isinstance(t, ast.Name):
                    self.env[t.id] = self.seq(v)
                elif isinstance(t, (ast.Tuple, ast.List)) and isinstance(v, (ast.Tuple, ast.List)) and len(t.elts) == len(v.elts):
                    vals = [self.seq(x) for x in v.elts]
                    for tt, vv in zip(t.elts, vals):
                        if isinstance(tt, ast.Name):
                            self.env[tt.id] = vv
                else:
                    for x in ast.walk(t):
                        if isinstance(x, ast.Name):
                            self.env[x.id] = None
            elif isinstance(st, ast.AnnAssign) and isinstance(st.target, ast.Name) and st.value is not None:
                self.env[st.target.id] = self.seq(st.value)
            elif isinstance(st, ast.Expr) and isinstance(st.value, ast.Call) and isinstance(st.value.func, ast.Attribute) and isinstance(st.value.func.value, ast.Name):
                nm, meth, args = st.value.func.value.id, st.value.func.attr, st.value.args
                cur = self.env.get(nm)
                if cur is None:
                    continue
                if meth == "append" and len(args) == 1 and self.seq(args[0]) == ["lit"]:
                    self.env[nm] = cur + ["lit"]
                elif meth == "insert" and len(args) == 2 and isinstance(args[0], ast.Constant) and args[0].value == 0 and self.seq(args[1]) == ["lit"]:
                    self.env[nm] = ["lit"] + cur
                elif meth in ("append", "insert", "extend", "pop", "remove", "clear", "sort", "reverse"):
                    self.env[nm] = None
            elif isinstance(st, (ast.If, ast.For, ast.While, ast.Try, ast.With)):
                # not straight-line: whatever is assigned inside is unknown afterwards (returns inside are read by the caller of run)
                for x in ast.walk(st):
                    if isinstance(x, ast.Name) and isinstance(x.ctx, ast.Store):
                        self.env[x.id] = None
                    elif isinstance(x, ast.Call) and isinstance(x.func, ast.Attribute) and isinstance(x.func.value, ast.Name) and x.func.value.id in self.env:
                        self.env[x.func.value.id] = None       # a list that a method is called on inside the branch
                    elif isinstance(x, (ast.Subscript, ast.Attribute)) and isinstance(x.ctx, ast.Store) and isinstance(x.value, ast.Name) and x.value.id in self.env:
                        self.env[x.value.id] = None


def endpoint_padding_agrees(chk: Check, rule: str, cls_name: str = "grid:Grid", getters=("getCompactCoordinates", "getCoordinates", "getCompactificationDerivatives")) -> None:
    """With endpoints=True the grid's getters return the stored interior arrays padded with the end points.  Coordinates, compact coordinates
    and Jacobians are used together element by element, so for every direction the three getters must pad the same ends (z, pz: both ends;
    pp: the upper end only -- rho_par = -1 is an ordinary grid point).  Padding the other end keeps the length and shifts every entry by one.
    Decided when the padding is written as a sequence construction (displays, concatenation, insert / append); other spellings (an
    array filled slot by slot) are reported as not decided, without an alarm."""
    from ..flow import specialise
    S = chk.src
    ci = S.cls(cls_name)
    pats = {}
    for gname in getters:
        fi = ci.methods.get(gname)
        if fi is None:
            raise AnchorMissing(f"{cls_name}.{gname} not found")
        chk.touch(fi.name)
        fn = specialise(fi.node, "endpoints", True)
        ev = _PadEval()
        row = None
        # straight-line prefix up to the first `return a, b, c`
        for k, st in enumerate(fn.body):
            if isinstance(st, ast.Return) and isinstance(st.value, ast.Tuple) and len(st.value.elts) == 3:
                row = [ev.seq(el) for el in st.value.elts]
                break
            ev.run([st])
        if row is None:
            rets = [r for r in sorted((r for r in own_nodes(fn) if isinstance(r, ast.Return)), key=lambda r: r.lineno) if isinstance(r.value, ast.Tuple) and len(r.value.elts) == 3]
            row = [ev.seq(el) for el in rets[0].value.elts] if rets else [None] * 3
        pats[gname] = [None if p is None or p.count("arr") != 1 else (p.index("arr"), len(p) - p.index("arr") - 1) for p in row]
    undecided = [g_ for g_ in getters if any(v is None for v in pats[g_])]
    if undecided:
        chk.note(f"{rule}: end-point padding of {undecided} is not written as a sequence construction; agreement of the padded ends not decided")
        return
    for k, direction in enumerate(("z", "pz", "pp")):
        col = {gname: pats[gname][k] for gname in getters}
        ok = len(set(col.values())) == 1
        chk.ob(rule, ci.methods[getters[-1]].where(), f"endpoints=True: direction {direction} is padded at the same ends (front, back) by all three getters", ok,
               str(col), key=f"padding|{direction}")
    chk.floor(rule, 3)


# ------------------------------------------------------------------------------------------------ zero-expected lints with a positive control
def _escaping_defaults(fn: ast.AST) -> list:
    """parameters of fn whose default is an object created once at definition time (a call, a list / dict / set display) and that escape the
    call: stored into an attribute, mutated in place or returned -- every later call (and every other object) then shares that one object"""
    a = fn.args
    pos = a.posonlyargs + a.args
    pairs = list(zip(pos[len(pos) - len(a.defaults):], a.defaults)) + [(p, d) for p, d in zip(a.kwonlyargs, a.kw_defaults) if d is not None]
    out = []
    for p, d in pairs:
        if not isinstance(d, (ast.Call, ast.List, ast.Dict, ast.Set, ast.ListComp, ast.DictComp, ast.SetComp)):
            continue
        if isinstance(d, ast.Call) and (dotted(d.func) or "") in ("tuple", "frozenset", "float", "int", "str", "bool", "complex", "bytes"):
            continue
        nm = p.arg
        why = None
        for x in ast.walk(fn):
            if isinstance(x, ast.Assign) and isinstance(x.value, ast.Name) and x.value.id == nm and any(isinstance(t, (ast.Attribute, ast.Subscript)) for t in x.targets):
                why = f"stored by `{n(x)[:50]}`"
            elif isinstance(x, ast.AnnAssign) and isinstance(x.value, ast.Name) and x.value.id == nm and isinstance(x.target, (ast.Attribute, ast.Subscript)):
                why = f"stored by `{n(x)[:50]}`"
            elif isinstance(x, ast.IfExp) and isinstance(x.body, ast.Name) and x.body.id == nm:
                why = why or f"selected by `{n(x)[:50]}`"
            elif isinstance(x, (ast.Assign, ast.AugAssign)) and any(isinstance(t, ast.Subscript) and isinstance(t.value, ast.Name) and t.value.id == nm
                                                                     for t in (x.targets if isinstance(x, ast.Assign) else [x.target])):
                why = f"mutated by `{n(x)[:50]}`"
            elif isinstance(x, ast.Call) and isinstance(x.func, ast.Attribute) and isinstance(x.func.value, ast.Name) and x.func.value.id == nm \
                    and x.func.attr in ("append", "extend", "update", "add", "insert", "pop", "clear", "setdefault", "remove", "sort"):
                why = f"mutated by `{n(x)[:50]}`"
            elif isinstance(x, ast.Return) and isinstance(x.value, ast.Name) and x.value.id == nm:
                why = "returned"
            if why and not why.startswith("selected"):
                break
        if why:
            out.append((nm, n(d)[:40], why))
    return out


def _ineffective_nan_tests(tree: ast.AST) -> list:
    """comparisons that can never detect a computed NaN: `x == np.nan`, `np.nan in xs`, `x is np.nan` (NaN is unequal to itself; a computed NaN
    is not the np.nan object)"""
    out = []
    for x in ast.walk(tree):
        if isinstance(x, ast.Compare):
            for o in [x.left] + list(x.comparators):
                d = dotted(o) or ""
                is_nan = d in ("np.nan", "numpy.nan", "math.nan", "np.NaN", "np.NAN", "nan") or \
                    (isinstance(o, ast.Call) and (dotted(o.func) or "") == "float" and o.args and isinstance(o.args[0], ast.Constant) and str(o.args[0].value).lower() == "nan")
                if is_nan:
                    out.append(x)
                    break
    return out


def defensive_idioms_effective(chk: Check, rule: str, modules: tuple, nan_floor: int = 0) -> None:
    """Two zero-expected lints over the listed modules, each with a positive control evaluated on every run:
    (a) no default argument object escapes the call (stored / mutated / returned), so objects built without that argument do not share state;
    (b) NaN guards use np.isnan: a comparison with np.nan (==, in, is) is always false for a computed NaN and silently disables the guard."""
    ctl = ast.parse("def f(self, a, integrals=Integrals(), cache={}):\n    self.integrals = integrals\n    cache['k'] = a\n    if np.nan in a or a == np.nan:\n        return 0\n")
    if len(_escaping_defaults(ctl.body[0])) != 2 or len(_ineffective_nan_tests(ctl)) != 2:
        raise AnchorMissing(f"rule {rule}: the positive control of the lint no longer matches (detector broken)")
    S = chk.src
    for mn in modules:
        m = S.modules[mn]
        nfun, bad = 0, []
        for q, f in m.funcs.items():
            if not isinstance(f.node, (ast.FunctionDef, ast.AsyncFunctionDef)):
                continue
            nfun += 1
            for nm, d, why in _escaping_defaults(f.node):
                bad.append(f"{q}({nm}={d}) is {why}")
        chk.touch(f"{mn}:*")
        chk.ob(rule, f"src/WallGo/{mn.replace('.', '/')}.py", f"no default argument object escapes the call in {mn} ({nfun} functions scanned): objects built without the "
               "argument do not share one instance", not bad, "; ".join(bad)[:300], key=f"defaults|{mn}")
        nans = _ineffective_nan_tests(m.tree)
        isnan = sum(1 for x in ast.walk(m.tree) if isinstance(x, ast.Call) and (dotted(x.func) or "").endswith("isnan"))
        chk.ob(rule, f"src/WallGo/{mn.replace('.', '/')}.py", f"NaN guards in {mn} use np.isnan ({isnan} uses); no comparison with np.nan, which is always false for a computed NaN",
               not nans and isnan >= nan_floor, "; ".join(f"line {x.lineno}: `{n(x)[:50]}`" for x in nans)[:300] or (f"only {isnan} np.isnan guards left" if isnan < nan_floor else ""),
               key=f"nan|{mn}")
    chk.floor(rule, 2 * len(modules))


# ------------------------------------------------------------------------------------------------ range masks are a snapshot
def range_masks_are_snapshot(chk: Check, rule: str, method: str = "interpolatableFunction:InterpolatableFunction._evaluateOutOfBounds",
                             attrs=("_rangeMin", "_rangeMax")) -> None:
    """The below-range and above-range masks partition the input against ONE state of the table.  A direct evaluation may trigger an adaptive
    extension of the table in the middle of the call (it moves _rangeMin / _rangeMax); a mask computed after such a call is taken against the new
    range, so inputs between the old and the new end belong to neither mask and their result slots stay uninitialised.  Every mask must be
    computed before the first call that may move the range."""
    S = chk.src
    fi = S.func(method)
    chk.touch(fi.name)
    ci = S.cls(method.rsplit(".", 1)[0])
    # methods that may (transitively) re-assign the range attributes
    may: set = set()
    changed = True
    while changed:
        changed = False
        for mname, mf in ci.methods.items():
            if mname in may or mname == "__init__":
                continue
            hit = False
            for x in ast.walk(mf.node):
                if isinstance(x, ast.Attribute) and isinstance(x.ctx, ast.Store) and x.attr in attrs and isinstance(x.value, ast.Name) and x.value.id == "self":
                    hit = True
                elif isinstance(x, ast.Call) and isinstance(x.func, ast.Attribute) and isinstance(x.func.value, ast.Name) and x.func.value.id == "self" and x.func.attr in may:
                    hit = True
            if hit:
                may.add(mname)
                changed = True
    if not may:
        raise AnchorMissing(f"{method}: no method re-assigns {attrs}")
    g = CFG(fi.node)

    def is_writer(q) -> bool:
        if not isinstance(q, ast.AST) or isinstance(q, (ast.FunctionDef, ast.AsyncFunctionDef, ast.ClassDef, ast.ExceptHandler)):
            return False
        return any(isinstance(c, ast.Call) and isinstance(c.func, ast.Attribute) and isinstance(c.func.value, ast.Name) and c.func.value.id == "self" and c.func.attr in may
                   for c in ast.walk(q))

    writers = [q for q in g.nodes if is_writer(q)]
    masks = []
    for q in g.nodes:
        if isinstance(q, (ast.Assign, ast.AnnAssign)) and q.value is not None:
            for c in ast.walk(q.value):
                if isinstance(c, ast.Compare) and any(isinstance(o, ast.Attribute) and o.attr in attrs and isinstance(o.value, ast.Name) and o.value.id == "self"
                                                      for o in [c.left] + list(c.comparators)):
                    masks.append(q)
                    break
    if len(masks) < 2 or not writers:
        raise AnchorMissing(f"{method}: the two range masks / a call that may move the range not found ({len(masks)} masks, {len(writers)} calls)")
    for k, mk in enumerate(sorted(masks, key=lambda q: q.lineno)):
        late = [w for w in writers if w is not mk and g.reaches([w], mk)]
        chk.ob(rule, fi.where(mk), f"the range mask `{n(mk)[:50]}` is computed before any call that may move the table range "
               f"({', '.join(sorted(may))[:80]})", not late, "; ".join(f"line {w.lineno}: `{n(w)[:50]}` can run first" for w in late)[:300], key=f"mask-snapshot|{k}")
    chk.floor(rule, 2)


# ------------------------------------------------------------------------------------------------ the imaginary-part dispatch is entered for negative m^2 only
def imaginary_dispatch_strict(chk: Check, rule: str, cls_name: str = "PotentialTools.effectivePotentialNoResum:EffectivePotentialNoResum",
                              methods=("potentialOneLoop", "potentialOneLoopThermal")) -> None:
    """The one-loop pieces are real for m^2 >= 0; the handling selected by `imaginaryOption` (raise / abs / principal part) is entered only when some
    squared mass is strictly negative.  `<= 0` would send an exactly massless spectrum (photon, symmetric phase) through it: ERROR raises on a real
    result and ABS_RESULT flips the sign of the (negative) thermal pressure.  Both sibling methods must use the same strict test."""
    S = chk.src
    ci = S.cls(cls_name)
    shapes = {}
    for mname in methods:
        fi = ci.methods.get(mname)
        if fi is None:
            raise AnchorMissing(f"{cls_name}.{mname} not found")
        chk.touch(fi.name)
        cx = Ctx(S, fi)
        g = CFG(fi.node)
        readers = [q for q in g.nodes if isinstance(q, ast.AST) and not isinstance(q, (ast.FunctionDef, ast.ClassDef))
                   and any(isinstance(x, ast.Attribute) and x.attr == "imaginaryOption" for x in ast.walk(q))]
        if not readers:
            raise AnchorMissing(f"{cls_name}.{mname}: no use of self.imaginaryOption")
        # tests on the sign of the masses that every use of imaginaryOption... or at least one dominates: take all tests comparing with 0 through np.any
        cmps = []
        for t in g.nodes:
            if g.kind.get(t) != "test":
                continue
            r = cx.resolve(t)
            if not any(isinstance(c, ast.Call) and (dotted(c.func) or "") in ("np.any", "any") for c in ast.walk(r)):
                continue
            tb = any(g.reaches(g.branch(t, True), q, avoid=lambda x, t=t: x is t) for q in readers)
            fb = any(g.reaches(g.branch(t, False), q, avoid=lambda x, t=t: x is t) for q in readers)
            if tb == fb:
                continue        # the test does not decide whether the dispatch is reached
            for c in ast.walk(r):
                if isinstance(c, ast.Compare) and len(c.ops) == 1 and (eqx(c.comparators[0], "0") or eqx(c.left, "0")):
                    cmps.append(c)
        strict = [c for c in cmps if (isinstance(c.ops[0], ast.Lt) and eqx(c.comparators[0], "0")) or (isinstance(c.ops[0], ast.Gt) and eqx(c.left, "0"))]
        shapes[mname] = (len(cmps), len(strict))
        chk.ob(rule, fi.where(), f"{mname}: the imaginary-part handling is entered only when a squared mass is strictly negative (`m^2 < 0`; a massless "
               "particle has a real one-loop term)", len(cmps) >= 2 and len(strict) == len(cmps),
               "; ".join(f"`{n(c)}`" for c in cmps if c not in strict), key=f"strict-negative|{mname}")
    chk.ob(rule, f"src/WallGo/PotentialTools/effectivePotentialNoResum.py", "the zero-temperature and the thermal piece test the masses the same way", len(set(shapes.values())) == 1,
           str(shapes), key="strict-negative|siblings")
    chk.floor(rule, 3)


# ------------------------------------------------------------------------------------------------ a label is stored together with the data it describes
def label_stored_with_data(chk: Check, rule: str, cls_name: str, label: str, data: tuple, allowed: tuple = ("__init__",)) -> None:
    """`self.<label>` says in which representation `self.<data>` is held (the basis of polynomial coefficients).  A method that re-assigns the label
    must be one that re-assigns the data too (it transforms them), except the constructor.  Writing the label alone -- e.g. to
    "restore what the caller saw" after an internal change of basis -- leaves an object whose label lies about its contents: the first use is
    still right, every later evaluation / integration / change of basis is wrong."""
    S = chk.src
    ci = S.cls(cls_name)
    cnt = 0
    for mname, mf in sorted(ci.methods.items()):
        if not isinstance(mf.node, (ast.FunctionDef, ast.AsyncFunctionDef)):
            continue
        g = None
        stores = [x for x in own_nodes(mf.node) if isinstance(x, (ast.Assign, ast.AugAssign, ast.AnnAssign))
                  and any(isinstance(y, ast.Attribute) and isinstance(y.ctx, ast.Store) and y.attr == label and isinstance(y.value, ast.Name) and y.value.id == "self"
                          for t in (x.targets if isinstance(x, ast.Assign) else [x.target]) for y in ast.walk(t))]
        if not stores:
            continue
        chk.touch(mf.name)
        cnt += 1
        if mname in allowed:
            chk.ob(rule, mf.where(), f"{cls_name.split(':')[-1]}.{mname} sets `{label}` when it sets up the object", True, key=f"label|{mname}")
            continue
        g = CFG(mf.node)

        def data_store(q) -> bool:
            return isinstance(q, (ast.Assign, ast.AugAssign, ast.AnnAssign)) and any(
                isinstance(y, ast.Attribute) and isinstance(y.ctx, ast.Store) and y.attr in data and isinstance(y.value, ast.Name) and y.value.id == "self"
                for t in (q.targets if isinstance(q, ast.Assign) else [q.target]) for y in ast.walk(t))

        # the method that re-labels is one that transforms the data itself (the transform may be conditional: nothing to do when the label is unchanged)
        transforms = any(data_store(q) for q in g.nodes if isinstance(q, ast.AST))
        bad = [] if transforms else list(stores)
        chk.ob(rule, mf.where(), f"{cls_name.split(':')[-1]}.{mname} re-assigns `{label}` only together with the data it describes ({', '.join(data)})", not bad,
               "; ".join(f"line {st.lineno}: `{n(st)[:50]}` in a method that never stores the data" for st in bad), key=f"label|{mname}")
    if cnt < 2:
        raise AnchorMissing(f"{cls_name}: stores of self.{label} not found")
    chk.floor(rule, 2)
