"""Rules shared by several properties (each caller re-reports them under its own rule id)."""
from __future__ import annotations

import ast
from typing import Optional

from ..core import AnchorMissing, Check, calls_in, dotted, kwarg, own_nodes
from ..flow import CFG
from ..hydro import n
from ..nf import Ctx, eqx, nf


def _fname(e) -> Optional[str]:
    return e.id if isinstance(e, ast.Name) else None


def _value_of(g: CFG, at, e: ast.AST, fname: str):
    """argument x when e denotes f(x): directly, or through a local all of whose reaching definitions are f(x') with one spelling x'"""
    if isinstance(e, ast.Call) and _fname(e.func) == fname and len(e.args) == 1 and not e.keywords:
        return e.args[0]
    if isinstance(e, ast.Call) and isinstance(e.func, ast.Attribute) and e.func.attr == "sign" and len(e.args) == 1:
        return _value_of(g, at, e.args[0], fname)
    if isinstance(e, ast.Name):
        defs = g.reaching_defs(at, e.id)
        args = []
        for d in defs:
            if d is CFG.ENTRY or not isinstance(d, (ast.Assign, ast.AnnAssign)) or d.value is None:
                return None
            v = d.value
            if not (isinstance(v, ast.Call) and _fname(v.func) == fname and len(v.args) == 1 and not v.keywords):
                return None
            args.append(v.args[0])
        if args and len({nf(a) for a in args}) == 1:
            return args[0]
    return None


def _sign_test(t: ast.AST):
    """(A, B, polarity on which the signs differ or one value vanishes) for `A*B <= 0`, `A*B < 0`, `A*B > 0`, `A*B >= 0`, sign(A) != sign(B)"""
    flip = False
    while isinstance(t, ast.UnaryOp) and isinstance(t.op, ast.Not):
        t, flip = t.operand, not flip
    if not (isinstance(t, ast.Compare) and len(t.ops) == 1):
        return None
    l, r, op = t.left, t.comparators[0], t.ops[0]
    if isinstance(op, (ast.NotEq, ast.Eq)):
        def sg(x):
            return x.args[0] if isinstance(x, ast.Call) and isinstance(x.func, ast.Attribute) and x.func.attr == "sign" and len(x.args) == 1 else None
        a, b = sg(l), sg(r)
        if a is not None and b is not None:
            return a, b, isinstance(op, ast.NotEq) != flip
        return None
    zero_right = isinstance(r, ast.Constant) and r.value == 0
    zero_left = isinstance(l, ast.Constant) and l.value == 0
    if not (zero_right or zero_left):
        return None
    prod = l if zero_right else r
    if not (isinstance(prod, ast.BinOp) and isinstance(prod.op, ast.Mult)):
        return None
    less = isinstance(op, (ast.Lt, ast.LtE)) if zero_right else isinstance(op, (ast.Gt, ast.GtE))
    return prod.left, prod.right, less != flip


def guarded_brackets(chk: Check, rule: str, functions: list[str], floor: int = 1) -> None:
    """A bracketed root search that is entered only after a sign-change test `f(a) * f(b) <= 0` must bracket between those very points:
    testing one pair of end points and bracketing another lets the search start without a sign change (scipy raises, the caller's fallback
    silently replaces the exact solution) or skips a search whose bracket does contain the root."""
    S = chk.src
    count = 0
    for name in functions:
        fi = S.func(name)
        chk.touch(fi.name)
        scopes = [fi] + [f for f in S.modules[fi.module].funcs.values() if f.parent is fi]
        for sc in scopes:
            g = CFG(sc.node)
            cx = Ctx(S, sc)
            for c in own_nodes(sc.node):
                if not (isinstance(c, ast.Call) and (dotted(c.func) or "").split(".")[-1] in ("root_scalar", "brentq")):
                    continue
                f0 = kwarg(c, "f", 0)
                fname = _fname(f0)
                if fname is None:
                    continue
                if (dotted(c.func) or "").endswith("brentq"):
                    a, b = kwarg(c, "a", 1), kwarg(c, "b", 2)
                else:
                    br = kwarg(c, "bracket")
                    br = cx.resolve(br, maxdepth=1) if isinstance(br, ast.Name) else br
                    a, b = (br.elts if isinstance(br, (ast.List, ast.Tuple)) and len(br.elts) == 2 else (None, None))
                if a is None or b is None:
                    continue
                node = g.node_of(c)
                if node is None:
                    continue
                for t in g.nodes:
                    if g.kind.get(t) != "test" or not g.must_pass(CFG.ENTRY, node, lambda q, t=t: q is t):
                        continue
                    st = _sign_test(t)
                    if st is None:
                        continue
                    A, B, pol = st
                    # the search is entered on the sign-change branch only
                    if g.reaches(g.branch(t, not pol), node, avoid=lambda q, t=t: q is t):
                        continue
                    xa, xb = _value_of(g, t, A, fname), _value_of(g, t, B, fname)
                    if xa is None or xb is None:
                        continue
                    # no re-definition of the tested points between the test and the search is checked by spelling + reaching definitions
                    count += 1
                    ok = {nf(xa), nf(xb)} == {nf(a), nf(b)}
                    chk.ob(rule, sc.where(c), f"{sc.qual}: the root of `{fname}` is bracketed between the two points whose sign change was tested "
                           f"(`{n(t)[:70]}`)", ok, f"tested f({n(xa)}), f({n(xb)}); bracket [{n(a)}, {n(b)}]", key=f"guarded-bracket|{sc.qual}|{fname}")
    if count < floor:
        raise AnchorMissing(f"rule {rule}: only {count} sign-tested bracketed root searches found (floor {floor})")


def own_jouguet_velocity(chk: Check, rule: str) -> None:
    """Every decision of the full hydrodynamics class that depends on which side of the Jouguet velocity a wall is uses the model's own `self.vJ`
    (the value `findMatching` classifies with).  The template model's vJ differs from it whenever the sound speeds depend on temperature; it may
    size the velocity handed *to the template's own routines*, but a branch decided with it disagrees with the matching for walls in between."""
    S = chk.src
    ci = S.cls("hydrodynamics:Hydrodynamics")
    own = 0
    for mname, fi in ci.methods.items():
        scopes = [fi] + [f for f in S.modules[fi.module].funcs.values() if f.parent is fi or (f.parent is not None and f.parent.parent is fi)]
        for sc in scopes:
            g = CFG(sc.node)
            cx = Ctx(S, sc)
            for t0 in g.nodes:
                if g.kind.get(t0) != "test":
                    continue
                t = cx.resolve(t0)          # look through temporaries (`top = self.vJ - eps; if f(top) < ...`)
                for x in ast.walk(t):
                    if not hasattr(x, "lineno"):
                        x.lineno = getattr(t0, "lineno", 0)
                cmps = [c for c in ast.walk(t) if isinstance(c, ast.Compare)]
                foreign = [c for c in cmps if any(isinstance(x, ast.Attribute) and x.attr == "vJ" and not (isinstance(x.value, ast.Name) and x.value.id == "self")
                                                 for y in [c.left] + list(c.comparators) for x in ast.walk(y))]
                mine = [c for c in cmps if any(eqx(x, "self.vJ") for y in [c.left] + list(c.comparators) for x in ast.walk(y))]
                own += len(mine)
                for c in foreign:
                    chk.ob(rule, sc.where(c), f"{sc.qual}: the branch `{n(c)[:80]}` is decided with the model's own Jouguet velocity self.vJ", False,
                           "compares with another model's vJ", key=f"own-vJ|{sc.qual}|{n(c)[:60]}")
    chk.ob(rule, "src/WallGo/hydrodynamics.py", f"all {own} branch decisions of Hydrodynamics that involve a Jouguet velocity use self.vJ", own >= 3,
           f"{own} comparisons with self.vJ", key="own-vJ|all")
