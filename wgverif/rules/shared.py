"""Rules shared by several properties (each caller re-reports them under its own rule id)."""
from __future__ import annotations

import ast
from typing import Optional

from ..core import AnchorMissing, Check, calls_in, dotted, kwarg, own_nodes
from ..flow import CFG
from ..hydro import n
from ..nf import Ctx, eqx, nf


def _fname(e) -> Optional[str]:
    return e.id if isinstance(e, ast.Name) else None


def _value_of(g: CFG, at, e: ast.AST, fname: str):
    """argument x when e denotes f(x): directly, or through a local all of whose reaching definitions are f(x') with one spelling x'"""
    if isinstance(e, ast.Call) and _fname(e.func) == fname and len(e.args) == 1 and not e.keywords:
        return e.args[0]
    if isinstance(e, ast.Call) and isinstance(e.func, ast.Attribute) and e.func.attr == "sign" and len(e.args) == 1:
        return _value_of(g, at, e.args[0], fname)
    if isinstance(e, ast.Name):
        defs = g.reaching_defs(at, e.id)
        args = []
        for d in defs:
            if d is CFG.ENTRY or not isinstance(d, (ast.Assign, ast.AnnAssign)) or d.value is None:
                return None
            v = d.value
            if not (isinstance(v, ast.Call) and _fname(v.func) == fname and len(v.args) == 1 and not v.keywords):
                return None
            args.append(v.args[0])
        if args and len({nf(a) for a in args}) == 1:
            return args[0]
    return None


def _sign_test(t: ast.AST):
    """(A, B, polarity on which the signs differ or one value vanishes) for `A*B <= 0`, `A*B < 0`, `A*B > 0`, `A*B >= 0`, sign(A) != sign(B)"""
    flip = False
    while isinstance(t, ast.UnaryOp) and isinstance(t.op, ast.Not):
        t, flip = t.operand, not flip
    if not (isinstance(t, ast.Compare) and len(t.ops) == 1):
        return None
    l, r, op = t.left, t.comparators[0], t.ops[0]
    if isinstance(op, (ast.NotEq, ast.Eq)):
        def sg(x):
            return x.args[0] if isinstance(x, ast.Call) and isinstance(x.func, ast.Attribute) and x.func.attr == "sign" and len(x.args) == 1 else None
        a, b = sg(l), sg(r)
        if a is not None and b is not None:
            return a, b, isinstance(op, ast.NotEq) != flip
        return None
    zero_right = isinstance(r, ast.Constant) and r.value == 0
    zero_left = isinstance(l, ast.Constant) and l.value == 0
    if not (zero_right or zero_left):
        return None
    prod = l if zero_right else r
    if not (isinstance(prod, ast.BinOp) and isinstance(prod.op, ast.Mult)):
        return None
    less = isinstance(op, (ast.Lt, ast.LtE)) if zero_right else isinstance(op, (ast.Gt, ast.GtE))
    return prod.left, prod.right, less != flip


def guarded_brackets(chk: Check, rule: str, functions: list[str], floor: int = 1) -> None:
    """A bracketed root search that is entered only after a sign-change test `f(a) * f(b) <= 0` must bracket between those very points:
    testing one pair of end points and bracketing another lets the search start without a sign change (scipy raises, the caller's fallback
    silently replaces the exact solution) or skips a search whose bracket does contain the root."""
    S = chk.src
    count = 0
    for name in functions:
        fi = S.func(name)
        chk.touch(fi.name)
        scopes = [fi] + [f for f in S.modules[fi.module].funcs.values() if f.parent is fi]
        for sc in scopes:
            g = CFG(sc.node)
            cx = Ctx(S, sc)
            for c in own_nodes(sc.node):
                if not (isinstance(c, ast.Call) and (dotted(c.func) or "").split(".")[-1] in ("root_scalar", "brentq")):
                    continue
                f0 = kwarg(c, "f", 0)
                fname = _fname(f0)
                if fname is None:
                    continue
                if (dotted(c.func) or "").endswith("brentq"):
                    a, b = kwarg(c, "a", 1), kwarg(c, "b", 2)
                else:
                    br = kwarg(c, "bracket")
                    br = cx.resolve(br, maxdepth=1) if isinstance(br, ast.Name) else br
                    a, b = (br.elts if isinstance(br, (ast.List, ast.Tuple)) and len(br.elts) == 2 else (None, None))
                if a is None or b is None:
                    continue
                node = g.node_of(c)
                if node is None:
                    continue
                for t in g.nodes:
                    if g.kind.get(t) != "test" or not g.must_pass(CFG.ENTRY, node, lambda q, t=t: q is t):
                        continue
                    st = _sign_test(t)
                    if st is None:
                        continue
                    A, B, pol = st
                    # the search is entered on the sign-change branch only
                    if g.reaches(g.branch(t, not pol), node, avoid=lambda q, t=t: q is t):
                        continue
                    xa, xb = _value_of(g, t, A, fname), _value_of(g, t, B, fname)
                    if xa is None or xb is None:
                        continue
                    # no re-definition of the tested points between the test and the search is checked by spelling + reaching definitions
                    count += 1
                    ok = {nf(xa), nf(xb)} == {nf(a), nf(b)}
                    chk.ob(rule, sc.where(c), f"{sc.qual}: the root of `{fname}` is bracketed between the two points whose sign change was tested "
                           f"(`{n(t)[:70]}`)", ok, f"tested f({n(xa)}), f({n(xb)}); bracket [{n(a)}, {n(b)}]", key=f"guarded-bracket|{sc.qual}|{fname}")
    if count < floor:
        raise AnchorMissing(f"rule {rule}: only {count} sign-tested bracketed root searches found (floor {floor})")


def own_jouguet_velocity(chk: Check, rule: str) -> None:
    """Every decision of the full hydrodynamics class that depends on which side of the Jouguet velocity a wall is uses the model's own `self.vJ`
    (the value `findMatching` classifies with).  The template model's vJ differs from it whenever the sound speeds depend on temperature; it may
    size the velocity handed *to the template's own routines*, but a branch decided with it disagrees with the matching for walls in between."""
    S = chk.src
    ci = S.cls("hydrodynamics:Hydrodynamics")
    own = 0
    seen = set()
    for mname, fi in ci.methods.items():
        cx = Ctx(S, fi)
        for c0 in (y for y in ast.walk(fi.node) if isinstance(y, ast.Compare)):      # tests of if / while / conditional expressions / asserts alike
            if id(c0) in seen:
                continue
            seen.add(id(c0))
            c = cx.resolve(c0)          # look through temporaries (`top = self.vJ - eps; if f(top) < ...`)
            sides = [c.left] + list(c.comparators)
            foreign = any(isinstance(x, ast.Attribute) and x.attr == "vJ" and not (isinstance(x.value, ast.Name) and x.value.id == "self")
                          for y in sides for x in ast.walk(y))
            mine = any(eqx(x, "self.vJ") for y in sides for x in ast.walk(y))
            own += 1 if mine else 0
            if foreign:
                chk.ob(rule, fi.where(c0), f"{fi.qual}: the branch `{n(c0)[:80]}` is decided with the model's own Jouguet velocity self.vJ", False,
                       "compares with another model's vJ", key=f"own-vJ|{fi.qual}|{n(c0)[:60]}")
    chk.ob(rule, "src/WallGo/hydrodynamics.py", f"all {own} branch decisions of Hydrodynamics that involve a Jouguet velocity use self.vJ", own >= 2,
           f"{own} comparisons with self.vJ", key="own-vJ|all")


def flag_fresh_before_read(chk: Check, rule: str, cls_name: str = "hydrodynamics:Hydrodynamics", flag: str = "success") -> None:
    """`self.<flag>` records whether the LAST solve converged.  A method that branches on it must have performed (or called a method that
    performs) a solve that writes it, on every path to the read: otherwise the decision is taken on the outcome of an earlier, unrelated call
    (a fresh object starts with the flag down, a previous unconverged matching leaves it down)."""
    S = chk.src
    ci = S.cls(cls_name)
    # methods that write the flag on every path to their normal exit
    always: set[str] = set()
    sometimes: set[str] = set()
    changed = True
    cfgs = {m: CFG(f.node) for m, f in ci.methods.items()}

    def writes(node) -> bool:
        if isinstance(node, (ast.Assign, ast.AugAssign, ast.AnnAssign)):
            for t in (node.targets if isinstance(node, ast.Assign) else [node.target]):
                for x in ast.walk(t):
                    if isinstance(x, ast.Attribute) and x.attr == flag and isinstance(x.value, ast.Name) and x.value.id == "self":
                        return True
        for c in (y for y in ast.walk(node) if isinstance(y, ast.Call)) if isinstance(node, ast.AST) else []:
            if isinstance(c.func, ast.Attribute) and isinstance(c.func.value, ast.Name) and c.func.value.id == "self" and c.func.attr in always:
                return True
        return False

    while changed:
        changed = False
        for m, f in ci.methods.items():
            if m in always or m == "__init__":
                continue
            g = cfgs[m]
            if any(writes(q) for q in g.nodes if g.kind.get(q) not in ("def", "handler")):
                sometimes.add(m)
                if g.must_pass(CFG.ENTRY, CFG.EXIT, lambda q: g.kind.get(q) not in ("def", "handler") and writes(q)):
                    always.add(m)
                    changed = True
    nreads = 0
    for m, f in ci.methods.items():
        if m == "__init__":
            continue
        g = cfgs[m]
        for q in g.nodes:
            if g.kind.get(q) in ("def", "handler"):
                continue
            reads = [x for x in _own_walk(q) if isinstance(x, ast.Attribute) and x.attr == flag and isinstance(x.ctx, ast.Load)
                     and isinstance(x.value, ast.Name) and x.value.id == "self"]
            if not reads:
                continue
            nreads += 1
            ok = g.must_pass(CFG.ENTRY, q, lambda z: z is not q and g.kind.get(z) not in ("def", "handler") and writes(z))
            chk.touch(f.name)
            chk.ob(rule, f.where(q), f"{f.qual}: `self.{flag}` is read only after a solve of this very call has written it (every path to the read "
                   f"passes an assignment of the flag or a call of {sorted(always) or '[]'})", ok, f"`{n(q)[:80]}`", key=f"fresh-flag|{f.qual}")
    if nreads < 1:
        raise AnchorMissing(f"{cls_name}: no read of self.{flag} found")


def _own_walk(node):
    """nodes of a CFG node without descending into nested function definitions"""
    stack = [node]
    while stack:
        x = stack.pop()
        yield x
        for c in ast.iter_child_nodes(x):
            if not isinstance(c, (ast.FunctionDef, ast.AsyncFunctionDef, ast.ClassDef, ast.Lambda)):
                stack.append(c)


PLASMA_VELOCITY_NAMES = {"velocityMid", "vp", "vm", "vpcent", "velocityProfile", "velocityAtCenter", "vPlasma", "velocity", "velocityMidPoint"}


def jouguet_compared_with_wall_velocity(chk: Check, rule: str) -> None:
    """vJ is a threshold for the WALL velocity.  In the wall solver no comparison with the hydrodynamics' vJ may have a plasma velocity on the other
    side (the mid-wall fluid velocity (v+ + v-)/2, v+, v-, the velocity profile): walls just above vJ have plasma velocities below it."""
    S = chk.src
    ci = S.cls("equationOfMotion:EOM")
    count = 0
    for m, f in ci.methods.items():
        scopes = [f] + [x for x in S.modules[f.module].funcs.values() if x.parent is f]
        for sc in scopes:
            cx = Ctx(S, sc)
            for c in (y for y in ast.walk(sc.node) if isinstance(y, ast.Compare)):
                sides = [c.left] + list(c.comparators)
                if not any(isinstance(x, ast.Attribute) and x.attr == "vJ" for s_ in sides for x in ast.walk(s_)):
                    continue
                others = [s_ for s_ in sides if not any(isinstance(x, ast.Attribute) and x.attr == "vJ" for x in ast.walk(s_))]
                count += 1
                bad = []
                for o in others:
                    # plasma velocities are recognised by the public parameter / attribute names they travel under (velocityMid, vp, vm, the
                    # velocity profile); as written, or with temporaries looked through
                    for r in (o, cx.resolve(o, maxdepth=2)):
                        names = {x.id for x in ast.walk(r) if isinstance(x, ast.Name)} | {x.attr for x in ast.walk(r) if isinstance(x, ast.Attribute)}
                        if names & PLASMA_VELOCITY_NAMES:
                            bad.append(n(o))
                            break
                chk.touch(sc.name)
                chk.ob(rule, sc.where(c), f"{sc.qual}: `{n(c)[:70]}` compares the Jouguet velocity with a wall velocity", not bad,
                       f"other side: {bad}", key=f"vJ-vs-wall-velocity|{sc.qual}|{n(c)[:50]}")
    if count < 2:
        raise AnchorMissing("EOM: comparisons of a wall velocity with hydrodynamics.vJ not found")


def per_object_state(chk: Check, rule: str, classes: tuple) -> None:
    """results are a function of the object's own model and inputs: no mutable class-level attribute of these classes is mutated in place by
    their methods (a class-level cache / list is shared by every instance, so a second model would read the first model's entries)"""
    from ..core import shared_mutable_class_state
    S = chk.src
    hits = [h for h in shared_mutable_class_state(S) if h[2] in classes]
    chk.ob(rule, "src/WallGo", f"no method of {', '.join(classes)} mutates a mutable class-level attribute in place (caches and bookkeeping are per instance)",
           not hits, "; ".join(f"{f.qual} mutates class-level `{a}` of {c}" for f, x, c, a in hits)[:300], key="per-object-state|" + "+".join(classes))


def called_for_effect_mutates(chk: Check, rule: str, method: str) -> None:
    """A method that the package calls as a bare statement (`x.<method>(...)`, result discarded) is relied upon to change its receiver.  Every
    definition of that method in the package must then really modify `self` (store to an attribute / item of self, or call -- again for effect --
    a method of one of its attributes that does): a definition that computes a new object and returns it turns those call sites into no-ops."""
    S = chk.src
    sites = []
    for m in S.modules.values():
        for fi in m.funcs.values():
            for st in ast.walk(fi.node):
                if isinstance(st, ast.Expr) and isinstance(st.value, ast.Call) and isinstance(st.value.func, ast.Attribute) and st.value.func.attr == method:
                    sites.append((fi, st))
    defs = [(ci, ci.methods[method]) for m in S.modules.values() for ci in m.classes.values() if method in ci.methods]
    if not sites or not defs:
        raise AnchorMissing(f"`{method}`: no call for effect / no definition found")
    mut = {}

    def mutates(fi, seen=()):
        if fi.name in mut:
            return mut[fi.name]
        res = False
        for st in _own_walk(fi.node):
            tg = []
            if isinstance(st, ast.Assign):
                tg = st.targets
            elif isinstance(st, (ast.AugAssign, ast.AnnAssign)):
                tg = [st.target]
            for t in tg:
                for x in ast.walk(t):
                    if isinstance(x, (ast.Attribute, ast.Subscript)) and isinstance(x.ctx, ast.Store):
                        b = x
                        while isinstance(b, (ast.Attribute, ast.Subscript)):
                            b = b.value
                        if isinstance(b, ast.Name) and b.id == "self":
                            res = True
            if isinstance(st, ast.Expr) and isinstance(st.value, ast.Call) and isinstance(st.value.func, ast.Attribute):
                f = st.value.func
                b = f.value
                while isinstance(b, (ast.Attribute, ast.Subscript)):
                    b = b.value
                if isinstance(b, ast.Name) and b.id == "self" and f.value is not b:
                    # self.<attr>.<m>(...) for effect: mutates when every package definition of <m> mutates
                    inner = [c.methods[f.attr] for m_ in S.modules.values() for c in m_.classes.values() if f.attr in c.methods]
                    if inner and all(x.name in seen or mutates(x, seen + (fi.name,)) for x in inner if x.name != fi.name):
                        res = True
        mut[fi.name] = res
        return res

    for ci, fd in defs:
        chk.touch(fd.name)
        chk.ob(rule, fd.where(), f"{ci.name}.{method} modifies its receiver: it is called for its effect at {len(sites)} site(s) "
               f"({', '.join(sorted({s_[0].qual for s_ in sites}))[:120]})", mutates(fd), key=f"for-effect|{ci.name}.{method}")
