"""C20 -- thermal integrals, their shipped tables and the ideal-gas limit agree.

R20.1 integrands against the defining integrals (positive argument; modulus and phase for negative argument)
R20.2 piecewise structure of both classes (split at sqrt|x|, same limits, own integrands); Jb / Jf mirror structure
R20.3 one-loop thermal sum T^4/(2 pi^2) [sum n_B Re Jb + sum n_F Re Jf]; Coleman-Weinberg term; fermion sign
R20.4 lint of the shipped interpolation tables (data artefact, no code run): layout, monotone uniform abscissae, range,
      finiteness, zero imaginary part for x >= 0, local smoothness, value at 0, large-x asymptote; ini / file names / reader agree

The path analyses of R20.2 / R20.3 read a conditional expression as the if / else it abbreviates (`_ifexp_as_branch`), and a flag / test that a
path has already branched on keeps its outcome on that path (`_PathEx`): `x = a if t else b` twice is two paths, like one `if t:` block.
A look-up `D[key](x)` in a fixed class-level table of callables is the dispatch on `key` it abbreviates (`_table_dispatch`); an integrand
`functools.partial(f, a)` is `lambda y: f(a, y)` (`_partial_as_lambda`).
"""
from __future__ import annotations

import ast
import math

import sympy as sp

from ..core import AnchorMissing, Check, Undecided, calls_in, dotted, kwarg, own_nodes, src, walk_guarded
from ..flow import CFG
from ..hydro import n
from ..nf import Ctx, eqx, has, parse_pattern, same
from ..terms import Extractor, Guard, SUM, is_zero

LEVEL = "other"
IN = "PotentialTools.integrals"


def r20_1(chk: Check):
    S = chk.src
    ex = Extractor(S, positive={"y"})
    x, y = ex.sym("x"), ex.sym("y")
    a = sp.Symbol("a", positive=True)
    for cls, sgn, nm in (("JbIntegral", -1, "Jb"), ("JfIntegral", +1, "Jf")):
        fpos = S.func(f"{IN}:{cls}._integrandPositiveReal")
        fneg = S.func(f"{IN}:{cls}._integrandNegativeReal")
        fim = S.func(f"{IN}:{cls}._integrandNegativeImaginary")
        chk.touch(fpos.name, fneg.name, fim.name)

        def single(f):
            # the integrand as a term in (x, y): its two parameters are bound by position, whatever they are called
            prm = [p_ for p_ in f.params() if p_ not in ("self", "cls")]
            if len(prm) != 2:
                raise AnchorMissing(f"{f.qual}: expected the parameters (x, y)")
            return ex.single(f, {prm[0]: x, prm[1]: y})
        pos = single(fpos)
        overall = 1 if nm == "Jb" else -1
        want = overall * y**2 * sp.log(1 + sgn * sp.exp(-sp.sqrt(y**2 + x)))
        ok, how = is_zero(pos - want, chk.seed)
        chk.ob("R20.1", fpos.where(), f"{nm} integrand (x + y^2 >= 0) == {'+' if overall > 0 else '-'} y^2 log(1 {'+' if sgn > 0 else '-'} exp(-sqrt(y^2 + x)))",
               ok, how, key=f"positive|{nm}", how=how)
        neg = single(fneg).subs(sp.sqrt(-x - y**2), a)
        # modulus: exp(2 * neg / (overall * y^2)) == |1 + sgn e^{-ia}|^2 = 2 + 2 sgn cos(a)
        inner = sp.exp(2 * neg / (overall * y**2))
        mod2 = 2 + 2 * sgn * sp.cos(a)
        ok, how = is_zero(sp.simplify(sp.expand_trig(sp.simplify(inner).rewrite(sp.cos)) - mod2), chk.seed, ranges={a: (0, 3)})
        chk.ob("R20.1", fneg.where(), f"{nm} real integrand (x + y^2 < 0, sqrt = i a): the log argument is |1 {'+' if sgn > 0 else '-'} e^(-ia)| "
               f"= 2|{'cos' if sgn > 0 else 'sin'}(a/2)|", ok, how, key=f"modulus|{nm}", how=how)
        im = single(fim).subs(sp.sqrt(-x - y**2), a)
        # phase: tan(im / y^2) == overall * Im/Re of (1 + sgn e^{-ia})  -> for Jb: cot(a/2); for Jf (overall -): tan(a/2)
        true_tan = overall * (-sgn * sp.sin(a)) / (1 + sgn * sp.cos(a))
        got_tan = sp.tan(im / y**2)
        ok, how = is_zero(sp.simplify(sp.expand_trig(sp.simplify(got_tan)) - sp.simplify(true_tan.rewrite(sp.tan))), chk.seed, ranges={a: (0, 3)})
        if ok is None:
            ok, how = is_zero(sp.simplify(got_tan - true_tan), chk.seed, ranges={a: (0, 3)})
        chk.ob("R20.1", fim.where(), f"{nm} imaginary integrand is y^2 times the phase of the log argument (mod pi)", ok, how, key=f"phase|{nm}", how=how)
        # ... on the principal branch: the phase stays in [-pi/2, pi/2] for every a > 0 (the integrals are defined with the principal log)
        ph = sp.simplify(im / y**2)
        if isinstance(ph, sp.atan):
            okb, howb = True, "outermost arctan"
        else:
            worst = 0.0
            for k in range(1, 161):
                val = abs(float(ph.subs(a, sp.Rational(k, 4) + sp.Rational(1, 97)).evalf(30)))
                worst = max(worst, val)
            okb, howb = worst <= float(sp.pi / 2) + 1e-9, f"max |phase| = {worst:.4g} for a in (0, 40]"
        chk.ob("R20.1", fim.where(), f"{nm} imaginary integrand stays on the principal branch: |phase| <= pi/2 for all a (x down to -1600)", okb, howb,
               key=f"principal-branch|{nm}", how=howb)
    chk.floor("R20.1", 8)


KEEP = {"_integrator", "_integrandPositiveReal", "_integrandNegativeReal", "_integrandNegativeImaginary"}


def _only_via(g: CFG, t, pol: bool, a) -> bool:
    """statement `a` is executed only after test `t` came out as `pol` (if/else arm, or fall-through after a guard clause)"""
    return g.must_pass(CFG.ENTRY, a, lambda q: q is t) and not g.reaches(g.branch(t, not pol), a, avoid=lambda q: q is t)


def _sum_terms(e: ast.AST) -> list:
    if isinstance(e, ast.BinOp) and isinstance(e.op, ast.Add):
        return _sum_terms(e.left) + _sum_terms(e.right)
    if isinstance(e, ast.UnaryOp) and isinstance(e.op, ast.UAdd):
        return _sum_terms(e.operand)
    return [e]


def _is_1j(e: ast.AST) -> bool:
    return isinstance(e, ast.Constant) and isinstance(e.value, complex) and e.value == 1j


def _complex_parts(v: ast.AST, cx: Ctx):
    """(real part, imaginary part) of `complex(R + 1j * I)` / `complex(R, I)`, temporaries looked through"""
    v = cx.resolve(v, keep_calls=KEEP)
    if not (isinstance(v, ast.Call) and dotted(v.func) == "complex" and not v.keywords):
        return None
    if len(v.args) == 2:
        return v.args[0], v.args[1]
    if len(v.args) != 1:
        return None
    re_, im_ = [], []
    for t in _sum_terms(v.args[0]):
        if isinstance(t, ast.BinOp) and isinstance(t.op, ast.Mult) and (_is_1j(t.left) or _is_1j(t.right)):
            im_.append(t.right if _is_1j(t.left) else t.left)
        else:
            re_.append(t)
    return (re_[0], im_[0]) if len(re_) == 1 and len(im_) == 1 else None


def _partial_as_lambda(e: ast.AST, avoid: set = frozenset()):
    """`functools.partial(f, a, .., k=v)` handed to a quadrature routine that calls its integrand with the one integration variable is
    `lambda y: f(a, .., y, k=v)`; any other expression is returned as it is"""
    if not (isinstance(e, ast.Call) and (dotted(e.func) or "") in ("partial", "functools.partial") and e.args
            and not any(isinstance(a_, ast.Starred) for a_ in e.args) and all(k_.arg for k_ in e.keywords)):
        return e
    taken = {x.id for x in ast.walk(e) if isinstance(x, ast.Name)} | set(avoid)
    y = "y__"
    while y in taken:
        y += "_"
    body = ast.Call(func=e.args[0], args=list(e.args[1:]) + [ast.Name(id=y, ctx=ast.Load())], keywords=list(e.keywords))
    lam = ast.Lambda(args=ast.arguments(posonlyargs=[], args=[ast.arg(arg=y)], kwonlyargs=[], kw_defaults=[], defaults=[]), body=body)
    return ast.fix_missing_locations(ast.copy_location(lam, e))


def _wrapper_structure(S, f_impl, cls: str) -> dict:
    """structure of the nested per-point function of _functionImplementation (the one that calls _integrator), by role:
    (branch, part) -> sorted list of (integrand, lower limit, upper limit) when the part is a plain sum of _integrator(...) calls,
    else the text of the value.  branch in {x>=0, x<0, None}, part in {resReal, resImag} = real / imaginary part of the returned complex"""
    wrs = [f for f in S.modules[f_impl.module].funcs.values() if f.parent is f_impl and calls_in(f.node, "_integrator")]
    if len(wrs) != 1:
        raise AnchorMissing(f"{f_impl.qual}: the nested per-point function calling _integrator not found")
    wr = _ifexp_as_branch(wrs[0])      # `v = a if t else b` is the branch `if t: v = a` / `else: v = b`
    prm = [a_.arg for a_ in wr.node.args.args]
    if len(prm) != 1:
        raise AnchorMissing(f"{wr.qual}: expected one parameter")
    XW = prm[0]
    cx = Ctx(S, wr)
    g = CFG(wr.node)
    fint = S.func(f"{IN}:_integrator")
    ip = fint.params()
    sense = {}
    for t in g.nodes:
        if g.kind.get(t) == "test":
            if eqx(t, f"{XW} >= 0", cx):
                sense[t] = True
            elif eqx(t, f"{XW} < 0", cx):
                sense[t] = False

    def branch(node):
        for t, s_ in sense.items():
            if _only_via(g, t, True, node):
                return "x>=0" if s_ else "x<0"
            if _only_via(g, t, False, node):
                return "x<0" if s_ else "x>=0"
        return None

    def limit(e) -> str:
        if e is None:
            return "?"
        if eqx(e, "0.0", cx):
            return "0"
        if eqx(e, "np.inf", cx) or eqx(e, "math.inf", cx):
            return "inf"
        if eqx(e, f"np.sqrt(np.abs({XW}))", cx) or eqx(e, f"np.sqrt(abs({XW}))", cx):
            return "sqrt|x|"
        return n(e)

    def describe(e):
        r = cx.resolve(e, keep_calls=KEEP)
        calls = []
        for t in _sum_terms(r):
            if not (isinstance(t, ast.Call) and dotted(t.func) == "_integrator" and len(ip) == 3):
                return "0" if eqx(r, "0.0") else n(r)
            f_, a_, b_ = (kwarg(t, ip[i], i) for i in range(3))
            lam = _partial_as_lambda(cx.resolve(f_, keep_calls=KEEP), avoid={XW}) if f_ is not None else None
            callee = "?"
            if isinstance(lam, ast.Lambda) and len(lam.args.args) == 1 and isinstance(lam.body, ast.Call):
                Y = lam.args.args[0].arg
                d = dotted(lam.body.func) or ""
                own = S.modules[f_impl.module].funcs.get(d)
                if own is not None and d.split(".")[0] == cls:
                    ps_ = [p_ for p_ in own.params() if p_ not in ("self", "cls")]
                    if len(ps_) == 2 and eqx(kwarg(lam.body, ps_[0], 0), XW, cx) and eqx(kwarg(lam.body, ps_[1], 1), Y) and Y != XW:
                        callee = d.split(".")[-1]
                elif d:
                    callee = "foreign:" + d
            calls.append((callee, limit(a_), limit(b_)))
        return sorted(calls)

    out: dict = {"__where__": wr}
    rets = [r for r in own_nodes(wr.node) if isinstance(r, ast.Return)]
    if not rets:
        raise AnchorMissing(f"{wr.qual}: no return")
    ok_ret = True
    seen: set = set()      # one definition reaching several returns (a return written once per branch) is one fact
    for r in rets:
        parts = _complex_parts(r.value, cx) if r.value is not None else None
        if parts is None:
            ok_ret = False
            continue
        for label, e in zip(("resReal", "resImag"), parts):
            if isinstance(e, ast.Name) and e.id != XW:
                for d in g.reaching_defs(r, e.id):
                    if d is not CFG.ENTRY and (id(d), label) in seen:
                        continue
                    seen.add((id(d), label))
                    if d is CFG.ENTRY or not isinstance(d, ast.Assign) or len(d.targets) != 1:
                        out.setdefault((None, label), []).append("undefined on some path")
                        continue
                    v = d.value
                    t0 = d.targets[0]
                    if isinstance(t0, ast.Tuple):
                        idx = [i for i, x in enumerate(t0.elts) if isinstance(x, ast.Name) and x.id == e.id]
                        v = v.elts[idx[0]] if isinstance(v, ast.Tuple) and len(v.elts) == len(t0.elts) and len(idx) == 1 else None
                    out.setdefault((branch(d), label), []).append(describe(v) if v is not None else "unanalysable")
            else:
                out.setdefault((branch(r), label), []).append(describe(e))
    out["return"] = ok_ret
    return out


def r20_2(chk: Check):
    S = chk.src
    for cls in ("JbIntegral", "JfIntegral"):
        fi = S.func(f"{IN}:{cls}._functionImplementation")
        chk.touch(fi.name)
        st = _wrapper_structure(S, fi, cls)
        want = {
            ("x>=0", "resReal"): ([("_integrandPositiveReal", "0", "inf")], "its own _integrandPositiveReal on [0.0, np.inf]"),
            ("x>=0", "resImag"): ("0", "0.0"),
            ("x<0", "resReal"): (sorted([("_integrandNegativeReal", "0", "sqrt|x|"), ("_integrandPositiveReal", "sqrt|x|", "inf")]),
                                 "its own _integrandNegativeReal on [0.0, np.sqrt(np.abs(x))] plus _integrandPositiveReal on [np.sqrt(np.abs(x)), np.inf]"),
            ("x<0", "resImag"): ([("_integrandNegativeImaginary", "0", "sqrt|x|")], "its own _integrandNegativeImaginary on [0.0, np.sqrt(np.abs(x))]"),
        }
        for k, (v, txt) in want.items():
            got = st.get(k)
            chk.ob("R20.2", fi.where(), f"{cls}: {k[1]} for {k[0]} integrates {txt}", got == [v] and (None, k[1]) not in st,
                   str(got if got is not None else st.get((None, k[1])))[:200], key=f"structure|{cls}|{k[0]}|{k[1]}")
        chk.ob("R20.2", fi.where(), f"{cls}: wrapper returns real + i*imag", st.get("return") is True, key=f"return|{cls}")
        ini = S.func(f"{IN}:{cls}.__init__")
        a = ini.node.args
        names = [x.arg for x in a.args]
        dfl = dict(zip(names[len(names) - len(a.defaults):], a.defaults))
        chk.ob("R20.2", ini.where(), f"{cls} declares two return values (real, imaginary)", eqx(dfl.get("returnValueCount"), "2"),
               str({k: n(v) for k, v in dfl.items()}), key=f"rvc|{cls}")
    fint = S.func(f"{IN}:_integrator")
    chk.touch(fint.name)
    ci = Ctx(S, fint)
    prm = fint.params()
    q = [c for c in calls_in(fint.node, "quad")]
    ok = len(q) == 1 and len(prm) == 3 and all(eqx(kwarg(q[0], nm, i), prm[i]) for i, nm in enumerate(("func", "a", "b")))
    rets = [r for r in own_nodes(fint.node) if isinstance(r, ast.Return)]
    if ok and len(rets) == 1 and rets[0].value is not None:
        r = ci.resolve(rets[0].value)
        ok = isinstance(r, ast.Call) and dotted(r.func) == "float" and len(r.args) == 1 and isinstance(r.args[0], ast.Subscript) \
            and eqx(r.args[0].slice, "0") and same(r.args[0].value, q[0], ci)
    else:
        ok = False
    chk.ob("R20.2", fint.where(), "_integrator returns the value (element 0) of quad(func, a, b)", ok, key="integrator")
    chk.floor("R20.2", 13)


def _axis_by_keyword(fi):
    """copy of a function in which the reduction axis of np.sum is always passed by keyword (np.sum(a, -1) == np.sum(a, axis=-1));
    the term extractor only records the keyword form"""
    import copy
    from ..core import FuncInfo

    class T(ast.NodeTransformer):
        def visit_Call(self, c):
            self.generic_visit(c)
            if dotted(c.func) in ("np.sum", "numpy.sum") and len(c.args) == 2 and not any(k.arg == "axis" for k in c.keywords):
                c.keywords.append(ast.keyword(arg="axis", value=c.args.pop()))
            return c
    node = T().visit(copy.deepcopy(fi.node))
    ast.fix_missing_locations(node)
    return FuncInfo(fi.module, fi.qual, node, fi.cls, fi.parent)


_SIMPLE_STMTS = (ast.Assign, ast.AnnAssign, ast.AugAssign, ast.Return, ast.Expr)


def _first_ifexp(st):
    """the outermost, left-most conditional expression evaluated by the simple statement `st` itself (not one inside a lambda / comprehension,
    whose test may read names bound there)"""
    stack = [st]
    while stack:
        x = stack.pop(0)
        if isinstance(x, ast.IfExp):
            return x
        if isinstance(x, (ast.Lambda, ast.ListComp, ast.SetComp, ast.DictComp, ast.GeneratorExp, ast.NamedExpr)):
            continue
        stack.extend(ast.iter_child_nodes(x))
    return None


def _ifexp_as_branch(fi, limit: int = 64):
    """copy of a function in which a conditional expression is the two-way branch it abbreviates:
    `x = f(a if t else b)`  ->  `if t: x = f(a)` / `else: x = f(b)`        (assignments, augmented assignments, returns, expression statements;
    the expressions of this code are pure, so evaluating the test first changes nothing).  The path analyses (term extractor, CFG) then see the
    same two paths as for the if / else statement; fi itself when it has no conditional expression"""
    import copy
    from ..core import FuncInfo
    budget = [limit]

    def split(st):
        # (only the value of an assignment is looked at: a conditional expression inside its target is left alone)
        x = _first_ifexp(st.value) if isinstance(st, _SIMPLE_STMTS) and st.value is not None else None
        if x is None or budget[0] <= 0:
            return st
        budget[0] -= 1
        arms = []
        for pick in ("body", "orelse"):
            x._pick = pick
            try:
                new = copy.deepcopy(st)
            finally:
                del x._pick

            class Take(ast.NodeTransformer):
                def generic_visit(self, y):
                    p = getattr(y, "_pick", None)
                    if p is not None:
                        del y._pick
                        return getattr(y, p)
                    return super().generic_visit(y)
            arms.append(split(Take().visit(new)))
        br = ast.If(test=copy.deepcopy(x.test), body=[arms[0]], orelse=[arms[1]])
        return ast.copy_location(br, st)

    def block(stmts):
        out = []
        for st in stmts:
            if isinstance(st, (ast.FunctionDef, ast.AsyncFunctionDef, ast.ClassDef)):
                out.append(st)
                continue
            for fld in ("body", "orelse", "finalbody"):
                b = getattr(st, fld, None)
                if isinstance(b, list) and b and isinstance(b[0], ast.stmt):
                    setattr(st, fld, block(b))
            for h in getattr(st, "handlers", []) or []:
                h.body = block(h.body)
            out.append(split(st))
        return out

    if not any(isinstance(x, ast.IfExp) for x in own_nodes(fi.node)):
        return fi
    node = copy.deepcopy(fi.node)
    node.body = block(node.body)
    ast.fix_missing_locations(node)
    return FuncInfo(fi.module, fi.qual, node, fi.cls, fi.parent)


def _class_table(S, fi, e: ast.AST):
    """[(key, value)] of the class-level dict display `self.NAME` / `cls.NAME` / `Class.NAME` refers to, when it is a fixed table: defined once in
    the class body (of the class of fi or a base) as a display with plain, pairwise different keys, and never re-bound or written to anywhere in
    the package; else None"""
    if not (isinstance(e, ast.Attribute) and isinstance(e.value, ast.Name) and fi.cls and e.value.id in ("self", "cls", fi.cls)):
        return None
    name = e.attr
    table = None
    for ci in S.mro(f"{fi.module}:{fi.cls}"):
        if name in ci.consts:
            defs = [st for st in ci.node.body if (isinstance(st, ast.Assign) and any(isinstance(t, ast.Name) and t.id == name for t in st.targets))
                    or (isinstance(st, ast.AnnAssign) and isinstance(st.target, ast.Name) and st.target.id == name)]
            if len(defs) != 1 or name in ci.methods:
                return None
            table = ci.consts[name]
            break
        if name in ci.methods:
            return None
    if not isinstance(table, ast.Dict) or not table.keys or any(k is None for k in table.keys):
        return None

    def plain(k) -> bool:
        return isinstance(k, (ast.Constant, ast.Name)) or (isinstance(k, ast.Attribute) and plain(k.value))
    if not all(plain(k) for k in table.keys) or len({ast.dump(k) for k in table.keys}) != len(table.keys):
        return None
    if not all(isinstance(v, (ast.Name, ast.Attribute, ast.Lambda)) for v in table.values):
        return None
    # a table that some code re-binds or mutates, or that another class of the package defines as well (an override seen through `self`), is not
    # a fixed dispatch
    if sum(name in c_.consts or name in c_.methods for m in S.modules.values() for c_ in m.classes.values()) != 1:
        return None
    for m in S.modules.values():
        for x in ast.walk(m.tree):
            if isinstance(x, ast.Attribute) and x.attr == name:
                if isinstance(x.ctx, (ast.Store, ast.Del)):
                    return None
            elif isinstance(x, ast.Subscript) and isinstance(x.ctx, (ast.Store, ast.Del)) and isinstance(x.value, ast.Attribute) and x.value.attr == name:
                return None
            elif isinstance(x, ast.Call) and isinstance(x.func, ast.Attribute) and isinstance(x.func.value, ast.Attribute) and x.func.value.attr == name \
                    and x.func.attr in ("update", "pop", "popitem", "clear", "setdefault", "__setitem__", "__delitem__"):
                return None
    return list(zip(table.keys, table.values))


def _table_dispatch(S, fi):
    """copy of a function in which a look-up in a fixed class-level table of callables is the dispatch it abbreviates:
        D[key]           ->  v1 if key == k1 else (v2 if key == k2 else D[key])          (likewise D.get(key) / D.get(key, default))
        if key in D: A   ->  if key == k1: A  elif key == k2: A  [else: B]               (`not in`: arms exchanged)
    one path per key, each applying that key's callable (the path extractor keeps the outcome of `key == k` on a path, so inside the arm of k1 the
    look-up is v1).  The key must be a plain name / attribute path (evaluating it twice changes nothing); fi itself when there is no such look-up"""
    import copy
    from ..core import FuncInfo

    def plain(k) -> bool:
        return isinstance(k, ast.Name) or (isinstance(k, ast.Attribute) and plain(k.value))
    changed = [False]

    def eq(key, k):
        return ast.Compare(left=copy.deepcopy(key), ops=[ast.Eq()], comparators=[copy.deepcopy(k)])

    def chain(key, table, fallback):
        out = fallback
        for k, v in reversed(table):
            out = ast.IfExp(test=eq(key, k), body=copy.deepcopy(v), orelse=out)
        return out

    class Lookups(ast.NodeTransformer):
        def visit_Subscript(self, x):
            self.generic_visit(x)
            t = _class_table(S, fi, x.value) if isinstance(x.ctx, ast.Load) else None
            if t is not None and plain(x.slice):
                changed[0] = True
                return ast.copy_location(chain(x.slice, t, copy.deepcopy(x)), x)
            return x

        def visit_Call(self, x):
            self.generic_visit(x)
            if isinstance(x.func, ast.Attribute) and x.func.attr == "get" and 1 <= len(x.args) <= 2 and not x.keywords and plain(x.args[0]):
                t = _class_table(S, fi, x.func.value)
                if t is not None:
                    changed[0] = True
                    return ast.copy_location(chain(x.args[0], t, x.args[1] if len(x.args) == 2 else ast.Constant(value=None)), x)
            return x

        def visit_Lambda(self, x):
            return x

    def member_test(t):
        """(key, table, polarity) of a test `key in D` / `key not in D` / `not ...`"""
        pol = True
        while isinstance(t, ast.UnaryOp) and isinstance(t.op, ast.Not):
            t, pol = t.operand, not pol
        if isinstance(t, ast.Compare) and len(t.ops) == 1 and isinstance(t.ops[0], (ast.In, ast.NotIn)) and plain(t.left):
            d = t.comparators[0]
            if isinstance(d, ast.Call) and isinstance(d.func, ast.Attribute) and d.func.attr == "keys" and not d.args and not d.keywords:
                d = d.func.value
            tb = _class_table(S, fi, d)
            if tb is not None:
                return t.left, tb, pol == isinstance(t.ops[0], ast.In)
        return None

    def block(stmts):
        out = []
        for st in stmts:
            if isinstance(st, (ast.FunctionDef, ast.AsyncFunctionDef, ast.ClassDef)):
                out.append(st)
                continue
            for fld in ("body", "orelse", "finalbody"):
                b = getattr(st, fld, None)
                if isinstance(b, list) and b and isinstance(b[0], ast.stmt):
                    setattr(st, fld, block(b))
            for h in getattr(st, "handlers", []) or []:
                h.body = block(h.body)
            mt = member_test(st.test) if isinstance(st, ast.If) else None
            if mt is not None:
                key, tb, pol = mt
                inside, outside = (st.body, st.orelse) if pol else (st.orelse, st.body)
                if inside:
                    new = list(outside)
                    for k, _ in reversed(tb):
                        new = [ast.copy_location(ast.If(test=eq(key, k), body=copy.deepcopy(inside), orelse=new), st)]
                    changed[0] = True
                    out += new
                    continue
            out.append(st)
        return out

    node = copy.deepcopy(fi.node)
    node.body = block(node.body)
    node = Lookups().visit(node)
    if not changed[0]:
        return fi
    ast.fix_missing_locations(node)
    return FuncInfo(fi.module, fi.qual, node, fi.cls, fi.parent)


_TEXT_NAMED = ("is_", "cmp_", "cond", "isscalar_", "idx_")


class _PathEx(Extractor):
    """terms.Extractor in which a value has one truth value per path: an `if` whose test evaluates to a term the current path has already branched
    on takes the same branch again (two conditional expressions / two `if`s on the same flag do not produce the mixed paths that no execution takes).
    Only for tests that are terms of the function's inputs; a test the extractor merely names after its source text is branched on as before."""

    def stmt(self, st, env, guards, depth):
        if isinstance(st, ast.If):
            t, flip = st.test, False
            while isinstance(t, ast.UnaryOp) and isinstance(t.op, ast.Not):      # `if not flag` tests the value of `flag`
                t, flip = t.operand, not flip
            c = self.cond(t, env, depth)
            if isinstance(c, sp.Basic) and not isinstance(c, sp.logic.boolalg.BooleanAtom) \
                    and not any(s_.name.startswith(_TEXT_NAMED) for s_ in c.free_symbols):
                for g in guards:
                    if isinstance(g.term, sp.Basic) and g.term == c:
                        return self.block(st.body if g.polarity != flip else st.orelse, env, guards, depth)
                if flip:      # the guard remembers the value tested, without the `not`s
                    return self.block(st.body, env, guards + [Guard(t, False, c)], depth) + self.block(st.orelse, env, guards + [Guard(t, True, c)], depth)
        return super().stmt(st, env, guards, depth)


def _asserts_option(g, member: str) -> bool:
    """the guard says that the option tested is the enum member `member`: `opt == E.member` taken, or `opt != E.member` / `not opt == E.member`
    not taken (also `is` / `is not`); any other test that mentions the member counts when it is taken (as before)"""
    t, pol = g.node, bool(g.polarity)
    while isinstance(t, ast.UnaryOp) and isinstance(t.op, ast.Not):
        t, pol = t.operand, not pol
    if isinstance(t, ast.Compare) and len(t.ops) == 1 and isinstance(t.ops[0], (ast.Eq, ast.NotEq, ast.Is, ast.IsNot)):
        if any(isinstance(s_, ast.Attribute) and s_.attr == member for s_ in (t.left, t.comparators[0])):
            return pol == isinstance(t.ops[0], (ast.Eq, ast.Is))
    return bool(g.polarity) and member in g.text()


def _variants(ex, v, cands) -> bool:
    for w in cands:
        if v == w:
            return True
    for w in cands:
        try:
            if sp.simplify(v - w) == 0:
                return True
        except Exception:
            pass
    return False


def r20_3(chk: Check):
    S = chk.src
    MOD, CLS = "PotentialTools.effectivePotentialNoResum", "EffectivePotentialNoResum"
    EP = f"{MOD}:{CLS}"
    ft = S.func(f"{EP}.potentialOneLoopThermal")
    chk.touch(ft.name)
    # term level: the value returned on every path, as a function of the parameters (bosons, fermions, temperature); names of
    # locals, temporaries, the order of the accumulation and the shape of the control flow do not enter
    exk = _PathEx(S, positive={"temperature"}, keep_regularisers=True)
    ps = [p for p in exk.paths(_axis_by_keyword(_ifexp_as_branch(_table_dispatch(S, ft)))) if p.raised is None]
    vals = [p.value for p in ps]
    if not vals or not all(isinstance(v, sp.Basic) for v in vals):
        raise Undecided("potentialOneLoopThermal: a return value is not a term")
    env0 = {"__module__": MOD, "__class__": CLS}
    T = exk.sym("temperature")
    mB, nB, mF, nF = (exk.sym(s_) for s_ in ("bosons[0]", "bosons[1]", "fermions[0]", "fermions[1]"))

    def term(text, ex_=exk, **bind):
        return ex_.expr(parse_pattern(text), {**env0, **bind})
    reg = term("self.SMALL_NUMBER")
    W = "temperature**4 / (2 * np.pi**2) * (np.sum(nB * np.asarray(self.integrals.Jb(mB / (temperature**2 + self.SMALL_NUMBER)))[..., 0], axis=-1)" \
        " + np.sum(nF * np.asarray(self.integrals.Jf(mF / (temperature**2 + self.SMALL_NUMBER)))[..., 0], axis=-1))"
    plain = term(W, mB=mB, nB=nB, mF=mF, nF=nF)
    absm = term(W, mB=sp.Abs(mB), nB=nB, mF=sp.Abs(mF), nF=nF)
    cands = [plain, absm, sp.Abs(plain), sp.Abs(absm)]
    okv = all(_variants(exk, v, cands) for v in vals) and any(_variants(exk, v, [plain]) for v in vals)
    chk.ob("R20.3", ft.where(), "V_T = T^4/(2 pi^2) [sum_particles n_B Re Jb + sum_particles n_F Re Jf] (real parts = element 0, sum over the particle axis) "
           "on every returning path (up to the documented |.| options for the imaginary part)", okv, str(vals[0])[:200], key="thermal-sum")
    # the option that takes |m^2| must do so where it matters: on every path taken under ABS_ARGUMENT the integrals are evaluated at |m^2|/T^2
    abs_paths = [p for p in ps if any(_asserts_option(g, "ABS_ARGUMENT") for g in p.guards)]
    oka_ = bool(abs_paths) and all(_variants(exk, p.value, [absm, sp.Abs(absm)]) for p in abs_paths)
    chk.ob("R20.3", ft.where(), "under EImaginaryOption.ABS_ARGUMENT the thermal integrals are evaluated at |m^2| / T^2 (the replacement happens before "
           "the arguments are formed)", oka_, f"{len(abs_paths)} path(s) under ABS_ARGUMENT", key="abs-argument-path")
    # which spectrum goes through which integral, and with which argument
    JB, JF = sp.Function("integrals.Jb"), sp.Function("integrals.Jf")
    apps = {JB: set(), JF: set()}
    for v in vals:
        for a_ in v.atoms(sp.Function):
            if a_.func in apps:
                apps[a_.func].add(a_)
    okj = bool(apps[JB]) and bool(apps[JF])
    oka = okj
    for f_, m_ in ((JB, mB), (JF, mF)):
        for a_ in apps[f_]:
            okj = okj and len(a_.args) == 1 and {s_.name for s_ in a_.args[0].free_symbols} <= {m_.name, "temperature"} and m_ in a_.args[0].free_symbols
            oka = oka and len(a_.args) == 1 and isinstance(reg, sp.Basic) and reg.is_number and 0 < reg <= sp.Rational(1, 10**50) \
                and any(sp.simplify(a_.args[0] * (T**2 + reg) - mm) == 0 for mm in (m_, sp.Abs(m_)))
    chk.ob("R20.3", ft.where(), "bosons go through Jb(m_B^2/T^2) and fermions through Jf(m_F^2/T^2)", okj, str(sorted(map(str, apps[JB] | apps[JF])))[:200],
           key="Jb-Jf-arguments")
    chk.ob("R20.3", ft.where(), "the argument is m^2 / T^2 (regularised by 1e-100 only)", oka, str(sorted(map(str, apps[JB] | apps[JF])))[:200], key="argument")
    # masses and multiplicities: elements 0 and 1 of the tuples
    oku = True
    shown = set()
    for v in vals:
        names = {s_.name for s_ in v.free_symbols if not s_.name.startswith("idx_")}
        shown |= names
        oku = oku and names <= {"bosons[0]", "bosons[1]", "fermions[0]", "fermions[1]", "temperature"} and {"bosons[1]", "fermions[1]"} <= names
        for su in [a_ for a_ in v.atoms(sp.Function) if a_.func == SUM]:
            inner = su.args[0]
            hasb, hasf = inner.has(JB), inner.has(JF)
            oku = oku and (hasb != hasf) and (nB if hasb else nF) in inner.free_symbols and (nF if hasb else nB) not in inner.free_symbols
    chk.ob("R20.3", ft.where(), "masses and multiplicities are elements 0 and 1 of the boson / fermion tuples", oku, str(sorted(shown)), key="unpack")
    # Coleman-Weinberg
    fj = S.func(f"{EP}.jCW")
    chk.touch(fj.name)
    ex = Extractor(S, positive={"massSq", "rgScale"})
    v = ex.single(fj)
    m2, dof, c, mu = ex.sym("massSq"), ex.sym("degreesOfFreedom"), ex.sym("c"), ex.sym("rgScale")
    v0 = v.subs(sp.I, 0) if v.has(sp.I) else v
    ok, how = is_zero(sp.simplify(v0 - dof * m2**2 * (sp.log(m2 / mu**2) - c) / (64 * sp.pi**2)), chk.seed)
    chk.ob("R20.3", fj.where(), "jCW == n m^4 (log(m^2/mu^2) - c)/(64 pi^2)", ok, how, key="jCW", how=how)
    fo = S.func(f"{EP}.potentialOneLoop")
    chk.touch(fo.name)
    ex1 = _PathEx(S)
    vals = [p.value for p in ex1.paths(_axis_by_keyword(_ifexp_as_branch(_table_dispatch(S, fo)))) if p.raised is None]
    if not vals or not all(isinstance(v_, sp.Basic) for v_ in vals):
        raise Undecided("potentialOneLoop: a return value is not a term")
    b_, f_ = [ex1.sym(f"bosons[{i}]") for i in range(4)], [ex1.sym(f"fermions[{i}]") for i in range(4)]
    CW = "np.sum(self.jCW(b0, b1, b2, b3), axis=-1) - np.sum(self.jCW(f0, f1, f2, f3), axis=-1)"
    bind = {f"b{i}": b_[i] for i in range(4)} | {f"f{i}": f_[i] for i in range(4)}
    plain = term(CW, ex_=ex1, **bind)
    absm = term(CW, ex_=ex1, **{**bind, "b0": sp.Abs(b_[0]), "f0": sp.Abs(f_[0])})
    cands = [plain, absm, sp.Abs(plain), sp.Abs(absm)]
    ok = all(_variants(ex1, v_, cands) for v_ in vals) and any(_variants(ex1, v_, [plain]) for v_ in vals)
    chk.ob("R20.3", fo.where(), "zero-temperature one-loop term: bosons enter with +, fermions with - (each with its own c and scale)", ok, str(vals[0])[:200],
           key="CW-signs")
    chk.floor("R20.3", 6)


def _load_table(path):
    rows = []
    with open(path) as fh:
        for line in fh:
            line = line.strip()
            if not line:
                continue
            rows.append([float(t) for t in line.split(" ")])
    return rows


def r20_4(chk: Check):
    S = chk.src
    pkg = S.pkg / "PotentialTools"
    ini = pkg / "Config" / "PotentialToolsDefaults.ini"
    if not ini.exists():
        raise AnchorMissing("PotentialToolsDefaults.ini not found")
    import configparser
    cp = configparser.ConfigParser()
    cp.optionxform = str
    cp.read(ini)
    files = {}
    for k in ("InterpolationTable_Jb", "InterpolationTable_Jf"):
        ok = cp.has_option("DataFiles", k) and (pkg / cp.get("DataFiles", k)).exists()
        chk.ob("R20.4", f"src/WallGo/PotentialTools/Config/{ini.name}", f"[DataFiles] {k} names an existing file of the package", ok, key=f"ini|{k}")
        if ok:
            files[k] = pkg / cp.get("DataFiles", k)
    fi = S.func("PotentialTools:_initalizeIntegralInterpolations")
    chk.touch(fi.name)
    calls = [c for c in calls_in(fi.node, "readInterpolationTable")]
    cxi = Ctx(S, fi)
    rprm = [p_ for p_ in S.func("interpolatableFunction:InterpolatableFunction.readInterpolationTable").params() if p_ != "self"]
    pair = []
    for c in calls:
        recv = cxi.resolve(c.func.value) if isinstance(c.func, ast.Attribute) else None
        arg = kwarg(c, rprm[0], 0) if rprm else None
        arg = cxi.resolve(arg) if arg is not None else None
        keys = sorted({x.value for x in ast.walk(arg) if isinstance(x, ast.Constant) and isinstance(x.value, str) and x.value.startswith("InterpolationTable_")}) if arg is not None else []
        pair.append((recv.attr if isinstance(recv, ast.Attribute) else n(c.func), keys))
    pair.sort()
    ok = pair == [("Jb", ["InterpolationTable_Jb"]), ("Jf", ["InterpolationTable_Jf"])]
    chk.ob("R20.4", fi.where(), "the Jb object reads the Jb table and the Jf object the Jf table", ok, str(pair)[:200], key="reader-pairing")
    zero = {"InterpolationTable_Jb": -math.pi**4 / 45, "InterpolationTable_Jf": -7 * math.pi**4 / 360}
    for k, path in files.items():
        rel = f"src/WallGo/PotentialTools/{cp.get('DataFiles', k)}"
        chk.touch(rel)
        try:
            rows = _load_table(path)
        except ValueError as e:
            chk.ob("R20.4", rel, "every entry of the table parses as a number", False, str(e), key=f"parse|{k}")
            continue
        ncol = {len(r) for r in rows}
        chk.ob("R20.4", rel, "3 columns: abscissa, real part, imaginary part (1 + returnValueCount)", ncol == {3}, str(ncol), key=f"columns|{k}")
        if ncol != {3}:
            continue
        xs = [r[0] for r in rows]
        fin = all(math.isfinite(v) for r in rows for v in r)
        chk.ob("R20.4", rel, "all entries finite", fin, key=f"finite|{k}")
        inc = all(b > a for a, b in zip(xs, xs[1:]))
        chk.ob("R20.4", rel, "abscissae strictly increasing", inc, key=f"increasing|{k}")
        h = (xs[-1] - xs[0]) / (len(xs) - 1)
        uni = all(abs((b - a) - h) < 1e-6 * max(1.0, abs(h)) for a, b in zip(xs, xs[1:]))
        chk.ob("R20.4", rel, f"abscissae uniform (step {h:.6g}) and covering [-20, 1000]", uni and abs(xs[0] + 20) < 1e-9 and abs(xs[-1] - 1000) < 1e-9 and len(xs) >= 5000,
               f"{xs[0]} .. {xs[-1]}, {len(xs)} rows", key=f"range|{k}")
        imz = max((abs(r[2]) for r in rows if r[0] >= 0), default=0.0)
        chk.ob("R20.4", rel, "imaginary part is exactly zero for x >= 0", imz == 0.0, f"max |Im| = {imz}", key=f"imag-zero|{k}")
        if not (fin and inc and uni):
            continue
        # local cubic prediction of every interior row from its four neighbours (a single corrupted entry d shows up as
        # residuals d*(1/6, 4/6, 1, 4/6, 1/6)).  Windows where the functions are genuinely non-smooth are excluded:
        # |x| < 0.6 (square-root branch point) and, for Jf, the cusp of log|cos(a/2)| around x = -pi^2.
        for col, thr, what in ((1, 2e-4, "real part"), (2, 5e-2, "imaginary part (coarser: its quad evaluation is itself only accurate to ~1e-2 at isolated x)")):
            f = [r[col] for r in rows]
            worst = (0.0, None)
            for i in range(2, len(f) - 2):
                xi = xs[i]
                if abs(xi) < 0.6:
                    continue
                if k.endswith("Jf") and -math.pi**2 - 0.3 < xi < -math.pi**2 + 0.8:
                    continue
                if col == 2 and xi > -0.6:
                    continue
                pred = (-f[i - 2] + 4 * f[i - 1] + 4 * f[i + 1] - f[i + 2]) / 6.0
                res = abs(pred - f[i])
                if res > worst[0]:
                    worst = (res, xi)
            chk.ob("R20.4", rel, f"{what}: every interior row agrees with the cubic through its four neighbours to {thr:g} outside the non-smooth windows "
                   "(resolution of this lint: a localised corruption smaller than that is not seen)", worst[0] < thr,
                   f"largest residual {worst[0]:.3g} at x = {worst[1]}", key=f"smooth|{k}|{col}")
        # value at 0 from the cubic through the four rows around it
        j = max(i for i, v in enumerate(xs) if v <= 0)
        pts = [(xs[i], rows[i][1]) for i in (j - 1, j, j + 1, j + 2)]
        val = 0.0
        for a_, (xa, fa) in enumerate(pts):
            w = 1.0
            for b_, (xb, _) in enumerate(pts):
                if a_ != b_:
                    w *= (0.0 - xb) / (xa - xb)
            val += w * fa
        chk.ob("R20.4", rel, f"value at x = 0 is {'-pi^4/45' if k.endswith('Jb') else '-7 pi^4/360'} within 1e-3", abs(val - zero[k]) < 1e-3,
               f"{val:.6f} vs {zero[k]:.6f}", key=f"zero|{k}")
        xl, fl = xs[-1], rows[-1][1]
        asym = -math.sqrt(math.pi / 2) * xl**0.75 * math.exp(-math.sqrt(xl)) * (1 + 15 / (8 * math.sqrt(xl)))
        chk.ob("R20.4", rel, "last row follows the leading large-x asymptote -sqrt(pi/2) x^(3/4) e^(-sqrt x)(1 + 15/(8 sqrt x)) within 10 %",
               abs(fl - asym) <= 0.10 * abs(asym), f"{fl:.4e} vs {asym:.4e}", key=f"asymptote|{k}")
    chk.floor("R20.4", 21)


def r20_5(chk: Check) -> None:
    """what the thermal integrals return where no defining integral is evaluated: beyond the ends of the shipped tables, and in the "direct" objects"""
    S = chk.src
    # (a) beyond the tabulated range a value is returned (constant continuation / direct evaluation / error), never the cubic continuation of the
    #     last spline interval: that one grows like a polynomial where J is exponentially small
    nsites = 0
    for m in S.modules.values():
        if not m.name.startswith("PotentialTools"):
            continue
        for fi in m.funcs.values():
            for c in calls_in(fi.node, "setExtrapolationType"):
                recv = c.func.value if isinstance(c.func, ast.Attribute) else None
                if recv is None or not (n(recv).endswith(".Jb") or n(recv).endswith(".Jf")):
                    continue
                nsites += 1
                chk.touch(fi.name)
                lo, up = kwarg(c, "extrapolationTypeLower", 0), kwarg(c, "extrapolationTypeUpper", 1)
                cx = Ctx(S, fi)
                names = []
                for a in (lo, up):
                    a = cx.resolve(a) if a is not None else None
                    names.append(a.attr if isinstance(a, ast.Attribute) and n(a.value).endswith("EExtrapolationType") else None)
                ok = all(x in ("CONSTANT", "NONE", "ERROR") for x in names)
                chk.ob("R20.5", fi.where(c), f"{n(recv)}: outside the tabulated range the integral is continued by a value (CONSTANT), evaluated directly (NONE) "
                       "or refused (ERROR) on both sides -- never by extrapolating the spline (FUNCTION): J must stay Boltzmann-suppressed for heavy particles",
                       ok, f"lower {names[0]}, upper {names[1]}", key=f"beyond-range|{fi.qual}|{n(recv).split('.')[-1]}")
    if nsites < 2:
        raise AnchorMissing("PotentialTools: the setExtrapolationType calls on the default Jb / Jf not found")
    # (b) the objects used for *direct* evaluation never switch to a self-built spline: they are constructed with adaptive interpolation off
    #     (the class default is on: after 500 evaluations the values would come from an interpolation over whatever was evaluated so far)
    init = S.cls("interpolatableFunction:InterpolatableFunction").methods.get("__init__")
    default_on = True
    if init is not None:
        a = init.node.args
        names_ = [x.arg for x in a.args]
        dfl = dict(zip(names_[len(names_) - len(a.defaults):], a.defaults))
        d = dfl.get("bUseAdaptiveInterpolation")
        default_on = not (d is not None and eqx(d, "False"))
    ncons = 0
    for m in S.modules.values():
        if not m.name.startswith("PotentialTools"):
            continue
        for fi in m.funcs.values():
            for c in own_nodes(fi.node):
                if isinstance(c, ast.Call) and isinstance(c.func, ast.Name) and c.func.id in ("JbIntegral", "JfIntegral"):
                    ncons += 1
                    a = kwarg(c, "bUseAdaptiveInterpolation", 0)
                    ok = (a is not None and eqx(a, "False", Ctx(S, fi))) or (a is None and not default_on)
                    chk.ob("R20.5", fi.where(c), f"{c.func.id}(...) is constructed with adaptive interpolation switched off: a directly evaluated integral "
                           "returns the defining integral for every call history", ok,
                           "not passed (the class default is True)" if a is None else n(a), key=f"direct|{fi.qual}|{c.func.id}")
    if ncons < 2:
        raise AnchorMissing("PotentialTools: the constructions of JbIntegral / JfIntegral not found")
    # (c) the interpolant of a table is the plain (not-a-knot) cubic spline through all its rows: a boundary condition imposed on the spline
    #     (clamped / natural ends) changes the values and the derivative near the ends of the shipped tables
    fint = S.func("interpolatableFunction:InterpolatableFunction._interpolate")
    chk.touch(fint.name)
    sp_calls = [c for c in calls_in(fint.node, "CubicSpline")]
    if not sp_calls:
        raise AnchorMissing("InterpolatableFunction._interpolate: the CubicSpline construction not found")
    for c in sp_calls:
        bc = kwarg(c, "bc_type", 3)
        okb = bc is None or eqx(bc, "'not-a-knot'", Ctx(S, fint))
        chk.ob("R20.5", fint.where(c), "the table interpolant is the not-a-knot cubic spline (no boundary condition imposed at the table ends)", okb,
               n(bc) if bc is not None else "default", key="spline-bc")
    chk.floor("R20.5", 5)


def rules(chk: Check) -> None:
    for grp in (r20_1, r20_5, r20_2, r20_3, r20_4):
        chk.stage(grp, chk)
    # R20.6: potentials built without an explicit `integrals` argument do not share one Integrals object (no default argument object escapes), NaN
    # guards are effective;  R20.7: the imaginary-part handling is entered for strictly negative m^2 only, identically in both one-loop pieces
    from .shared import defensive_idioms_effective, imaginary_dispatch_strict
    chk.stage(defensive_idioms_effective, chk, "R20.6", ("PotentialTools.effectivePotentialNoResum", "PotentialTools.integrals", "effectivePotential", "interpolatableFunction"))
    chk.stage(imaginary_dispatch_strict, chk, "R20.7")
    # R20.8: the shipped tables are loaded first and the extrapolation policy is chosen afterwards: a change of mode rebuilds the spline whenever a table exists,
    # so FUNCTION selected on a loaded table really extrapolates instead of returning NaN beyond the table (typestate rule shared with C18 R18.6)
    from ..core import Remap
    from . import c18
    chk.stage(c18.r18_6, Remap(chk, {"R18.6": "R20.8"}))
    chk.floor("R20.8", 3)
