"""C20 -- thermal integrals, their shipped tables and the ideal-gas limit agree.

R20.1 integrands against the defining integrals (positive argument; modulus and phase for negative argument)
R20.2 piecewise structure of both classes (split at sqrt|x|, same limits, own integrands); Jb / Jf mirror structure
R20.3 one-loop thermal sum T^4/(2 pi^2) [sum n_B Re Jb + sum n_F Re Jf]; Coleman-Weinberg term; fermion sign
R20.4 lint of the shipped interpolation tables (data artefact, no code run): layout, monotone uniform abscissae, range,
      finiteness, zero imaginary part for x >= 0, local smoothness, value at 0, large-x asymptote; ini / file names / reader agree
"""
from __future__ import annotations

import ast
import math

import sympy as sp

from ..core import AnchorMissing, Check, Undecided, calls_in, dotted, kwarg, own_nodes, src, walk_guarded
from ..hydro import n
from ..terms import Extractor, SUM, is_zero

LEVEL = "other"
IN = "PotentialTools.integrals"


def r20_1(chk: Check):
    S = chk.src
    ex = Extractor(S, positive={"y"})
    x, y = ex.sym("x"), ex.sym("y")
    a = sp.Symbol("a", positive=True)
    for cls, sgn, nm in (("JbIntegral", -1, "Jb"), ("JfIntegral", +1, "Jf")):
        fpos = S.func(f"{IN}:{cls}._integrandPositiveReal")
        fneg = S.func(f"{IN}:{cls}._integrandNegativeReal")
        fim = S.func(f"{IN}:{cls}._integrandNegativeImaginary")
        chk.touch(fpos.name, fneg.name, fim.name)
        pos = ex.single(fpos)
        overall = 1 if nm == "Jb" else -1
        want = overall * y**2 * sp.log(1 + sgn * sp.exp(-sp.sqrt(y**2 + x)))
        ok, how = is_zero(pos - want, chk.seed)
        chk.ob("R20.1", fpos.where(), f"{nm} integrand (x + y^2 >= 0) == {'+' if overall > 0 else '-'} y^2 log(1 {'+' if sgn > 0 else '-'} exp(-sqrt(y^2 + x)))",
               ok, how, key=f"positive|{nm}", how=how)
        neg = ex.single(fneg).subs(sp.sqrt(-x - y**2), a)
        # modulus: exp(2 * neg / (overall * y^2)) == |1 + sgn e^{-ia}|^2 = 2 + 2 sgn cos(a)
        inner = sp.exp(2 * neg / (overall * y**2))
        mod2 = 2 + 2 * sgn * sp.cos(a)
        ok, how = is_zero(sp.simplify(sp.expand_trig(sp.simplify(inner).rewrite(sp.cos)) - mod2), chk.seed, ranges={a: (0, 3)})
        chk.ob("R20.1", fneg.where(), f"{nm} real integrand (x + y^2 < 0, sqrt = i a): the log argument is |1 {'+' if sgn > 0 else '-'} e^(-ia)| "
               f"= 2|{'cos' if sgn > 0 else 'sin'}(a/2)|", ok, how, key=f"modulus|{nm}", how=how)
        im = ex.single(fim).subs(sp.sqrt(-x - y**2), a)
        # phase: tan(im / y^2) == overall * Im/Re of (1 + sgn e^{-ia})  -> for Jb: cot(a/2); for Jf (overall -): tan(a/2)
        true_tan = overall * (-sgn * sp.sin(a)) / (1 + sgn * sp.cos(a))
        got_tan = sp.tan(im / y**2)
        ok, how = is_zero(sp.simplify(sp.expand_trig(sp.simplify(got_tan)) - sp.simplify(true_tan.rewrite(sp.tan))), chk.seed, ranges={a: (0, 3)})
        if ok is None:
            ok, how = is_zero(sp.simplify(got_tan - true_tan), chk.seed, ranges={a: (0, 3)})
        chk.ob("R20.1", fim.where(), f"{nm} imaginary integrand is y^2 times the phase of the log argument (mod pi)", ok, how, key=f"phase|{nm}", how=how)
        # ... on the principal branch: the phase stays in [-pi/2, pi/2] for every a > 0 (the integrals are defined with the principal log)
        ph = sp.simplify(im / y**2)
        if isinstance(ph, sp.atan):
            okb, howb = True, "outermost arctan"
        else:
            worst = 0.0
            for k in range(1, 161):
                val = abs(float(ph.subs(a, sp.Rational(k, 4) + sp.Rational(1, 97)).evalf(30)))
                worst = max(worst, val)
            okb, howb = worst <= float(sp.pi / 2) + 1e-9, f"max |phase| = {worst:.4g} for a in (0, 40]"
        chk.ob("R20.1", fim.where(), f"{nm} imaginary integrand stays on the principal branch: |phase| <= pi/2 for all a (x down to -1600)", okb, howb,
               key=f"principal-branch|{nm}", how=howb)
    chk.floor("R20.1", 8)


def _wrapper_structure(f_impl) -> dict:
    """structure of the nested wrapper(xWrapper): per branch the list of (integrand, lower, upper) for real and imaginary part"""
    wr = [x for x in ast.walk(f_impl.node) if isinstance(x, ast.FunctionDef) and x.name == "wrapper"]
    if len(wr) != 1:
        raise AnchorMissing("wrapper not found")
    out = {}
    for guards, st in walk_guarded(wr[0]):
        if isinstance(st, ast.Assign) and n(st.targets[0]) in ("resReal", "resImag"):
            br = None
            for t, pol in guards:
                if not isinstance(t, tuple) and n(t).replace(" ", "") == "xWrapper>=0":
                    br = "x>=0" if pol else "x<0"
            calls = []
            for c in ast.walk(st.value):
                if isinstance(c, ast.Call) and n(c.func) == "_integrator":
                    lam = c.args[0]
                    callee = None
                    for cc in ast.walk(lam):
                        if isinstance(cc, ast.Call) and "_integrand" in n(cc.func):
                            callee = n(cc.func)
                            argn = [n(a_) for a_ in cc.args]
                    calls.append((callee, tuple(argn), n(c.args[1]), n(c.args[2])))
            out[(br, n(st.targets[0]))] = sorted(calls) if calls else n(st.value)
    rets = [r for r in ast.walk(wr[0]) if isinstance(r, ast.Return)]
    out["return"] = n(rets[0].value) if rets else None
    return out


def r20_2(chk: Check):
    S = chk.src
    structs = {}
    for cls in ("JbIntegral", "JfIntegral"):
        fi = S.func(f"{IN}:{cls}._functionImplementation")
        chk.touch(fi.name)
        st = _wrapper_structure(fi)
        structs[cls] = st
        sq = "np.sqrt(np.abs(xWrapper))"
        want = {
            ("x>=0", "resReal"): [(f"{cls}._integrandPositiveReal", ("xWrapper", "y"), "0.0", "np.inf")],
            ("x>=0", "resImag"): "0.0",
            ("x<0", "resReal"): sorted([(f"{cls}._integrandNegativeReal", ("xWrapper", "y"), "0.0", sq),
                                        (f"{cls}._integrandPositiveReal", ("xWrapper", "y"), sq, "np.inf")]),
            ("x<0", "resImag"): [(f"{cls}._integrandNegativeImaginary", ("xWrapper", "y"), "0.0", sq)],
        }
        for k, v in want.items():
            chk.ob("R20.2", fi.where(), f"{cls}: {k[1]} for {k[0]} integrates {'its own ' if isinstance(v, list) else ''}"
                   f"{', '.join(c[0].split('.')[-1] + ' on [' + c[2] + ', ' + c[3] + ']' for c in v) if isinstance(v, list) else v}",
                   st.get(k) == v, str(st.get(k))[:200], key=f"structure|{cls}|{k[0]}|{k[1]}")
        chk.ob("R20.2", fi.where(), f"{cls}: wrapper returns real + i*imag", (st.get("return") or "").replace(" ", "") == "complex(resReal+1j*resImag)",
               str(st.get("return")), key=f"return|{cls}")
        ini = S.func(f"{IN}:{cls}.__init__")
        a = ini.node.args
        names = [x.arg for x in a.args]
        dfl = dict(zip(names[len(names) - len(a.defaults):], [n(d_) for d_ in a.defaults]))
        chk.ob("R20.2", ini.where(), f"{cls} declares two return values (real, imaginary)", dfl.get("returnValueCount") == "2", str(dfl), key=f"rvc|{cls}")
    fint = S.func(f"{IN}:_integrator")
    chk.touch(fint.name)
    q = [c for c in calls_in(fint.node, "quad")]
    ok = len(q) == 1 and [n(a_) for a_ in q[0].args[:3]] == ["func", "a", "b"]
    rets = [r for r in own_nodes(fint.node) if isinstance(r, ast.Return)]
    ok = ok and len(rets) == 1 and n(rets[0].value).replace(" ", "") == "float(res[0])"
    chk.ob("R20.2", fint.where(), "_integrator returns the value (element 0) of quad(func, a, b)", ok, key="integrator")
    chk.floor("R20.2", 13)


def r20_3(chk: Check):
    S = chk.src
    EP = "PotentialTools.effectivePotentialNoResum:EffectivePotentialNoResum"
    ft = S.func(f"{EP}.potentialOneLoopThermal")
    chk.touch(ft.name)
    defs = {}
    for st in sorted([x for x in own_nodes(ft.node) if isinstance(x, (ast.Assign, ast.AugAssign))], key=lambda s_: s_.lineno):
        t = st.targets[0] if isinstance(st, ast.Assign) else st.target
        defs.setdefault(n(t).strip("()"), []).append(st)
    ok = [n(s_.value) for s_ in defs.get("JbList", [])] == ["self.integrals.Jb(massSqB / temperatureSq)"] and \
        [n(s_.value) for s_ in defs.get("JfList", [])] == ["self.integrals.Jf(massSqF / temperatureSq)"]
    chk.ob("R20.3", ft.where(), "bosons go through Jb(m_B^2/T^2) and fermions through Jf(m_F^2/T^2)", ok, key="Jb-Jf-arguments")
    pot = defs.get("potential", [])
    seq = [(type(s_).__name__, n(s_.value).replace(" ", "")) for s_ in pot[:3]]
    ok = len(pot) >= 3 and seq[0] == ("Assign", "np.sum(nB*np.asarray(JbList)[...,0],axis=-1)") and \
        seq[1] == ("AugAssign", "np.sum(nF*np.asarray(JfList)[...,0],axis=-1)") and isinstance(pot[1].op, ast.Add) and \
        seq[2][1] in ("potential*temperature**4/(2*np.pi*np.pi)", "potential*temperature**4/(2*np.pi**2)")
    chk.ob("R20.3", ft.where(), "V_T = T^4/(2 pi^2) [sum_particles n_B Re Jb + sum_particles n_F Re Jf] (real parts = element 0, sum over the particle axis)", ok,
           str(seq), key="thermal-sum")
    tsq = defs.get("temperatureSq", [])
    ok = bool(tsq) and n(tsq[0].value).replace(" ", "") == "temperature**2+self.SMALL_NUMBER"
    chk.ob("R20.3", ft.where(), "the argument is m^2 / T^2 (regularised by 1e-100 only)", ok, key="argument")
    unp = {k: [n(s_.value) for s_ in v] for k, v in defs.items() if k.startswith("massSq") and "," in k}
    ok = unp.get("massSqB, nB, _, _") == ["bosons"] and unp.get("massSqF, nF, _, _") == ["fermions"]
    chk.ob("R20.3", ft.where(), "masses and multiplicities are elements 0 and 1 of the boson / fermion tuples", ok, str(unp), key="unpack")
    # Coleman-Weinberg
    fj = S.func(f"{EP}.jCW")
    chk.touch(fj.name)
    ex = Extractor(S, positive={"massSq", "rgScale"})
    v = ex.single(fj)
    m2, dof, c, mu = ex.sym("massSq"), ex.sym("degreesOfFreedom"), ex.sym("c"), ex.sym("rgScale")
    v0 = v.subs(sp.I, 0) if v.has(sp.I) else v
    ok, how = is_zero(sp.simplify(v0 - dof * m2**2 * (sp.log(m2 / mu**2) - c) / (64 * sp.pi**2)), chk.seed)
    chk.ob("R20.3", fj.where(), "jCW == n m^4 (log(m^2/mu^2) - c)/(64 pi^2)", ok, how, key="jCW", how=how)
    fo = S.func(f"{EP}.potentialOneLoop")
    chk.touch(fo.name)
    pots = sorted([x for x in own_nodes(fo.node) if isinstance(x, (ast.Assign, ast.AugAssign)) and n(x.targets[0] if isinstance(x, ast.Assign) else x.target) == "potential"],
                  key=lambda s_: s_.lineno)
    ok = len(pots) >= 2 and n(pots[0].value).replace(" ", "") == "np.sum(self.jCW(massSqB,nB,cB,rgScaleB),axis=-1)" and isinstance(pots[1], ast.AugAssign) \
        and isinstance(pots[1].op, ast.Sub) and n(pots[1].value).replace(" ", "") == "np.sum(self.jCW(massSqF,nF,cF,rgScaleF),axis=-1)"
    chk.ob("R20.3", fo.where(), "zero-temperature one-loop term: bosons enter with +, fermions with - (each with its own c and scale)", ok, key="CW-signs")
    chk.floor("R20.3", 6)


def _load_table(path):
    rows = []
    with open(path) as fh:
        for line in fh:
            line = line.strip()
            if not line:
                continue
            rows.append([float(t) for t in line.split(" ")])
    return rows


def r20_4(chk: Check):
    S = chk.src
    pkg = S.pkg / "PotentialTools"
    ini = pkg / "Config" / "PotentialToolsDefaults.ini"
    if not ini.exists():
        raise AnchorMissing("PotentialToolsDefaults.ini not found")
    import configparser
    cp = configparser.ConfigParser()
    cp.optionxform = str
    cp.read(ini)
    files = {}
    for k in ("InterpolationTable_Jb", "InterpolationTable_Jf"):
        ok = cp.has_option("DataFiles", k) and (pkg / cp.get("DataFiles", k)).exists()
        chk.ob("R20.4", f"src/WallGo/PotentialTools/Config/{ini.name}", f"[DataFiles] {k} names an existing file of the package", ok, key=f"ini|{k}")
        if ok:
            files[k] = pkg / cp.get("DataFiles", k)
    fi = S.func("PotentialTools:_initalizeIntegralInterpolations")
    chk.touch(fi.name)
    calls = [c for c in calls_in(fi.node, "readInterpolationTable")]
    pair = sorted((n(c.func).split(".")[1], n(c.args[0])) for c in calls)
    ok = len(calls) == 2 and pair[0][0] == "Jb" and "'InterpolationTable_Jb'" in pair[0][1].replace('"', "'") and pair[1][0] == "Jf" \
        and "'InterpolationTable_Jf'" in pair[1][1].replace('"', "'")
    chk.ob("R20.4", fi.where(), "the Jb object reads the Jb table and the Jf object the Jf table", ok, str(pair)[:200], key="reader-pairing")
    zero = {"InterpolationTable_Jb": -math.pi**4 / 45, "InterpolationTable_Jf": -7 * math.pi**4 / 360}
    for k, path in files.items():
        rel = f"src/WallGo/PotentialTools/{cp.get('DataFiles', k)}"
        chk.touch(rel)
        try:
            rows = _load_table(path)
        except ValueError as e:
            chk.ob("R20.4", rel, "every entry of the table parses as a number", False, str(e), key=f"parse|{k}")
            continue
        ncol = {len(r) for r in rows}
        chk.ob("R20.4", rel, "3 columns: abscissa, real part, imaginary part (1 + returnValueCount)", ncol == {3}, str(ncol), key=f"columns|{k}")
        if ncol != {3}:
            continue
        xs = [r[0] for r in rows]
        fin = all(math.isfinite(v) for r in rows for v in r)
        chk.ob("R20.4", rel, "all entries finite", fin, key=f"finite|{k}")
        inc = all(b > a for a, b in zip(xs, xs[1:]))
        chk.ob("R20.4", rel, "abscissae strictly increasing", inc, key=f"increasing|{k}")
        h = (xs[-1] - xs[0]) / (len(xs) - 1)
        uni = all(abs((b - a) - h) < 1e-6 * max(1.0, abs(h)) for a, b in zip(xs, xs[1:]))
        chk.ob("R20.4", rel, f"abscissae uniform (step {h:.6g}) and covering [-20, 1000]", uni and abs(xs[0] + 20) < 1e-9 and abs(xs[-1] - 1000) < 1e-9 and len(xs) >= 5000,
               f"{xs[0]} .. {xs[-1]}, {len(xs)} rows", key=f"range|{k}")
        imz = max((abs(r[2]) for r in rows if r[0] >= 0), default=0.0)
        chk.ob("R20.4", rel, "imaginary part is exactly zero for x >= 0", imz == 0.0, f"max |Im| = {imz}", key=f"imag-zero|{k}")
        if not (fin and inc and uni):
            continue
        # local cubic prediction of every interior row from its four neighbours (a single corrupted entry d shows up as
        # residuals d*(1/6, 4/6, 1, 4/6, 1/6)).  Windows where the functions are genuinely non-smooth are excluded:
        # |x| < 0.6 (square-root branch point) and, for Jf, the cusp of log|cos(a/2)| around x = -pi^2.
        for col, thr, what in ((1, 2e-4, "real part"), (2, 5e-2, "imaginary part (coarser: its quad evaluation is itself only accurate to ~1e-2 at isolated x)")):
            f = [r[col] for r in rows]
            worst = (0.0, None)
            for i in range(2, len(f) - 2):
                xi = xs[i]
                if abs(xi) < 0.6:
                    continue
                if k.endswith("Jf") and -math.pi**2 - 0.3 < xi < -math.pi**2 + 0.8:
                    continue
                if col == 2 and xi > -0.6:
                    continue
                pred = (-f[i - 2] + 4 * f[i - 1] + 4 * f[i + 1] - f[i + 2]) / 6.0
                res = abs(pred - f[i])
                if res > worst[0]:
                    worst = (res, xi)
            chk.ob("R20.4", rel, f"{what}: every interior row agrees with the cubic through its four neighbours to {thr:g} outside the non-smooth windows "
                   "(resolution of this lint: a localised corruption smaller than that is not seen)", worst[0] < thr,
                   f"largest residual {worst[0]:.3g} at x = {worst[1]}", key=f"smooth|{k}|{col}")
        # value at 0 from the cubic through the four rows around it
        j = max(i for i, v in enumerate(xs) if v <= 0)
        pts = [(xs[i], rows[i][1]) for i in (j - 1, j, j + 1, j + 2)]
        val = 0.0
        for a_, (xa, fa) in enumerate(pts):
            w = 1.0
            for b_, (xb, _) in enumerate(pts):
                if a_ != b_:
                    w *= (0.0 - xb) / (xa - xb)
            val += w * fa
        chk.ob("R20.4", rel, f"value at x = 0 is {'-pi^4/45' if k.endswith('Jb') else '-7 pi^4/360'} within 1e-3", abs(val - zero[k]) < 1e-3,
               f"{val:.6f} vs {zero[k]:.6f}", key=f"zero|{k}")
        xl, fl = xs[-1], rows[-1][1]
        asym = -math.sqrt(math.pi / 2) * xl**0.75 * math.exp(-math.sqrt(xl)) * (1 + 15 / (8 * math.sqrt(xl)))
        chk.ob("R20.4", rel, "last row follows the leading large-x asymptote -sqrt(pi/2) x^(3/4) e^(-sqrt x)(1 + 15/(8 sqrt x)) within 10 %",
               abs(fl - asym) <= 0.10 * abs(asym), f"{fl:.4e} vs {asym:.4e}", key=f"asymptote|{k}")
    chk.floor("R20.4", 21)


def rules(chk: Check) -> None:
    r20_1(chk)
    r20_2(chk)
    r20_3(chk)
    r20_4(chk)
