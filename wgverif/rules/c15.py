"""C15 -- full hydrodynamics and the template model agree on template equations of state.

Decided (sibling agreement at term level only -- numerical agreement over the parameter domain is NOT decided):
R15.1 boundary constants c1, c2, vMid: same form in both classes, the template's with its own equation of state   (shared with R02.3)
R15.2 fluid ODE, front condition and efficiency-factor integrand agree                                              (shared with R03.2/5/6)
R15.3 classification threshold, v- rule and the template's closed forms (vJ is the Chapman-Jouguet point)          (shared with R06.2/3/4)
R15.4 the template's alpha_n, Psi_n, sound speeds are the Thermodynamics definitions at Tn
R15.5 the template's closed forms are mutually consistent: getVp solves the alpha(v+, v-) relation used by the shooting,
      _findTm is energy-flux conservation with w ~ T^mu / T^nu, T+ = Tn w+^(1/mu)
R15.6 the manager uses the template model only to size the phase-tracing range
R15.7 both solvers are dimensionally homogeneous in Tnucl (dimension inference shared with C07)
"""
from __future__ import annotations

import ast

import sympy as sp

from ..core import AnchorMissing, Check, Undecided, calls_in, dotted, kwarg, own_nodes, src
from ..hydro import HY, TM, drop_ite, fn, hydro_extractor, n, th
from ..terms import Extractor, is_zero

LEVEL = "other"


from ..core import Remap  # noqa: E402


def r15_4(chk: Check):
    S = chk.src
    fi = S.func(f"{TM}.__init__")
    chk.touch(fi.name)
    ex = Extractor(S)
    ps = [p for p in ex.paths(fi) if p.raised is None]
    if not ps:
        raise Undecided("template __init__: no path")
    env = ps[-1].env
    Tn = ex.sym("thermodynamics.Tnucl")
    f = lambda name: sp.Function(f"thermodynamics.{name}")
    pH, pL, wH, wL = f("pHighT")(Tn), f("pLowT")(Tn), f("wHighT")(Tn), f("wLowT")(Tn)
    cb2, cs2 = f("csqLowT")(Tn), f("csqHighT")(Tn)
    # Thermodynamics.alpha at Tn with e = w - p
    fa = S.func("thermodynamics:Thermodynamics.alpha")
    chk.touch(fa.name)
    al = Extractor(S).single(fa)
    T = sp.Symbol("T", real=True)
    g = lambda name: sp.Function(name)
    al = al.replace(g("eHighT"), lambda a: g("wHighT")(a) - g("pHighT")(a)).replace(g("eLowT"), lambda a: g("wLowT")(a) - g("pLowT")(a))
    for nm in ("pHighT", "pLowT", "wHighT", "wLowT", "csqLowT"):
        al = al.replace(g(nm), lambda a, nm=nm: f(nm)(Tn))
    ok, how = is_zero(env.get("self.alN") - al, chk.seed)
    chk.ob("R15.4", fi.where(), "template alpha_n == Thermodynamics.alpha(Tn) (with e = w - p): (e+ - e- - (p+ - p-)/cb^2)/(3 w+)", ok, how, key="alN", how=how)
    ok = env.get("self.psiN") == wL / wH and env.get("self.cb2") == cb2 and env.get("self.cs2") == cs2
    chk.ob("R15.4", fi.where(), "Psi_n = w-(Tn)/w+(Tn), cb^2 = csqLowT(Tn), cs^2 = csqHighT(Tn)", ok,
           f"{env.get('self.psiN')}, {env.get('self.cb2')}, {env.get('self.cs2')}", key="psi-cs")
    ok = sp.simplify(env.get("self.nu") - (1 + 1 / cb2)) == 0 and sp.simplify(env.get("self.mu") - (1 + 1 / cs2)) == 0
    chk.ob("R15.4", fi.where(), "nu = 1 + 1/cb^2 (broken phase), mu = 1 + 1/cs^2 (symmetric phase): the exponents of Thermodynamics' own extrapolation",
           ok, f"{env.get('self.nu')}, {env.get('self.mu')}", key="exponents")
    ok = env.get("self.wN") == wH and env.get("self.pN") == pH and env.get("self.Tnucl") == Tn
    chk.ob("R15.4", fi.where(), "wN = w+(Tn), pN = p+(Tn), Tnucl taken from the same thermodynamics object", ok, key="wN-pN")
    chk.floor("R15.4", 4)


def r15_5(chk: Check):
    S = chk.src
    ex = hydro_extractor(S, positive={"self.cb2", "self.mu", "self.nu", "self.Tnucl", "self.psiN"})
    fg = S.func(f"{TM}.getVp")
    chk.touch(fg.name)
    vm, alp = sp.Symbol("vm", positive=True), sp.Symbol("al", positive=True)
    cb2 = ex.sym("self.cb2")
    for branch in (-1, 1):
        v = ex.single(fg, {"vm": vm, "al": alp, "branch": sp.Integer(branch)})
        v = v.replace(sp.Max, lambda *a: [x for x in a if x != 0][0])   # discriminant assumed non-negative
        rel = (v / vm - 1) * (v * vm / cb2 - 1) / (1 - v**2) / 3 - alp
        ok, how = is_zero(sp.simplify(rel), chk.seed)
        chk.ob("R15.5", fg.where(), f"getVp(branch={branch:+d}) solves alpha+ = (v+/v- - 1)(v+ v-/cb^2 - 1)/(3 (1 - v+^2)), the relation used by the shooting",
               ok, how, key=f"getVp|{branch}", how=how)
    # alpha relation at the three places it is coded
    forms = []
    for q in ("_shooting", "findMatching", "matchDeflagOrHybInitial"):
        f_ = S.func(f"{TM}.{q}")
        chk.touch(f_.name)
        for st in own_nodes(f_.node):
            if isinstance(st, (ast.Assign, ast.AnnAssign)) and st.value is not None:
                t = st.targets[0] if isinstance(st, ast.Assign) else st.target
                if n(t) in ("al", "alp") and "vp" in n(st.value) and "vm" in n(st.value):
                    e = Extractor(S).expr(st.value, {"__module__": "hydrodynamicsTemplateModel", "__class__": "HydrodynamicsTemplateModel"})
                    forms.append((q, e, f_))
    vpS, vmS = sp.Symbol("vp", real=True), sp.Symbol("vm", real=True)
    ref = (vpS / vmS - 1) * (vpS * vmS / sp.Symbol("self.cb2", real=True) - 1) / (1 - vpS**2) / 3
    for q, e, f_ in forms:
        ok, how = is_zero(e - ref, chk.seed)
        chk.ob("R15.5", f_.where(), f"{q}: alpha+(v+, v-) has the same form as in the other template routines", ok, how, key=f"alpha-form|{q}", how=how)
    if len(forms) < 3:
        raise AnchorMissing("template: alpha(v+, v-) relation not found at its three sites")
    # _findTm: energy flux conservation with w+ = (T/Tn)^mu, w- = Psi (T/Tn)^nu (units w+(Tn) = 1)
    ft = S.func(f"{TM}._findTm")
    chk.touch(ft.name)
    Tm = ex.single(ft)
    vm_, vp_, Tp_ = ex.sym("vm"), ex.sym("vp"), ex.sym("Tp")
    Tn, mu, nu, psi = ex.sym("self.Tnucl"), ex.sym("self.mu"), ex.sym("self.nu"), ex.sym("self.psiN")
    P = {s_: sp.Symbol(s_.name.replace(".", "_") + "P", positive=True) for s_ in (vm_, vp_, Tp_, Tn, mu, nu, psi)}
    TmP = Tm.subs(P)
    wp = (P[Tp_] / P[Tn]) ** P[mu]
    wm = P[psi] * (TmP / P[Tn]) ** P[nu]
    flux = wp * P[vp_] / (1 - P[vp_] ** 2) - wm * P[vm_] / (1 - P[vm_] ** 2)
    ok, how = is_zero(sp.simplify(sp.powsimp(sp.expand_power_base(flux, force=True), force=True)), chk.seed,
                      ranges={P[vm_]: (0, 1), P[vp_]: (0, 1), P[mu]: (3, 5), P[nu]: (3, 5)})
    chk.ob("R15.5", ft.where(), "_findTm: T- makes the energy flux w gamma^2 v continuous with w+ = (T+/Tn)^mu, w- = Psi_n (T-/Tn)^nu", ok, how, key="findTm", how=how)
    # T+ from w+: Tp = Tn * wp**(1/mu) at both sites
    cnt = 0
    for q in ("findMatching", "matchDeflagOrHybInitial"):
        f_ = S.func(f"{TM}.{q}")
        for st in own_nodes(f_.node):
            if isinstance(st, ast.Assign) and n(st.targets[0]) == "Tp":
                e = Extractor(S).expr(st.value, {"__module__": "hydrodynamicsTemplateModel", "__class__": "HydrodynamicsTemplateModel"})
                ok, how = is_zero(e - sp.Symbol("self.Tnucl", real=True) * sp.Symbol("wp", real=True) ** (1 / sp.Symbol("self.mu", real=True)), chk.seed)
                cnt += 1
                chk.ob("R15.5", f_.where(st), f"{q}: T+ = Tn w+^(1/mu) (inverse of w+ = (T+/Tn)^mu)", ok, how, key=f"Tp|{q}", how=how)
    # efficiencyFactor: wp = (Tp/Tn)**mu, wm from flux conservation
    fe = S.func(f"{TM}.efficiencyFactor")
    d = {n(st.targets[0]): st.value for st in own_nodes(fe.node) if isinstance(st, ast.Assign) and isinstance(st.targets[0], ast.Name)}
    exx = hydro_extractor(S)
    envx = {"__module__": "hydrodynamicsTemplateModel", "__class__": "HydrodynamicsTemplateModel"}
    ok1 = "wp" in d and is_zero(exx.expr(d["wp"], envx) - (exx.sym("Tp") / exx.sym("self.Tnucl")) ** exx.sym("self.mu"))[0]
    wm_e = exx.expr(d["wm"], dict(envx, wp=exx.sym("wp"))) if "wm" in d else None
    ok2 = wm_e is not None and is_zero(wm_e - exx.sym("wp") * exx.sym("vp") / (1 - exx.sym("vp") ** 2) * (1 - exx.sym("vm") ** 2) / exx.sym("vm"))[0]
    chk.ob("R15.5", fe.where(), "efficiencyFactor: w+ = (T+/Tn)^mu and w- = w+ gamma+^2 v+ / (gamma-^2 v-) (energy flux)", bool(ok1 and ok2), key="kappa-enthalpies")
    # bracket trimming in findMatching: the v+ at which the template enthalpy w+(alpha+) changes sign solves (1 - 3 alpha+(v+, v-)) mu = nu
    ff = S.func(f"{TM}.findMatching")
    exf = hydro_extractor(S, positive={"self.mu", "self.nu", "vm"})
    d_ = {}
    for st in sorted([x for x in ast.walk(ff.node) if isinstance(x, ast.Assign) and isinstance(x.targets[0], ast.Name)], key=lambda s_: s_.lineno):
        d_.setdefault(st.targets[0].id, st.value)
    okw = None
    howw = "vpSignChangeWp / sqrtDisc not found"
    if "vpSignChangeWp" in d_ and "sqrtDisc" in d_:
        envf = {"__module__": "hydrodynamicsTemplateModel", "__class__": "HydrodynamicsTemplateModel"}
        disc = exf.expr(d_["sqrtDisc"], dict(envf))
        vps = exf.expr(d_["vpSignChangeWp"], dict(envf, sqrtDisc=disc))
        mu_, nu_, vmm = exf.sym("self.mu"), exf.sym("self.nu"), exf.sym("vm")
        cb2_ = 1 / (nu_ - 1)
        alp = (vps / vmm - 1) * (vps * vmm / cb2_ - 1) / (1 - vps**2) / 3
        okw, howw = is_zero(sp.simplify((1 - 3 * alp) * mu_ - nu_), chk.seed, ranges={vmm: (0, 1), mu_: (4, 5), nu_: (4, 5)})
    chk.ob("R15.5", ff.where(), "findMatching: the bracket cut `vpSignChangeWp` is the v+ where the template enthalpy changes sign, i.e. it solves "
           "(1 - 3 alpha+(v+, v-)) mu == nu with cb^2 = 1/(nu - 1)", okw, howw, key="wp-sign-change", how=howw)
    chk.floor("R15.5", 10)


def r15_6(chk: Check):
    S = chk.src
    mgr = S.cls("manager:WallGoManager")
    users = []
    for name, f_ in mgr.methods.items():
        if any(isinstance(x, ast.Name) and x.id == "HydrodynamicsTemplateModel" for x in ast.walk(f_.node)) or \
                any(isinstance(x, ast.Attribute) and x.attr == "template" for x in ast.walk(f_.node)):
            users.append(name)
    chk.ob("R15.6", "src/WallGo/manager.py", "the manager touches the template model only in initTemperatureRange (to size the phase-tracing range)",
           users == ["initTemperatureRange"], str(users), key="manager-template-use")
    fr = S.func("manager:WallGoManager.initTemperatureRange")
    chk.touch(fr.name)
    c = [x for x in calls_in(fr.node, "findMatching")]
    ok = len(c) == 2 and all(n(x.func) == "hydrodynamicsTemplate.findMatching" for x in c)
    chk.ob("R15.6", fr.where(), "it uses the template matching at 0.99 vJ and at 1e-3 to bound T+ and T-", ok, key="range-estimates")
    # full solver seeds its 2x2 solve from the template (initial guess only) and falls back to it only when no root is bracketed
    fm = S.func(f"{HY}.matchDeflagOrHyb")
    c = [x for x in calls_in(fm.node, "matchDeflagOrHybInitial")]
    ok = len(c) == 1
    chk.ob("R15.6", fm.where(), "Hydrodynamics.matchDeflagOrHyb uses the template only for the initial guess of (T+, T-)", ok, key="initial-guess")
    chk.floor("R15.6", 3)


def rules(chk: Check) -> None:
    from . import c02, c03, c06
    c02.r02_3(Remap(chk, {"R02.3": "R15.1"}))
    c03.r03_2(Remap(chk, {"R03.2": "R15.2"}))
    ex, out = c03.r03_1(Remap(chk, {}))
    c03.r03_6(Remap(chk, {"R03.6": "R15.2"}), ex, out)
    c03.r03_45(Remap(chk, {"R03.5": "R15.2"}))
    c06.r06_2(Remap(chk, {"R06.2": "R15.3"}))
    c06.r06_3(Remap(chk, {"R06.3": "R15.3"}, only=lambda r, k, w: k in ("class|Hydrodynamics", "class|template")))
    c06.r06_4(Remap(chk, {"R06.4": "R15.3"}))
    r15_4(chk)
    r15_5(chk)
    r15_6(chk)
    # both solvers are dimensionally homogeneous in the nucleation temperature (agreement 'for every Tn over five decades')
    from ..dimtable import TABLE
    from ..kinds import KindInference
    K = KindInference(chk.src, TABLE)
    bad = []
    nfun = 0
    for m_ in ("hydrodynamics", "hydrodynamicsTemplateModel"):
        for fi in chk.src.module(m_).funcs.values():
            if fi.parent is None:
                b0 = len(K.reports)
                K.analyse(fi)
                nfun += 1
                for r_ in K.reports[b0:]:
                    if r_.kind in ("conflict", "sink", "transcendental"):
                        bad.append((fi, r_))
    chk.ob("R15.7", "src/WallGo/hydrodynamics.py", f"both hydrodynamics classes are dimensionally homogeneous ({K.typed_nodes} typed expression nodes in {nfun} "
           "functions): every temperature bound scales with Tnucl, so agreement at one Tn carries over to all", not bad,
           "; ".join(f"{fi.qual} line {getattr(r_.node, 'lineno', '?')}: {r_.text}" for fi, r_ in bad)[:400], key="homogeneous-in-Tn")
    chk.floor("R15.7", 1)
    chk.floor("R15.1", 7)
    chk.floor("R15.2", 17)
    chk.floor("R15.3", 12)
