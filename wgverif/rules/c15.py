"""C15 -- full hydrodynamics and the template model agree on template equations of state.

Decided (sibling agreement at term level only -- numerical agreement over the parameter domain is NOT decided):
R15.1 boundary constants c1, c2, vMid: same form in both classes, the template's with its own equation of state   (shared with R02.3)
R15.2 fluid ODE, front condition and efficiency-factor integrand agree                                              (shared with R03.2/5/6)
R15.3 classification threshold, v- rule and the template's closed forms (vJ is the Chapman-Jouguet point)          (shared with R06.2/3/4)
R15.4 the template's alpha_n, Psi_n, sound speeds are the Thermodynamics definitions at Tn
R15.5 the template's closed forms are mutually consistent: getVp solves the alpha(v+, v-) relation used by the shooting,
      _findTm is energy-flux conservation with w ~ T^mu / T^nu, T+ = Tn w+^(1/mu)
R15.6 the manager uses the template model only to size the phase-tracing range
R15.7 both solvers are dimensionally homogeneous in Tnucl (dimension inference shared with C07)
"""
from __future__ import annotations

import ast
import copy

import sympy as sp

from ..core import AnchorMissing, Check, FuncInfo, Undecided, calls_in, dotted, kwarg, own_nodes, src
from ..hydro import HY, TM, drop_ite, fn, hydro_extractor, n, th
from ..nf import Ctx, eqx, has, match
from ..terms import Extractor, is_zero

LEVEL = "other"
TENV = {"__module__": "hydrodynamicsTemplateModel", "__class__": "HydrodynamicsTemplateModel"}


from ..core import Remap  # noqa: E402


# ------------------------------------------------------------------------------------------------ roles (no local is addressed by its spelling)


def _params(fi) -> list:
    return [a.arg for a in fi.node.args.args if a.arg not in ("self", "cls")]


def _target_name(st):
    t = st.targets[0] if isinstance(st, ast.Assign) and len(st.targets) == 1 else st.target if isinstance(st, ast.AnnAssign) else None
    return t.id if isinstance(t, ast.Name) else None


def _defs_of(fnode, name: str) -> list:
    """all plain assignments `name = value` of a function (own scope)"""
    return [st for st in own_nodes(fnode) if isinstance(st, (ast.Assign, ast.AnnAssign)) and st.value is not None and _target_name(st) == name]


def _definition(cx: Ctx, e):
    """the expression a chain of single-assignment temporaries stands for (node identity is kept)"""
    defs = cx.local_defs()
    for _ in range(8):
        if isinstance(e, ast.Name) and e.id in defs:
            e = defs[e.id]
        else:
            break
    return e


def _vminus_names(f_, cx: Ctx) -> set:
    """locals holding v- = min(cb, vw) of a template routine"""
    prm = _params(f_)
    out = set()
    for st in own_nodes(f_.node):
        if isinstance(st, (ast.Assign, ast.AnnAssign)) and st.value is not None and _target_name(st):
            for pat in (f"min(self.cb, {prm[0]})", f"min({prm[0]}, self.cb)"):
                if prm and eqx(st.value, pat, cx):
                    out.add(_target_name(st))
    return out


def _matching_canon(S, fi, e, producer: str = "findMatching"):
    """copy of expression e (of function fi) in which every sub-expression that denotes element k of the tuple returned by self.<producer>(..)
    -- an unpacked name, `matching[k]`, `self.<producer>(..)[k]`, a copy of one of these -- is the name `matching__k`"""
    from .c06 import _elem

    def canon(x):
        el = _elem(S, fi, x) if isinstance(x.ctx, ast.Load) else None
        if el is not None and el[0] == producer:
            return ast.copy_location(ast.Name(id=f"matching__{el[2]}", ctx=ast.Load()), x)
        return None

    class T(ast.NodeTransformer):
        def visit_Subscript(self, x):
            return canon(x) or self.generic_visit(x)

        def visit_Name(self, x):
            return canon(x) or x

    return T().visit(copy.deepcopy(e))


def _term(S, node):
    """term of an expression of the template class (None when outside the translator's subset)"""
    from ..core import AnalysisError
    try:
        return Extractor(S).expr(node, dict(TENV))
    except AnalysisError:
        return None


def _vplus_names(f_, cx: Ctx) -> set:
    """names standing for v+ in a template routine f(vw, vp, ...) / f(vw): its second parameter, or the local holding the root of the
    shooting search for v+"""
    prm = _params(f_)
    out = set(prm[1:2])
    for nm, v in cx.local_defs().items():
        v = _definition(cx, v)
        if isinstance(v, ast.Attribute) and v.attr == "root":
            c = _definition(cx, v.value)
            if isinstance(c, ast.Call) and (dotted(c.func) or "").split(".")[-1] == "root_scalar":
                out.add(nm)
    return out


def _exponents_inlined(S, fi) -> FuncInfo:
    """copy of a function in which single-assignment temporaries occurring in an exponent are replaced by their definition
    (the dimension inference reads symbolic exponents off the expression; `e = 1 / self.nu; x ** e` must be read like `x ** (1 / self.nu)`)"""
    cx = Ctx(S, fi)
    defs = cx.local_defs()
    if not defs:
        return fi

    class T(ast.NodeTransformer):
        def visit_BinOp(self, x):
            self.generic_visit(x)
            if isinstance(x.op, ast.Pow) and any(isinstance(y, ast.Name) and y.id in defs for y in ast.walk(x.right)):
                new = ast.BinOp(left=x.left, op=ast.Pow(), right=cx.resolve(x.right))
                ast.copy_location(new, x)
                ast.fix_missing_locations(new)
                return new
            return x

    node = T().visit(copy.deepcopy(fi.node))
    ast.fix_missing_locations(node)
    return FuncInfo(fi.module, fi.qual, node, fi.cls, fi.parent)


def r15_4(chk: Check):
    S = chk.src
    fi = S.func(f"{TM}.__init__")
    chk.touch(fi.name)
    ex = Extractor(S)
    ps = [p for p in ex.paths(fi) if p.raised is None]
    if not ps:
        raise Undecided("template __init__: no path")
    env = ps[-1].env
    prm = _params(fi)
    if not prm:
        raise AnchorMissing("template __init__: thermodynamics parameter not found")
    TH = prm[0]
    Tn = ex.sym(f"{TH}.Tnucl")
    f = lambda name: sp.Function(f"{TH}.{name}")
    pH, pL, wH, wL = f("pHighT")(Tn), f("pLowT")(Tn), f("wHighT")(Tn), f("wLowT")(Tn)
    cb2, cs2 = f("csqLowT")(Tn), f("csqHighT")(Tn)
    # Thermodynamics.alpha at Tn with e = w - p
    fa = S.func("thermodynamics:Thermodynamics.alpha")
    chk.touch(fa.name)
    al = Extractor(S).single(fa)
    g = lambda name: sp.Function(name)
    al = al.replace(g("eHighT"), lambda a: g("wHighT")(a) - g("pHighT")(a)).replace(g("eLowT"), lambda a: g("wLowT")(a) - g("pLowT")(a))
    for nm in ("pHighT", "pLowT", "wHighT", "wLowT", "csqLowT"):
        al = al.replace(g(nm), lambda a, nm=nm: f(nm)(Tn))
    ok, how = is_zero(env.get("self.alN") - al, chk.seed)
    chk.ob("R15.4", fi.where(), "template alpha_n == Thermodynamics.alpha(Tn) (with e = w - p): (e+ - e- - (p+ - p-)/cb^2)/(3 w+)", ok, how, key="alN", how=how)
    same = lambda a, b: isinstance(a, sp.Basic) and sp.simplify(a - b) == 0
    ok = same(env.get("self.psiN"), wL / wH) and same(env.get("self.cb2"), cb2) and same(env.get("self.cs2"), cs2)
    chk.ob("R15.4", fi.where(), "Psi_n = w-(Tn)/w+(Tn), cb^2 = csqLowT(Tn), cs^2 = csqHighT(Tn)", ok,
           f"{env.get('self.psiN')}, {env.get('self.cb2')}, {env.get('self.cs2')}", key="psi-cs")
    ok = same(env.get("self.nu"), 1 + 1 / cb2) and same(env.get("self.mu"), 1 + 1 / cs2)
    chk.ob("R15.4", fi.where(), "nu = 1 + 1/cb^2 (broken phase), mu = 1 + 1/cs^2 (symmetric phase): the exponents of Thermodynamics' own extrapolation",
           ok, f"{env.get('self.nu')}, {env.get('self.mu')}", key="exponents")
    ok = same(env.get("self.wN"), wH) and same(env.get("self.pN"), pH) and same(env.get("self.Tnucl"), Tn)
    chk.ob("R15.4", fi.where(), "wN = w+(Tn), pN = p+(Tn), Tnucl taken from the same thermodynamics object", ok, key="wN-pN")
    chk.floor("R15.4", 4)


def r15_5(chk: Check):
    S = chk.src
    ex = hydro_extractor(S, positive={"self.cb2", "self.mu", "self.nu", "self.Tnucl", "self.psiN"})
    fg = S.func(f"{TM}.getVp")
    chk.touch(fg.name)
    pg = _params(fg)
    if len(pg) != 3:
        raise AnchorMissing("template getVp: expected parameters (vm, al, branch)")
    vm, alp = sp.Symbol("vm", positive=True), sp.Symbol("al", positive=True)
    cb2 = ex.sym("self.cb2")
    for branch in (-1, 1):
        v = ex.single(fg, {pg[0]: vm, pg[1]: alp, pg[2]: sp.Integer(branch)})
        v = v.replace(sp.Max, lambda *a: [x for x in a if x != 0][0])   # discriminant assumed non-negative
        rel = (v / vm - 1) * (v * vm / cb2 - 1) / (1 - v**2) / 3 - alp
        ok, how = is_zero(sp.simplify(rel), chk.seed)
        chk.ob("R15.5", fg.where(), f"getVp(branch={branch:+d}) solves alpha+ = (v+/v- - 1)(v+ v-/cb^2 - 1)/(3 (1 - v+^2)), the relation used by the shooting",
               ok, how, key=f"getVp|{branch}", how=how)
    # alpha relation at the three places it is coded: the arithmetic definition of the strength handed to wFromAlpha
    forms = []
    cbs = sp.Symbol("self.cb2", real=True)
    for q in ("_shooting", "findMatching", "matchDeflagOrHybInitial"):
        f_ = S.func(f"{TM}.{q}")
        chk.touch(f_.name)
        cq = Ctx(S, f_)
        VM = _vminus_names(f_, cq)
        VP = _vplus_names(f_, cq)
        for c in calls_in(f_.node, "self.wFromAlpha"):
            a = kwarg(c, "al", 0)
            cands = [a] if a is not None and not isinstance(a, ast.Name) else [st.value for st in _defs_of(f_.node, a.id)] if a is not None else []
            for v in cands:
                if any(isinstance(y, ast.Call) and (dotted(y.func) or "").endswith("solveAlpha") for y in ast.walk(v)):
                    continue          # alpha determined by the entropy condition, not by (v+, v-)
                # as written, then with temporaries / extracted helpers looked through level by level
                es = [_term(S, v)] + [_term(S, cq.resolve(v, keep=VM, maxdepth=d_)) for d_ in (1, 2, 3)]
                forms.append((q, es, f_, VM, VP))
    for q, es, f_, VM, VP in forms:
        ok, how = False, "not a function of (v+, v-) only"
        for e in es:
            if ok or not isinstance(e, sp.Basic):
                continue
            free = sorted(e.free_symbols - {cbs}, key=str)
            vms = [s_ for s_ in free if s_.name in VM]
            vps_ = [s_ for s_ in free if s_.name in VP]
            if len(free) == 2 and len(vms) == 1 and len(vps_) == 1 and vps_[0] is not vms[0]:
                vmS, vpS = vms[0], vps_[0]
                ref = (vpS / vmS - 1) * (vpS * vmS / cbs - 1) / (1 - vpS**2) / 3
                ok, how = is_zero(e - ref, chk.seed)
        chk.ob("R15.5", f_.where(), f"{q}: alpha+(v+, v-) has the same form as in the other template routines", ok, how, key=f"alpha-form|{q}", how=how)
    if len(forms) < 3:
        raise AnchorMissing("template: alpha(v+, v-) relation not found at its three sites")
    # _findTm: energy flux conservation with w+ = (T/Tn)^mu, w- = Psi (T/Tn)^nu (units w+(Tn) = 1)
    ft = S.func(f"{TM}._findTm")
    chk.touch(ft.name)
    pt = _params(ft)
    if len(pt) != 3:
        raise AnchorMissing("template _findTm: expected parameters (vm, vp, Tp)")
    Tm = ex.single(ft)
    vm_, vp_, Tp_ = (ex.sym(p) for p in pt)
    Tn, mu, nu, psi = ex.sym("self.Tnucl"), ex.sym("self.mu"), ex.sym("self.nu"), ex.sym("self.psiN")
    P = {s_: sp.Symbol(s_.name.replace(".", "_") + "P", positive=True) for s_ in (vm_, vp_, Tp_, Tn, mu, nu, psi)}
    TmP = Tm.subs(P)
    wp = (P[Tp_] / P[Tn]) ** P[mu]
    wm = P[psi] * (TmP / P[Tn]) ** P[nu]
    flux = wp * P[vp_] / (1 - P[vp_] ** 2) - wm * P[vm_] / (1 - P[vm_] ** 2)
    ok, how = is_zero(sp.simplify(sp.powsimp(sp.expand_power_base(flux, force=True), force=True)), chk.seed,
                      ranges={P[vm_]: (0, 1), P[vp_]: (0, 1), P[mu]: (3, 5), P[nu]: (3, 5)})
    chk.ob("R15.5", ft.where(), "_findTm: T- makes the energy flux w gamma^2 v continuous with w+ = (T+/Tn)^mu, w- = Psi_n (T-/Tn)^nu", ok, how, key="findTm", how=how)
    # T+ from w+: Tp = Tn * wp**(1/mu) at both sites: T+ is what is handed to _findTm as Tp, w+ is what wFromAlpha returned
    for q in ("findMatching", "matchDeflagOrHybInitial"):
        f_ = S.func(f"{TM}.{q}")
        cq = Ctx(S, f_)
        W = {_target_name(st) for st in own_nodes(f_.node) if isinstance(st, (ast.Assign, ast.AnnAssign)) and st.value is not None and _target_name(st)
             and isinstance(st.value, ast.Call) and eqx(st.value.func, "self.wFromAlpha")}
        for c in calls_in(f_.node, "self._findTm"):
            a = kwarg(c, pt[2], 2)
            sts = _defs_of(f_.node, a.id) if isinstance(a, ast.Name) else []
            for st in sts:
                e = _term(S, cq.resolve(st.value, keep=W))
                ok, how = False, "w+ (result of wFromAlpha) not found"
                if len(W) == 1 and isinstance(e, sp.Basic):
                    ok, how = is_zero(e - sp.Symbol("self.Tnucl", real=True) * sp.Symbol(next(iter(W)), real=True) ** (1 / sp.Symbol("self.mu", real=True)), chk.seed)
                chk.ob("R15.5", f_.where(st), f"{q}: T+ = Tn w+^(1/mu) (inverse of w+ = (T+/Tn)^mu)", ok, how, key=f"Tp|{q}", how=how)
    # efficiencyFactor: wp = (Tp/Tn)**mu, wm from flux conservation: the enthalpies handed to the two integrations
    from .c03 import records_written_out
    from .c06 import written_out
    fe = written_out(S, records_written_out(S, S.func(f"{TM}.efficiencyFactor")))      # (a loop over the two waves is written out case by case; records as tuples)
    ce = Ctx(S, fe)
    exx = hydro_extractor(S)
    ips = calls_in(fe.node, "self.integratePlasma")
    sh = [c for c in ips if kwarg(c, "shockWave", 3) is None or eqx(kwarg(c, "shockWave", 3), "True", ce)]
    ra = [c for c in ips if kwarg(c, "shockWave", 3) is not None and eqx(kwarg(c, "shockWave", 3), "False", ce)]
    ok1 = ok2 = False
    if len(sh) == 1 and len(ra) == 1:
        # (v+, v-, T+) are elements 0, 1, 2 of the tuple returned by findMatching, whether it is unpacked or addressed by index
        vpS, vmS, TpS = (exx.sym(f"matching__{k}") for k in range(3))
        wpa, wma = kwarg(sh[0], "wp", 2), kwarg(ra[0], "wp", 2)
        WPn = wpa.id if isinstance(wpa, ast.Name) else None
        wp_e = exx.expr(_matching_canon(S, fe, ce.resolve(wpa)), dict(TENV)) if wpa is not None else None
        ok1 = isinstance(wp_e, sp.Basic) and is_zero(wp_e - (TpS / exx.sym("self.Tnucl")) ** exx.sym("self.mu"))[0]
        keep = {WPn} if WPn else set()
        wm_e = exx.expr(_matching_canon(S, fe, ce.resolve(wma, keep=keep)), dict(TENV)) if wma is not None else None
        wps = exx.sym(WPn) if WPn else wp_e
        ok2 = isinstance(wm_e, sp.Basic) and wps is not None and is_zero(wm_e - wps * vpS / (1 - vpS ** 2) * (1 - vmS ** 2) / vmS)[0]
        if not ok2 and isinstance(wp_e, sp.Basic) and wma is not None:
            # ... or, with every temporary looked through, in terms of the value that is handed over as w+ (both enthalpies may be defined from a
            # common temporary instead of w- from the local holding w+)
            wm_f = exx.expr(_matching_canon(S, fe, ce.resolve(wma)), dict(TENV))
            ok2 = isinstance(wm_f, sp.Basic) and is_zero(wm_f - wp_e * vpS / (1 - vpS ** 2) * (1 - vmS ** 2) / vmS)[0]
    chk.ob("R15.5", fe.where(), "efficiencyFactor: w+ = (T+/Tn)^mu and w- = w+ gamma+^2 v+ / (gamma-^2 v-) (energy flux)", bool(ok1 and ok2), key="kappa-enthalpies")
    # bracket trimming in findMatching: the v+ at which the template enthalpy w+(alpha+) changes sign solves (1 - 3 alpha+(v+, v-)) mu = nu
    ff = S.func(f"{TM}.findMatching")
    cf = Ctx(S, ff)
    exf = hydro_extractor(S, positive={"self.mu", "self.nu", "vm"})
    okw = None
    howw = "the cut of the upper bracket end (`vpMax = <v+ of the sign change> - eps`) not found"
    VM = _vminus_names(ff, cf)
    cut = None
    for c in calls_in(ff.node, "root_scalar"):
        br = kwarg(c, "bracket", 3)
        br = _definition(cf, br) if br is not None else None
        hi = br.elts[1] if isinstance(br, (ast.Tuple, ast.List)) and len(br.elts) == 2 else None
        if isinstance(hi, ast.Name):
            for st in _defs_of(ff.node, hi.id):
                v = st.value
                if isinstance(v, ast.BinOp) and isinstance(v.op, ast.Sub) and isinstance(v.right, ast.Constant) and isinstance(v.right.value, float) and 0 < v.right.value < 1e-6:
                    cut = v.left
    if cut is not None and len(VM) == 1:
        vps = exf.expr(cf.resolve(cut, keep=VM), dict(TENV))
        mu_, nu_, vmm = exf.sym("self.mu"), exf.sym("self.nu"), sp.Symbol("vm", positive=True)
        if isinstance(vps, sp.Basic):
            vps = vps.subs(exf.sym(next(iter(VM))), vmm)
            cb2_ = 1 / (nu_ - 1)
            alp = (vps / vmm - 1) * (vps * vmm / cb2_ - 1) / (1 - vps**2) / 3
            okw, howw = is_zero(sp.simplify((1 - 3 * alp) * mu_ - nu_), chk.seed, ranges={vmm: (0, 1), mu_: (4, 5), nu_: (4, 5)})
    chk.ob("R15.5", ff.where(), "findMatching: the bracket cut `vpSignChangeWp` is the v+ where the template enthalpy changes sign, i.e. it solves "
           "(1 - 3 alpha+(v+, v-)) mu == nu with cb^2 = 1/(nu - 1)", okw, howw, key="wp-sign-change", how=howw)
    # maxAl re-implements the wall residual at vw = vJ: its residual must be _eqWall's with v- = cb, the v+ it computes, and (alpha+, w+) related by wFromAlpha
    fmx = S.func(f"{TM}.maxAl")
    few = S.func(f"{TM}._eqWall")
    chk.touch(fmx.name, few.name)
    nested = [f for f in S.modules[fmx.module].funcs.values() if f.parent is fmx and any(True for _ in calls_in(f.node, "findJouguetVelocity"))]
    if len(nested) != 1:
        # ... or the function whose root maxAl searches, when it is not a closure of maxAl: a method / module-level function, possibly with
        # parameters bound by functools.partial (c03: callables by role)
        from .c03 import _by_role
        rs_ = calls_in(fmx.node, "root_scalar")
        try:
            cand = _by_role(S, f"{TM}.maxAl", fmx, rs_, "f", 0, "function whose root is searched").fi if rs_ else None
        except AnchorMissing:
            cand = None
        if cand is not None and any(True for _ in calls_in(cand.node, "findJouguetVelocity")):
            nested = [cand]
    okm, howm = None, "the nested residual of maxAl (the function evaluated at vw = findJouguetVelocity(alpha_n)) not found"
    pe = _params(few)
    if len(nested) == 1 and len(pe) == 3:
        fr = nested[0]
        cr = Ctx(S, fr)
        prm = _params(fr)
        rets = [r for r in own_nodes(fr.node) if isinstance(r, ast.Return)]
        wname = vpname = None
        for st in own_nodes(fr.node):
            if isinstance(st, (ast.Assign, ast.AnnAssign)) and st.value is not None and _target_name(st):
                b = match(st.value, "self.psiN * __w ** (self.nu / self.mu - 1)")
                if b:
                    wname = b["w"]
                if match(st.value, "self.cs2 / __vw") and not isinstance(st.value, ast.Name):
                    vpname = _target_name(st)
        if len(rets) == 1 and len(prm) == 1 and wname and vpname:
            plain = Extractor(S)
            Mt = plain.expr(cr.resolve(rets[0].value, keep={wname, vpname}), dict(TENV))
            a_, v_ = sp.Symbol("al_", real=True), sp.Symbol("vm_", real=True)
            Et = plain.single(few, {pe[0]: a_, pe[1]: v_, pe[2]: sp.Integer(-1)})
            if isinstance(Mt, sp.Basic) and isinstance(Et, sp.Basic):
                w_, vp_s, alN_ = plain.sym(wname), plain.sym(vpname), plain.sym(prm[0])
                mu_, nu_ = plain.sym("self.mu"), plain.sym("self.nu")
                Et = Et.replace(lambda x: isinstance(x, sp.core.function.AppliedUndef) and x.func.__name__.endswith("getVp"), lambda x: vp_s)
                Et = Et.replace(lambda x: isinstance(x, sp.core.function.AppliedUndef) and x.func.__name__.endswith("wFromAlpha"), lambda x: w_)
                # alpha+ as a function of w+: inverse of wFromAlpha (w+ = ((1 - 3 alpha_n) mu - nu) / ((1 - 3 alpha+) mu - nu))
                A = (1 - (nu_ + ((1 - 3 * alN_) * mu_ - nu_) / w_) / mu_) / 3
                closure_vm = plain.expr(cr.resolve(ast.parse("vm", mode="eval").body), dict(TENV)) if False else None
                # v- of the residual: the closure variable of maxAl, which must be the sound speed behind the wall
                cm = Ctx(S, fmx)
                # (a local that is defined once as `self.cb` -- in maxAl, or at the top of a residual that receives v- as a bound parameter -- is
                # self.cb, whether or not it was looked through; the term identity below decides whether v- of the residual is the sound speed)
                cbS = plain.sym("self.cb")
                for f_, c_ in ((fmx, cm), (fr, cr)):
                    for st in own_nodes(f_.node):
                        if isinstance(st, (ast.Assign, ast.AnnAssign)) and st.value is not None and eqx(st.value, "self.cb") and _target_name(st) in c_.local_defs():
                            Mt = Mt.subs(plain.sym(_target_name(st)), cbS)
                Es = Et.subs({a_: A, v_: cbS}, simultaneous=True)
                okm, howm = is_zero(sp.simplify(Mt - Es), chk.seed, ranges={w_: (0.5, 2), vp_s: (0.1, 0.9), cbS: (0.1, 0.9), mu_: (4, 5), nu_: (4, 5), alN_: (0.01, 0.3)})
                if not okm and cbS not in Mt.free_symbols:
                    howm = "v- of the residual is not the sound speed behind the wall (self.cb)"
    chk.ob("R15.5", fmx.where(), "maxAl: the residual evaluated at vw = vJ is the wall residual _eqWall with v- = cb, its own v+ and (alpha+, w+) related by "
           "wFromAlpha (same exponents and coefficients)", okm, howm, key="maxAl-residual", how=howm if okm else "")
    chk.floor("R15.5", 10)


def r15_6(chk: Check):
    S = chk.src
    mgr = S.cls("manager:WallGoManager")
    users = []
    for name, f_ in mgr.methods.items():
        if any(isinstance(x, ast.Name) and x.id == "HydrodynamicsTemplateModel" for x in ast.walk(f_.node)) or \
                any(isinstance(x, ast.Attribute) and x.attr == "template" for x in ast.walk(f_.node)):
            users.append(name)
    chk.ob("R15.6", "src/WallGo/manager.py", "the manager touches the template model only in initTemperatureRange (to size the phase-tracing range)",
           users == ["initTemperatureRange"], str(users), key="manager-template-use")
    fr = S.func("manager:WallGoManager.initTemperatureRange")
    chk.touch(fr.name)
    cr = Ctx(S, fr)
    c = [x for x in calls_in(fr.node, "findMatching")]

    def on_template(x) -> bool:
        v = _definition(cr, x.func.value) if isinstance(x.func, ast.Attribute) else None
        return isinstance(v, ast.Call) and eqx(v.func, "HydrodynamicsTemplateModel") and eqx(kwarg(v, "thermodynamics", 0), "self.thermodynamics", cr)

    ok = len(c) == 2 and all(on_template(x) for x in c)
    chk.ob("R15.6", fr.where(), "it uses the template matching at 0.99 vJ and at 1e-3 to bound T+ and T-", ok, key="range-estimates")
    # full solver seeds its 2x2 solve from the template (initial guess only) and falls back to it only when no root is bracketed
    fm = S.func(f"{HY}.matchDeflagOrHyb")
    c = [x for x in calls_in(fm.node, "matchDeflagOrHybInitial")]
    ok = len(c) == 1
    chk.ob("R15.6", fm.where(), "Hydrodynamics.matchDeflagOrHyb uses the template only for the initial guess of (T+, T-)", ok, key="initial-guess")
    chk.floor("R15.6", 3)


def r15_9(chk: Check) -> None:
    """Guards that keep the exact solver seeded by, and the template solver confined to, the physical branch."""
    from ..flow import CFG
    S = chk.src
    # (a) template findMatching: where the template enthalpy changes sign inside the shooting bracket, the UPPER end is cut just below the sign
    # change (the physical root lies below it); the cut value then is the upper end of the bracket handed to the root finder
    ff = S.func(f"{TM}.findMatching")
    chk.touch(ff.name)
    cx = Ctx(S, ff)
    g = CFG(ff.node)
    cuts = []
    for t in g.nodes:
        if g.kind.get(t) != "test":
            continue
        conj = [t]
        while any(isinstance(c_, ast.BoolOp) and isinstance(c_.op, ast.And) for c_ in conj):
            conj = [v for c_ in conj for v in (c_.values if isinstance(c_, ast.BoolOp) and isinstance(c_.op, ast.And) else [c_])]
        b = None
        for c_ in conj:
            b = b or match(c_, "__LO < __S < __HI", cx)
        if b is None:
            lo_ = [match(c_, "__LO < __S", cx) for c_ in conj]
            lo_ = [x for x in lo_ if x]
            for x in lo_:
                for y in lo_:
                    if x is not y and x["S"] == y["LO"]:
                        b = {"LO": x["LO"], "S": x["S"], "HI": y["S"]}
        if b:
            cuts.append((t, b))
    rs = [c for c in calls_in(ff.node, "root_scalar")]
    ok, detail = False, f"{len(cuts)} tests `lower < signChange < upper`, {len(rs)} root searches"
    if len(cuts) == 1 and len(rs) == 1:
        t, b = cuts[0]
        br = kwarg(rs[0], "bracket", None)
        at = g.node_of(rs[0])
        stores = [q for q in g.nodes if isinstance(q, ast.Assign) and len(q.targets) == 1 and isinstance(q.targets[0], ast.Name)
                  and g.reaches(g.branch(t, True), q, avoid=lambda x: x is at) and not g.reaches(g.branch(t, False), q, avoid=lambda x: x is at or x is t)]
        tgt = {q.targets[0].id for q in stores}
        okv = all(match(q.value, f"{b['S']} - __c", cx) is not None or (isinstance(q.value, ast.BinOp) and isinstance(q.value.op, ast.Sub) and eqx(q.value.left, b["S"])
                                                                         and isinstance(q.value.right, ast.Constant) and 0 < q.value.right.value <= 1e-6) for q in stores)
        okb = isinstance(br, (ast.Tuple, ast.List)) and len(br.elts) == 2 and eqx(br.elts[0], b["LO"]) and eqx(br.elts[1], b["HI"])
        ok = bool(stores) and tgt == {b["HI"]} and okv and okb
        detail = f"assigned in the branch: {sorted(tgt)}; bracket {n(br) if br is not None else None}; " + "; ".join(n(q)[:50] for q in stores)
    chk.ob("R15.9", ff.where(), "template findMatching: an enthalpy sign change inside the bracket cuts the UPPER end to just below it (the root lies below the sign change), "
           "and that bracket is the one searched", ok, detail, key="wp-cut-upper")
    # (b) exact matchDeflagOrHyb: the template's initial guess is screened for NaN before it seeds the root finder
    fm = S.func(f"{HY}.matchDeflagOrHyb")
    chk.touch(fm.name)
    gm = CFG(fm.node)
    cm = Ctx(S, fm)
    roots = [q for q in gm.nodes if isinstance(q, ast.AST) and gm.kind.get(q) != "def" and any(True for _ in calls_in(q, "root")) and not isinstance(q, (ast.FunctionDef,))]
    seeds = [q for q in gm.nodes if isinstance(q, ast.Assign) and len(q.targets) == 1 and isinstance(q.targets[0], ast.Name)
             and any(isinstance(c, ast.Call) and (dotted(c.func) or "").startswith("self.template.") for c in ast.walk(q.value))]
    ok, detail = False, f"{len(roots)} root solves, {len(seeds)} template seeds"
    if len(roots) == 1 and seeds:
        G = seeds[0].targets[0].id
        tests = [t for t in gm.nodes if gm.kind.get(t) == "test" and any(isinstance(c, ast.Call) and (dotted(c.func) or "").endswith("isnan") and has(c, G) for c in ast.walk(cm.resolve(t)))]
        ok = all(q.targets[0].id == G for q in seeds) and bool(tests) and all(gm.must_pass(q, roots[0], lambda x: x in tests) for q in seeds)
        if ok:
            # on the NaN branch the guess is replaced before the solve
            repl = lambda x: isinstance(x, ast.Assign) and any(isinstance(t_, ast.Name) and t_.id == G for t_ in x.targets)
            ok = all(repl(b_) or gm.must_pass(b_, roots[0], repl) for t in tests for b_ in gm.branch(t, True))
        detail = f"guess `{G}`; NaN tests: {[n(t)[:40] for t in tests]}"
    chk.ob("R15.9", fm.where(), "matchDeflagOrHyb: the template's initial guess passes an np.isnan test on every path to the root solve, and a NaN guess is replaced", ok, detail,
           key="nan-screen")
    chk.floor("R15.9", 2)


def rules(chk: Check) -> None:
    from . import c02, c03, c06
    chk.stage(c02.r02_3, Remap(chk, {"R02.3": "R15.1"}))
    chk.stage(c03.r03_2, Remap(chk, {"R03.2": "R15.2"}))
    r1 = chk.stage(c03.r03_1, Remap(chk, {}))
    if r1 is not None:
        chk.stage(c03.r03_6, Remap(chk, {"R03.6": "R15.2"}), r1[0], r1[1])
    chk.stage(c03.r03_45, Remap(chk, {"R03.5": "R15.2"}))
    chk.stage(c06.r06_2, Remap(chk, {"R06.2": "R15.3"}))
    chk.stage(c06.r06_3, Remap(chk, {"R06.3": "R15.3"}, only=lambda r, k, w: k in ("class|Hydrodynamics", "class|template")))
    chk.stage(c06.r06_4, Remap(chk, {"R06.4": "R15.3"}))
    # the LTE solvers of both classes: sentinel conditions and root functions (shared with C05 R05.2 / R05.3 / R05.5)
    from . import c05
    chk.stage(c05.r05_23, Remap(chk, {"R05.2": "R15.8", "R05.3": "R15.8"}))
    chk.stage(c05.r05_5, Remap(chk, {"R05.5": "R15.8"}))
    for grp in (r15_4, r15_5, r15_6, r15_9):
        chk.stage(grp, chk)
    # zero-expected lints over both classes (NaN guards effective, no shared default objects); tiny bracket offsets point inward
    from .shared import defensive_idioms_effective, bracket_offsets_inward
    chk.stage(defensive_idioms_effective, chk, "R15.9", ("hydrodynamics", "hydrodynamicsTemplateModel"))
    chk.stage(bracket_offsets_inward, chk, "R15.9", ("hydrodynamics", "hydrodynamicsTemplateModel"), 1)
    # both solvers are dimensionally homogeneous in the nucleation temperature (agreement 'for every Tn over five decades')
    from ..dimtable import TABLE
    from ..kinds import KindInference
    K = KindInference(chk.src, TABLE)
    bad = []
    nfun = 0
    for m_ in ("hydrodynamics", "hydrodynamicsTemplateModel"):
        for fi in chk.src.module(m_).funcs.values():
            if fi.parent is None:
                b0 = len(K.reports)
                K.analyse(_exponents_inlined(chk.src, fi))
                nfun += 1
                for r_ in K.reports[b0:]:
                    if r_.kind in ("conflict", "sink", "transcendental"):
                        bad.append((fi, r_))
    chk.ob("R15.7", "src/WallGo/hydrodynamics.py", f"both hydrodynamics classes are dimensionally homogeneous ({K.typed_nodes} typed expression nodes in {nfun} "
           "functions): every temperature bound scales with Tnucl, so agreement at one Tn carries over to all", not bad,
           "; ".join(f"{fi.qual} line {getattr(r_.node, 'lineno', '?')}: {r_.text}" for fi, r_ in bad)[:400], key="homogeneous-in-Tn")
    chk.floor("R15.7", 1)
    chk.floor("R15.1", 7)
    chk.floor("R15.2", 17)
    chk.floor("R15.3", 12)
    chk.floor("R15.8", 6)
    # the bound maxAl returns without a sign change (decides between a solution and the runaway sentinel in the template's findvwLTE: shared with C05 R05.9)
    chk.stage(c05.r05_9, Remap(chk, {"R05.9": "R15.8"}))
