"""C07 -- results are covariant under a change of units (dimension inference).

R07.1 dimensional homogeneity: no sum / difference / comparison / min / max of two quantities of different kind
R07.2 no dimensionful argument of exp / log / tanh / arctanh / tan ..., no dimensionful exponent
R07.3 sinks: arguments of package calls and constructors, return values and attribute stores agree with the signature table
      (this is the "all lengths are expressed through 1/Tnucl" mechanism)
R07.4 the set of absolute-scale sites (bare number or dimensionless tolerance combined with a dimensionful quantity,
      including scipy defaults that are absolute) equals the triaged table below
"""
from __future__ import annotations

import ast

from ..core import AnchorMissing, Check
from ..dimtable import SCOPE, TABLE
from ..kinds import KindInference

LEVEL = "other"

# Triaged absolute-scale sites of the pinned tree: key -> why it does not (or does) matter for unit factors in [1e-2, 1e2].
# A site that is not listed is a VIOLATION: a new hard-wired scale is exactly the realistic change that breaks this property.
ABSOLUTE_SITES = {
    "EOM.solveWall|absolute|store|EOM.pressAbsErrTol|lit1e-08":
        "initial absolute pressure tolerance for the two end-point evaluations only; the iteration uses max(rtol*|P|, atol) and |P| ~ Tn^4, "
        "so 1e-8 is below rtol*|P| unless |P| < 1e-7 in the chosen units; replaced by a relative value before the root search",
    "EOM.findPlasmaProfilePoint|absolute|comparison|E^1|lit1e-10":
        "branch selection |Tn - T+| < 1e-10: exact equality for detonations (T+ := Tn), never near-equal otherwise",
    "EOM.findPlasmaProfilePoint|absolute|xtol|E^1|lit1e-10":
        "absolute xtol of a temperature root next to rtol = errTol/10: the relative criterion dominates for T > 1e-7 in the chosen units",
    "EOM.findPlasmaProfilePoint|absolute|xatol-default|E^1":
        "scipy default xatol = 1e-5 of a bounded minimisation in temperature; the minimiser only brackets the root that follows",
    "Hydrodynamics.findJouguetVelocity|absolute|xtol|E^1|E^0": "xtol = atol (1e-10) next to rtol (1e-6) on a temperature root: relative criterion dominates for T > 1e-4",
    "Hydrodynamics.matchDeton|absolute|xtol|E^1|E^0": "same: xtol = atol next to rtol on a temperature root",
    "Hydrodynamics.matchDeton|absolute|xatol-default|E^1": "scipy default xatol = 1e-5 of the bounded minimisation that brackets the detonation root",
    "Hydrodynamics.solveHydroShock|absolute|xtol|E^1|E^0": "same: xtol = atol next to rtol on the nucleation-temperature root",
    "Hydrodynamics.strongestShock|absolute|xtol|E^1|E^0": "same: xtol = atol next to rtol on a temperature root",
    "WallGoManager.validatePhaseInput|absolute|allclose|E^1|lit1e-05":
        "np.allclose(phase1, phase2, atol=1e-5): a sanity check that the two phases differ; distinct phases differ by O(vev)",
}
TYPED_FLOOR = 6000


def rules(chk: Check) -> None:
    S = chk.src
    K = KindInference(S, TABLE)
    per_func = {}
    analysed = 0
    for m in SCOPE:
        mod = S.module(m)
        for fi in mod.funcs.values():
            if fi.parent is not None:
                continue
            before = len(K.reports)
            t0 = K.typed_nodes
            K.analyse(fi)
            analysed += 1
            per_func[fi.qual] = (fi, K.reports[before:], K.typed_nodes - t0)
            chk.touch(fi.name)
    if K.typed_nodes < TYPED_FLOOR:
        raise AnchorMissing(f"dimension inference typed only {K.typed_nodes} expression nodes (floor {TYPED_FLOOR}): signature table no longer matches the API")
    # table entries must still name existing API members (a renamed member silently loses its seed)
    missing = []
    from ..kinds import _lookup

    def class_of(name):
        for m_ in S.modules.values():
            if name in m_.classes:
                return m_.classes[name]
        return None

    for (qual, p) in TABLE["PARAM"]:
        if qual.count(".") >= 2:
            continue      # nested helper functions are implementation details: their seeds are optional (inlining one is not an API change)
        if any(qual in m_.funcs for m_ in S.modules.values()):
            f_ = [m_.funcs[qual] for m_ in S.modules.values() if qual in m_.funcs][0]
            if p not in f_.params():
                missing.append(f"{qual}({p})")
            continue
        f_ = _lookup(S, qual)
        if f_ is not None:
            if p not in f_.params():
                missing.append(f"{qual}({p})")
            continue
        cname, _, meth = qual.partition(".")
        ci = class_of(cname)
        if ci is None:
            missing.append(qual)
            continue
        fields = {st.target.id for st in ci.node.body if isinstance(st, ast.AnnAssign) and isinstance(st.target, ast.Name)}
        stored = {t.attr for st in ast.walk(ci.node) if isinstance(st, ast.Assign) for t in st.targets
                  if isinstance(t, ast.Attribute) and isinstance(t.value, ast.Name) and t.value.id == "self"}
        if meth == "__init__" and p in fields:
            continue      # synthesised dataclass constructor
        if meth in stored or meth in fields:
            continue      # callable stored as an attribute (Particle.msqVacuum)
        missing.append(f"{qual}({p})")
    if missing:
        raise AnchorMissing(f"signature table names API members that no longer exist: {sorted(set(missing))[:6]}")
    rule_of = {"conflict": "R07.1", "transcendental": "R07.2", "sink": "R07.3", "absolute": "R07.4"}
    seen_abs = set()
    for qual, (fi, reps, typed) in sorted(per_func.items()):
        hard = [r for r in reps if r.kind in ("conflict", "transcendental", "sink")]
        if typed >= 5 or hard:
            chk.ob("R07.1", fi.where(), f"{qual}: dimensionally homogeneous ({typed} expression nodes typed; sums, differences, comparisons, min/max, "
                   "transcendental arguments, call arguments, returns and attribute stores all agree)", not hard,
                   "; ".join(f"line {getattr(r.node, 'lineno', '?')}: {r.text}" for r in hard)[:600], key=f"homogeneous|{qual}")
        for r in hard:
            chk.ob(rule_of[r.kind], fi.where(r.node), r.text, False, key=r.key)
        for r in reps:
            if r.kind != "absolute":
                continue
            seen_abs.add(r.key)
            listed = r.key in ABSOLUTE_SITES
            chk.ob("R07.4", fi.where(r.node), f"absolute-scale site: {r.text}", listed,
                   "not in the triaged table: a new hard-wired scale breaks covariance under a change of units" if not listed else ABSOLUTE_SITES[r.key],
                   key=r.key)
    gone = sorted(set(ABSOLUTE_SITES) - seen_abs)
    if gone:
        chk.note(f"triaged absolute sites no longer present (fine): {gone}")
    chk.note(f"typed {K.typed_nodes} of {K.total_nodes} expression nodes in {analysed} functions; "
             f"{len(TABLE['ATTR'])} attribute, {len(TABLE['PARAM'])} parameter and {len(TABLE['RET'])} return seeds")
    chk.floor("R07.1", 60)
    chk.floor("R07.4", 8)


def extra(chk: Check) -> dict:
    return {"typed_node_floor": TYPED_FLOOR, "triaged_absolute_sites": ABSOLUTE_SITES}
