"""C10 -- equation of state is thermodynamically consistent and smoothly extrapolated.

R10.1 branch structure of p, dp, ddp, csq per phase (guards use the bounds of the same phase;
      lower branch uses only the Min coefficients of that phase, upper only the Max ones)
R10.2 in every extrapolated branch dp = d/dT p and ddp = d/dT dp
R10.3 e = T dp - p, w = T dp, de = T ddp, csq = dp/de on the same phase and argument
R10.4 setExtrapolate's coefficients make p, dp, ddp continuous at the range ends and csq constant outside
R10.5 table branch is -freeEnergyX(T).veffValue / its spline derivative of order 1, 2
R10.6 setExtrapolate is called after phase tracing, before Hydrodynamics is built; it refreshes the bounds first
R10.7 HighT and LowT method families are mirror images at term level
"""
from __future__ import annotations

import ast

import sympy as sp

from ..core import AnchorMissing, Check, Undecided, calls_in, dotted, kwarg, src, own_nodes, slice_src
from ..flow import CFG
from ..terms import Extractor, ITE, is_zero

LEVEL = "proof"
TH = "thermodynamics:Thermodynamics"
PHASES = ("HighT", "LowT")
FE = {"HighT": "freeEnergyHigh", "LowT": "freeEnergyLow"}


def fn(name):
    return sp.Function(name)


def _classify(path, X, T):
    """lower / upper / table / foreign according to the positive guards of the path"""
    cls = "table"
    foreign = []
    path.nonstrict = []
    for g in path.guards:
        t = g.term
        if not isinstance(t, sp.Basic):
            foreign.append(g.text())
            continue
        name = t.func.__name__ if hasattr(t.func, "__name__") else ""
        a = t.args
        side = None
        if len(a) == 2:
            lo, hi = sp.Symbol(f"self.TMin{X}", real=True), sp.Symbol(f"self.TMax{X}", real=True)
            if (name in ("LT", "LE") and a[0] == T and a[1] == lo) or (name in ("GT", "GE") and a[1] == T and a[0] == lo):
                side = "lower"
            elif (name in ("GT", "GE") and a[0] == T and a[1] == hi) or (name in ("LT", "LE") and a[1] == T and a[0] == hi):
                side = "upper"
        if side is None:
            foreign.append(g.text())
        else:
            if name in ("LE", "GE"):
                path.nonstrict.append(g.text())
            if g.polarity:
                cls = side
    return cls, foreign


def rules(chk: Check) -> None:
    S = chk.src
    chk.src.cls(TH)
    T = sp.Symbol("temperature", real=True)
    exu = Extractor(S, positive={"temperature"})  # nothing inlined
    T = exu.sym("temperature")

    branch: dict = {}
    # ---------------- R10.1 / R10.2 / R10.5 -------------------------------
    for X in PHASES:
        other = "LowT" if X == "HighT" else "HighT"
        for f in ("p", "dp", "ddp", "csq"):
            fi = S.func(f"{TH}.{f}{X}")
            chk.touch(fi.name)
            paths = exu.returns(fi)
            got = {}
            for p in paths:
                c, foreign = _classify(p, X, T)
                chk.ob("R10.1", fi.where(), f"{f}{X}: branch guard `{p.gtext()}` compares the temperature with the bounds of the {X} phase only",
                       not foreign, "; ".join(foreign), key=f"guard|{f}{X}|{c}")
                chk.ob("R10.1", fi.where(), f"{f}{X}: branch guard `{p.gtext()}` is strict, so exactly at the range end the tabulated branch is taken "
                       "(setExtrapolate matches its coefficients to the table by evaluating these functions at TMin/TMax themselves)",
                       not p.nonstrict or f == "csq", "; ".join(p.nonstrict), key=f"strict|{f}{X}|{c}")
                if c in got:
                    chk.ob("R10.1", fi.where(), f"{f}{X}: one {c} branch", False, "duplicate branch", key=f"dup|{f}{X}|{c}")
                got[c] = p.value
            chk.ob("R10.1", fi.where(), f"{f}{X}: has lower, upper and table branches",
                   set(got) == {"lower", "upper", "table"}, str(sorted(got)), key=f"branches|{f}{X}")
            branch[(f, X)] = got
            for side, tag in (("lower", "Min"), ("upper", "Max")):
                v = got.get(side)
                if v is None or not isinstance(v, sp.Basic):
                    continue
                names = {s.name for s in v.free_symbols}
                allowed = {"temperature", f"self.mu{tag}{X}", f"self.a{tag}{X}", f"self.epsilon{tag}{X}",
                           f"self.T{tag}{X}"}
                extra = names - allowed
                chk.ob("R10.1", fi.where(), f"{f}{X} {side} branch uses only the {tag} coefficients of the {X} phase",
                       not extra, f"foreign symbols: {sorted(extra)}", key=f"coeffs|{f}{X}|{side}")
        # R10.2
        for side in ("lower", "upper"):
            p_, dp_, ddp_ = (branch[(f, X)].get(side) for f in ("p", "dp", "ddp"))
            if p_ is None or dp_ is None or ddp_ is None:
                continue
            ok, how = is_zero(sp.diff(p_, T) - dp_, chk.seed)
            chk.ob("R10.2", S.func(f"{TH}.dp{X}").where(), f"{X} {side} branch: dp == d/dT p", ok, how,
                   key=f"dp|{X}|{side}", how=how)
            ok, how = is_zero(sp.diff(dp_, T) - ddp_, chk.seed)
            chk.ob("R10.2", S.func(f"{TH}.ddp{X}").where(), f"{X} {side} branch: ddp == d/dT dp", ok, how,
                   key=f"ddp|{X}|{side}", how=how)
        # R10.5 table branches
        attr = fn("attr_veffValue")
        exp_p = -attr(fn(FE[X])(T))
        exp_dp = -attr(fn(f"{FE[X]}.derivative")(T, 1))
        exp_ddp = -attr(fn(f"{FE[X]}.derivative")(T, 2))
        for f, want in (("p", exp_p), ("dp", exp_dp), ("ddp", exp_ddp)):
            v = branch[(f, X)].get("table")
            chk.ob("R10.5", S.func(f"{TH}.{f}{X}").where(),
                   f"{f}{X} table branch is {want}", v is not None and sp.simplify(v - want) == 0, f"found {v}",
                   key=f"table|{f}{X}")

    # ---------------- R10.3 ------------------------------------------------
    inl = Extractor(S, positive={"temperature"},
                    inline=lambda n: n.split(".")[-1][:2] in ("eH", "eL", "wH", "wL", "de") and n.startswith(TH))
    Tt = inl.sym("temperature")
    for X in PHASES:
        P, DP, DDP = fn(f"p{X}"), fn(f"dp{X}"), fn(f"ddp{X}")
        for f, want in (("e", Tt * DP(Tt) - P(Tt)), ("w", Tt * DP(Tt)), ("de", Tt * DDP(Tt))):
            fi = S.func(f"{TH}.{f}{X}")
            chk.touch(fi.name)
            v = exu.single(fi)
            ok, how = is_zero(v - want.subs(Tt, T), chk.seed)
            chk.ob("R10.3", fi.where(), f"{f}{X}(T) == {want}", ok, f"found {v}", key=f"rel|{f}{X}", how=how)
        # de is the T-derivative of e when dp = p', ddp = dp'
        pf = sp.Function("pf")
        e_gen = T * sp.diff(pf(T), T) - pf(T)
        de_gen = T * sp.diff(pf(T), T, 2)
        ok, how = is_zero(sp.diff(e_gen, T) - de_gen, chk.seed)
        chk.ob("R10.3", S.func(f"{TH}.de{X}").where(), f"de{X} = T ddp is d/dT (T dp - p)", ok, how,
               key=f"de-consistency|{X}", how=how)
        # csq: all three branches
        fi = S.func(f"{TH}.csq{X}")
        for side, arg in (("table", Tt), ("lower", inl.sym(f"self.TMin{X}")), ("upper", inl.sym(f"self.TMax{X}"))):
            paths = inl.returns(fi)
            val = None
            for p in paths:
                c, _ = _classify(p, X, Tt)
                if c == side:
                    val = p.value
            want = DP(arg) / (arg * DDP(arg))
            ok, how = (None, "branch missing") if val is None else is_zero(val - want, chk.seed)
            chk.ob("R10.3", fi.where(), f"csq{X} {side} branch == dp/de at {arg}", ok, f"found {val}; {how}",
                   key=f"csq|{X}|{side}", how=how)

    # ---------------- R10.4 / R10.6(b) ---------------------------------------
    fi = S.func(f"{TH}.setExtrapolate")
    chk.touch(fi.name)
    ps = exu.paths(fi)
    if len(ps) != 1:
        raise Undecided("setExtrapolate: expected straight-line code")
    env = ps[0].env
    for X in PHASES:
        for tag, mm in (("Min", "min"), ("Max", "max")):
            bsym = exu.sym(f"self.{FE[X]}.{mm}PossibleTemperature[0]")
            got = env.get(f"self.T{tag}{X}")
            chk.ob("R10.6", fi.where(), f"setExtrapolate refreshes T{tag}{X} from {FE[X]}.{mm}PossibleTemperature[0]",
                   got == bsym, f"found {got}", key=f"refresh|T{tag}{X}")
            Tb = sp.Symbol("Tb", positive=True)
            P0, DP0, DDP0 = sp.Symbol("P0", real=True), sp.Symbol("DP0", positive=True), sp.Symbol("DDP0", positive=True)
            coeff = {}
            missing = False
            for c in ("mu", "a", "epsilon"):
                v = env.get(f"self.{c}{tag}{X}")
                if not isinstance(v, sp.Basic):
                    missing = True
                    continue
                coeff[c] = v
            if missing:
                chk.ob("R10.4", fi.where(), f"setExtrapolate assigns mu/a/epsilon {tag}{X}", False, "assignment missing",
                       key=f"assign|{tag}{X}")
                continue

            def ground(v):
                # evaluate table functions at the boundary of the matching phase
                out = v
                for ph in PHASES:
                    for nm, rep in ((f"csq{ph}", lambda x, ph=ph: DP0 / (Tb * DDP0)), (f"w{ph}", lambda x: Tb * DP0),
                                    (f"p{ph}", lambda x: P0), (f"dp{ph}", lambda x: DP0), (f"ddp{ph}", lambda x: DDP0)):
                        if ph == X:
                            out = out.replace(fn(nm), lambda x, rep=rep, nm=nm: rep(x) if x == bsym else fn(nm + "_WRONGARG")(x))
                return out.subs(bsym, Tb)

            # sequential substitution (a depends on mu, epsilon on a, mu)
            vals = {c: ground(coeff[c]) for c in coeff}
            bad = [str(v) for v in vals.values()
                   if any(isinstance(a, sp.core.function.AppliedUndef) for a in v.atoms(sp.Function))]
            chk.ob("R10.4", fi.where(), f"{tag}{X} coefficients are built from csq{X}, w{X}, p{X} at T{tag}{X} only",
                   not bad, "; ".join(bad)[:200], key=f"pairing|{tag}{X}")
            if bad:
                continue
            side = "lower" if tag == "Min" else "upper"
            sub = {exu.sym(f"self.{c}{tag}{X}"): vals[c] for c in vals}
            sub[T] = Tb
            sub[exu.sym(f"self.T{tag}{X}")] = Tb
            for f, tab in (("p", P0), ("dp", DP0), ("ddp", DDP0)):
                v = branch[(f, X)].get(side)
                if v is None:
                    continue
                res = v.subs(sub, simultaneous=True) - tab
                ok, how = is_zero(res, chk.seed)
                chk.ob("R10.4", fi.where(), f"{f}{X} is continuous at T{tag}{X} (extrapolation == table value)", ok,
                       f"residual {sp.simplify(res) if ok is False else ''} {how}", key=f"cont|{f}{X}|{tag}", how=how)
            # constant sound speed in the extrapolated region: dp/(T ddp) of the branch == 1/(mu-1) == csq(Tb)
            dpv, ddpv = branch[("dp", X)].get(side), branch[("ddp", X)].get(side)
            if dpv is not None and ddpv is not None:
                cs = (dpv / (T * ddpv)).subs({exu.sym(f"self.{c}{tag}{X}"): vals[c] for c in vals}, simultaneous=True)
                ok, how = is_zero(cs - DP0 / (Tb * DDP0), chk.seed)
                chk.ob("R10.4", fi.where(), f"sound speed of the {side} extrapolation of {X} is constant and equals csq{X}(T{tag}{X})",
                       ok, how, key=f"cs|{X}|{tag}", how=how)

    # ---------------- R10.5 (spline derivatives) -----------------------------
    f_int = S.func("interpolatableFunction:InterpolatableFunction._interpolate")
    chk.touch(f_int.name)
    ok_list = False
    spline_same = False
    for n_ in own_nodes(f_int.node):
        if isinstance(n_, ast.Assign) and any(dotted(t) == "self._interpolatedDerivatives" for t in n_.targets):
            if isinstance(n_.value, ast.List):
                orders = []
                for e in n_.value.elts:
                    if (isinstance(e, ast.Call) and dotted(e.func) == "self._interpolatedFunction.derivative"
                            and e.args and isinstance(e.args[0], ast.Constant)):
                        orders.append(e.args[0].value)
                    else:
                        orders.append(None)
                ok_list = orders == [1, 2]
        if isinstance(n_, ast.Assign) and any(dotted(t) == "self._interpolatedFunction" for t in n_.targets):
            spline_same = isinstance(n_.value, ast.Call) and (dotted(n_.value.func) or "").endswith("CubicSpline")
    chk.ob("R10.5", f_int.where(), "_interpolatedDerivatives == [spline.derivative(1), spline.derivative(2)] of the value spline",
           ok_list and spline_same, key="spline|derivlist")
    f_der = S.func("interpolatableFunction:InterpolatableFunction.derivative")
    chk.touch(f_der.name)
    idx_ok = False
    for n_ in own_nodes(f_der.node):
        if isinstance(n_, ast.Subscript) and dotted(n_.value) == "self._interpolatedDerivatives":
            idx_ok = " ".join(src(n_.slice).split()) in ("order - 1", "order-1")
    chk.ob("R10.5", f_der.where(), "derivative() selects _interpolatedDerivatives[order - 1]", idx_ok, key="spline|index")
    f_fed = S.func("freeEnergy:FreeEnergy.derivative")
    chk.touch(f_fed.name)
    sup = [c for c in own_nodes(f_fed.node) if isinstance(c, ast.Call) and isinstance(c.func, ast.Attribute)
           and c.func.attr == "derivative" and isinstance(c.func.value, ast.Call)
           and dotted(c.func.value.func) == "super"]
    okp = bool(sup) and len(sup[0].args) >= 2 and isinstance(sup[0].args[0], ast.Name) and sup[0].args[0].id == "x" \
        and isinstance(sup[0].args[1], ast.Name) and sup[0].args[1].id == "order"
    if sup and not okp:
        o = kwarg(sup[0], "order", 1)
        x = kwarg(sup[0], "x", 0)
        okp = isinstance(o, ast.Name) and o.id == "order" and isinstance(x, ast.Name) and x.id == "x"
    chk.ob("R10.5", f_fed.where(), "FreeEnergy.derivative forwards x and order unchanged to the spline machinery", okp,
           key="spline|forward")
    # FreeEnergyValueType.fromArray: veffValue is the last column, fields the others
    f_fa = S.func("freeEnergy:FreeEnergyValueType.fromArray")
    chk.touch(f_fa.name)
    last, rest = set(), set()
    for n_ in own_nodes(f_fa.node):
        if isinstance(n_, ast.Assign) and isinstance(n_.value, ast.Subscript) and len(n_.targets) == 1 \
                and isinstance(n_.targets[0], ast.Name):
            sl = slice_src(n_.value.slice)
            if sl in ("-1", ":, -1"):
                last.add(n_.targets[0].id)
            elif sl in (":-1", ":, :-1"):
                rest.add(n_.targets[0].id)
    ctor = [c for c in calls_in(f_fa.node, "FreeEnergyValueType")]
    ok_fa = False
    if ctor:
        vv = kwarg(ctor[0], "veffValue", 0)
        ff = kwarg(ctor[0], "fieldsAtMinimum", 1)
        ok_fa = isinstance(vv, ast.Name) and vv.id in last and ff is not None \
            and any(isinstance(x, ast.Name) and x.id in rest for x in ast.walk(ff))
    f_fi = S.func("freeEnergy:FreeEnergy._functionImplementation")
    ok_fi = False
    for c in calls_in(f_fi.node, "concatenate"):
        a0 = c.args[0] if c.args else None
        ax = kwarg(c, "axis", 1)
        if isinstance(a0, ast.Tuple) and len(a0.elts) == 2 and isinstance(ax, ast.Constant) and ax.value == 1:
            # (locations, potential column): the first element is the value returned first by findLocalMinimum
            for n_ in own_nodes(f_fi.node):
                if isinstance(n_, ast.Assign) and isinstance(n_.targets[0], ast.Tuple) and \
                        (call := n_.value) and isinstance(call, ast.Call) and (dotted(call.func) or "").endswith("findLocalMinimum"):
                    first = n_.targets[0].elts[0]
                    ok_fi = isinstance(first, ast.Name) and isinstance(a0.elts[0], ast.Name) and a0.elts[0].id == first.id
    chk.ob("R10.5", f_fa.where(), "free-energy rows are [fields..., Veff] in writer (_functionImplementation) and reader (fromArray)",
           ok_fa and ok_fi, key="row-layout")

    # ---------------- R10.6 ordering in the manager --------------------------
    fm = S.func("manager:WallGoManager.setupThermodynamicsHydrodynamics")
    chk.touch(fm.name)
    g = CFG(fm.node)
    n_ext = g.stmts_calling("setExtrapolate")
    n_hyd = g.stmts_calling("_initHydrodynamics")
    n_trc = g.stmts_calling("initTemperatureRange")
    if not n_hyd or not n_trc:
        raise AnchorMissing("manager.setupThermodynamicsHydrodynamics: anchors not found")
    ok = bool(n_ext) and all(g.must_pass(CFG.ENTRY, h, lambda n: n in n_ext) for h in n_hyd)
    chk.ob("R10.6", fm.where(), "every path to _initHydrodynamics() passes thermodynamics.setExtrapolate()", ok,
           key="order|extrapolate-before-hydro")
    ok = bool(n_ext) and all(g.must_pass(CFG.ENTRY, e, lambda n: n in n_trc) for e in n_ext)
    chk.ob("R10.6", fm.where(), "every path to setExtrapolate() passes initTemperatureRange() (both phases traced)", ok,
           key="order|trace-before-extrapolate")
    fr = S.func("manager:WallGoManager.initTemperatureRange")
    chk.touch(fr.name)
    tr = calls_in(fr.node, "tracePhase")
    chk.ob("R10.6", fr.where(), "initTemperatureRange traces both free energies", len(tr) >= 2, f"{len(tr)} tracePhase calls",
           key="order|two-traces")
    # Hydrodynamics is only constructed in _initHydrodynamics
    ctor = []
    for fi2 in S.modules["manager"].funcs.values():
        for c in calls_in(fi2.node, "Hydrodynamics"):
            if dotted(c.func) == "Hydrodynamics":
                ctor.append(fi2.qual)
    chk.ob("R10.6", "src/WallGo/manager.py", "Hydrodynamics(...) is constructed only by _initHydrodynamics",
           ctor == ["WallGoManager._initHydrodynamics"], str(ctor), key="order|ctor")

    # ---------------- R10.7 mirror -------------------------------------------
    def mirror(v):
        if not isinstance(v, sp.Basic):
            return v
        rep = {}
        for s in v.free_symbols:
            rep[s] = sp.Symbol(s.name.replace("HighT", "LowT").replace("freeEnergyHigh", "freeEnergyLow"), **s.assumptions0)
        out = v.xreplace(rep)
        for a in list(out.atoms(sp.Function)):
            if isinstance(a, sp.core.function.AppliedUndef):
                nm = a.func.__name__
                nn = nm.replace("HighT", "LowT").replace("freeEnergyHigh", "freeEnergyLow")
                if nn != nm:
                    out = out.replace(fn(nm), fn(nn))
        return out

    for f in ("p", "dp", "ddp", "csq"):
        for side in ("lower", "upper", "table"):
            a, b = branch[(f, "HighT")].get(side), branch[(f, "LowT")].get(side)
            if a is None or b is None:
                continue
            ok, how = is_zero(mirror(a) - b, chk.seed)
            chk.ob("R10.7", S.func(f"{TH}.{f}LowT").where(), f"{f}LowT {side} branch mirrors {f}HighT", ok, how,
                   key=f"mirror|{f}|{side}", how=how)
    for f in ("e", "de", "w"):
        a, b = exu.single(S.func(f"{TH}.{f}HighT")), exu.single(S.func(f"{TH}.{f}LowT"))
        ok, how = is_zero(mirror(a) - b, chk.seed)
        chk.ob("R10.7", S.func(f"{TH}.{f}LowT").where(), f"{f}LowT mirrors {f}HighT", ok, how, key=f"mirror|{f}", how=how)

    chk.floor("R10.1", 50)
    chk.floor("R10.2", 8)
    chk.floor("R10.3", 14)
    chk.floor("R10.4", 16)
    chk.floor("R10.5", 10)
    chk.floor("R10.6", 8)
    chk.floor("R10.7", 15)
