"""C10 -- equation of state is thermodynamically consistent and smoothly extrapolated.

R10.1 branch structure of p, dp, ddp, csq per phase (guards use the bounds of the same phase;
      lower branch uses only the Min coefficients of that phase, upper only the Max ones)
R10.2 in every extrapolated branch dp = d/dT p and ddp = d/dT dp
R10.3 e = T dp - p, w = T dp, de = T ddp, csq = dp/de on the same phase and argument
R10.4 setExtrapolate's coefficients make p, dp, ddp continuous at the range ends and csq constant outside
R10.5 table branch is -freeEnergyX(T).veffValue / its spline derivative of order 1, 2
R10.6 setExtrapolate is called after phase tracing, before Hydrodynamics is built; it refreshes the bounds first
R10.7 HighT and LowT method families are mirror images at term level

Conditional expressions in the thermodynamic functions are lowered to if / else statements before the paths are extracted
(`_LowerConditionals`); the manager functions are analysed with loops over literal cases written out and procedures around the
anchored calls looked into (`c01.normalised`).  e, w and de of one phase may be written in terms of each other (e = w - p, w = e + p,
csq = w / (T de)): the identities of R10.3 / R10.4 / R10.7 are decided with the sibling methods e / w / de of the SAME phase looked
through, never those of the other phase.
"""
from __future__ import annotations

import ast
import re
import copy

import sympy as sp

from ..core import AnchorMissing, Check, Undecided, calls_in, dotted, kwarg, src, own_nodes, slice_src
from ..flow import CFG
from ..nf import Ctx, P as nf_of_pattern, eqx, nf
from ..terms import Extractor, ITE, is_zero
from .c01 import normalised

LEVEL = "proof"
TH = "thermodynamics:Thermodynamics"
PHASES = ("HighT", "LowT")
FE = {"HighT": "freeEnergyHigh", "LowT": "freeEnergyLow"}


def fn(name):
    return sp.Function(name)


def _elements(v: ast.AST) -> list:
    """elements of a list display, or of a comprehension over a literal sequence / range written out"""
    if isinstance(v, (ast.List, ast.Tuple)):
        return list(v.elts)
    if isinstance(v, ast.ListComp) and len(v.generators) == 1 and not v.generators[0].ifs and isinstance(v.generators[0].target, ast.Name):
        it = v.generators[0].iter
        vals = None
        if isinstance(it, (ast.List, ast.Tuple)) and all(isinstance(e, ast.Constant) for e in it.elts):
            vals = [e.value for e in it.elts]
        elif isinstance(it, ast.Call) and dotted(it.func) == "range" and not it.keywords and all(isinstance(a, ast.Constant) and isinstance(a.value, int) for a in it.args):
            vals = list(range(*[a.value for a in it.args]))
        if vals is not None and len(vals) <= 8:
            tgt = v.generators[0].target.id
            out = []
            for val in vals:
                class Sb(ast.NodeTransformer):
                    def visit_Name(self, x):
                        return ast.copy_location(ast.Constant(value=val), x) if x.id == tgt else x
                out.append(Sb().visit(copy.deepcopy(v.elt)))
            return out
    return [v]


def _positional_free_energy_calls(S, fi):
    """copy of a function in which the arguments of self.freeEnergyHigh/Low.derivative(...) and self.freeEnergyHigh/Low(...) are passed by
    position as far as FreeEnergy's signatures allow: derivative(x=T, order=2) == derivative(T, order=2) == derivative(T, 2).  (the term extractor
    appends keyword arguments in alphabetical order when several package callables share a name with different signatures)"""
    from ..core import FuncInfo
    sigs = {}
    for meth in ("derivative", "__call__"):
        if S.has_func(f"freeEnergy:FreeEnergy.{meth}"):
            sigs[meth] = [p_ for p_ in S.func(f"freeEnergy:FreeEnergy.{meth}").params() if p_ != "self"]
        elif S.has_func(f"interpolatableFunction:InterpolatableFunction.{meth}"):
            sigs[meth] = [p_ for p_ in S.func(f"interpolatableFunction:InterpolatableFunction.{meth}").params() if p_ != "self"]

    class T(ast.NodeTransformer):
        def visit_Call(self, c):
            self.generic_visit(c)
            d = dotted(c.func) or ""
            meth = "derivative" if d in tuple(f"self.{v}.derivative" for v in FE.values()) else "__call__" if d in tuple(f"self.{v}" for v in FE.values()) else None
            prm = sigs.get(meth) if meth else None
            if prm and c.keywords and not any(isinstance(a, ast.Starred) for a in c.args):
                kw = {k.arg: k for k in c.keywords if k.arg}
                while len(c.args) < len(prm) and prm[len(c.args)] in kw:
                    k = kw.pop(prm[len(c.args)])
                    c.keywords.remove(k)
                    c.args.append(k.value)
            return c
    node = _LowerConditionals().visit(T().visit(copy.deepcopy(fi.node)))
    ast.fix_missing_locations(node)
    return FuncInfo(fi.module, fi.qual, node, fi.cls, fi.parent)


class _LowerConditionals(ast.NodeTransformer):
    """a conditional expression is a two-way branch: `return A if c else B` -> `if c: return A / else: return B`, likewise `x = A if c else B`,
    also under a one-argument conversion (`float(A if c else B)` -> `float(A) if c else float(B)`) and nested in the arms.  The path extractor then
    yields one path per arm with the test as its guard, exactly as for the statement form."""

    @staticmethod
    def _split(v):
        """(test, value if true, value if false) of a conditional value, else None"""
        if isinstance(v, ast.IfExp):
            return v.test, v.body, v.orelse
        if isinstance(v, ast.Call) and len(v.args) == 1 and not v.keywords and isinstance(v.args[0], ast.IfExp) and isinstance(v.func, (ast.Name, ast.Attribute)):
            wrap = lambda a: ast.copy_location(ast.Call(func=copy.deepcopy(v.func), args=[a], keywords=[]), v)
            return v.args[0].test, wrap(v.args[0].body), wrap(v.args[0].orelse)
        return None

    def _lower(self, st, make):
        sp_ = self._split(st.value) if getattr(st, "value", None) is not None else None
        if sp_ is None:
            return st
        test, a, b = sp_
        new = ast.If(test=test, body=[self._lower(make(a), make)], orelse=[self._lower(make(b), make)])
        return ast.copy_location(new, st)

    def visit_Return(self, st):
        return self._lower(st, lambda v: ast.copy_location(ast.Return(value=v), st))

    def visit_Assign(self, st):
        if len(st.targets) != 1 or not isinstance(st.targets[0], ast.Name):
            return st
        return self._lower(st, lambda v: ast.copy_location(ast.Assign(targets=[copy.deepcopy(st.targets[0])], value=v), st))

    def visit_AnnAssign(self, st):
        if not isinstance(st.target, ast.Name) or st.value is None:
            return st
        return self._lower(st, lambda v: ast.copy_location(ast.Assign(targets=[ast.Name(id=st.target.id, ctx=ast.Store())], value=v), st))

    def visit_Lambda(self, x):
        return x


def _classify(path, X, T, ex=None):
    """lower / upper / table / foreign according to the positive guards of the path"""
    cls = "table"
    foreign = []
    path.nonstrict = []
    for g in path.guards:
        t, pol, node = g.term, g.polarity, g.node
        # `if not T < TMin:` is the guard `T < TMin` with the branches exchanged
        while not isinstance(t, sp.Basic) and ex is not None and isinstance(node, ast.UnaryOp) and isinstance(node.op, ast.Not):
            node, pol = node.operand, not pol
            try:
                t = ex.cond(node, path.env, 0)
            except Undecided:
                t = None
        if not isinstance(t, sp.Basic):
            foreign.append(g.text())
            continue
        name = t.func.__name__ if hasattr(t.func, "__name__") else ""
        a = t.args
        side = None
        if len(a) == 2:
            lo, hi = sp.Symbol(f"self.TMin{X}", real=True), sp.Symbol(f"self.TMax{X}", real=True)
            if (name in ("LT", "LE") and a[0] == T and a[1] == lo) or (name in ("GT", "GE") and a[1] == T and a[0] == lo):
                side = "lower"
            elif (name in ("GT", "GE") and a[0] == T and a[1] == hi) or (name in ("LT", "LE") and a[1] == T and a[0] == hi):
                side = "upper"
        if side is None:
            foreign.append(g.text())
        else:
            if name in ("LE", "GE"):
                path.nonstrict.append(g.text())
            if pol:
                cls = side
    return cls, foreign


def _own_calls(q):
    stack = [q]
    while stack:
        x = stack.pop()
        if isinstance(x, ast.Call):
            yield x
        for c in ast.iter_child_nodes(x):
            if not isinstance(c, (ast.FunctionDef, ast.AsyncFunctionDef, ast.ClassDef, ast.Lambda)):
                stack.append(c)


def _range_limit_writers(chk: Check) -> None:
    """The branch tests of p / dp / ddp / csq compare the temperature with the cached limits TMin / TMax of each phase, and the template coefficients are
    matched at exactly these limits by setExtrapolate.  Only the constructor and setExtrapolate may store them: any other writer moves the branch points away
    from where the coefficients were matched (p, dp, ddp and csq then jump there)."""
    S = chk.src
    ci = S.cls("thermodynamics:Thermodynamics")
    limits = {f"T{a}{b}T" for a in ("Min", "Max") for b in ("High", "Low")}
    writers = {}
    for mname, mf in ci.methods.items():
        for x in ast.walk(mf.node):
            if isinstance(x, ast.Attribute) and isinstance(x.ctx, ast.Store) and x.attr in limits and isinstance(x.value, ast.Name) and x.value.id == "self":
                writers.setdefault(mname, set()).add(x.attr)
    # ... and nobody outside the class
    outside = []
    for m in S.modules.values():
        for q, f in m.funcs.items():
            if q.startswith("Thermodynamics.") or not isinstance(f.node, (ast.FunctionDef, ast.AsyncFunctionDef)):
                continue
            for x in ast.walk(f.node):
                if isinstance(x, ast.Attribute) and isinstance(x.ctx, ast.Store) and x.attr in limits and not (isinstance(x.value, ast.Name) and x.value.id == "self"):
                    outside.append(f"{q}: {x.attr}")
    allowed = {"__init__", "setExtrapolate"}
    bad = {k: sorted(v) for k, v in writers.items() if k not in allowed}
    chk.ob("R10.8", "src/WallGo/thermodynamics.py", "the cached range limits TMin/TMax{High,Low}T are stored only by Thermodynamics.__init__ and setExtrapolate (where the "
           "coefficients are matched)", not bad and not outside and set(writers) >= {"setExtrapolate"}, f"other writers: {bad} {outside[:4]}", key="limit-writers")


def rules(chk: Check) -> None:
    S = chk.src
    chk.src.cls(TH)
    T = sp.Symbol("temperature", real=True)
    exu = Extractor(S, positive={"temperature"})  # nothing inlined
    T = exu.sym("temperature")
    # e, w and de of one phase may be written in terms of each other (e = w - p, w = e + p, ...): the identities are decided with the
    # definitions of the sibling methods e / w / de of the SAME phase looked through, so that every term ends in p, dp, ddp of that phase.
    # A method of the other phase is never looked through: it stays an uninterpreted function and the identity fails.
    sib = {X: Extractor(S, positive={"temperature"}, inline=lambda n, X=X: n in {f"{TH}.{f}{X}" for f in ("e", "w", "de")}) for X in PHASES}

    branch: dict = {}
    # ---------------- R10.1 / R10.2 / R10.5 -------------------------------
    for X in PHASES:
        other = "LowT" if X == "HighT" else "HighT"
        for f in ("p", "dp", "ddp", "csq"):
            fi = _positional_free_energy_calls(S, S.func(f"{TH}.{f}{X}"))
            chk.touch(fi.name)
            exf = sib[X] if f == "csq" else exu        # csq = dp/de may equally be written w/(T de): branches compared as terms in p, dp, ddp
            paths = exf.returns(fi)
            got = {}
            for p in paths:
                c, foreign = _classify(p, X, T, exf)
                chk.ob("R10.1", fi.where(), f"{f}{X}: branch guard `{p.gtext()}` compares the temperature with the bounds of the {X} phase only",
                       not foreign, "; ".join(foreign), key=f"guard|{f}{X}|{c}")
                chk.ob("R10.1", fi.where(), f"{f}{X}: branch guard `{p.gtext()}` is strict, so exactly at the range end the tabulated branch is taken "
                       "(setExtrapolate matches its coefficients to the table by evaluating these functions at TMin/TMax themselves)",
                       not p.nonstrict or f == "csq", "; ".join(p.nonstrict), key=f"strict|{f}{X}|{c}")
                if c in got:
                    chk.ob("R10.1", fi.where(), f"{f}{X}: one {c} branch", False, "duplicate branch", key=f"dup|{f}{X}|{c}")
                got[c] = p.value
            chk.ob("R10.1", fi.where(), f"{f}{X}: has lower, upper and table branches",
                   set(got) == {"lower", "upper", "table"}, str(sorted(got)), key=f"branches|{f}{X}")
            branch[(f, X)] = got
            for side, tag in (("lower", "Min"), ("upper", "Max")):
                v = got.get(side)
                if v is None or not isinstance(v, sp.Basic):
                    continue
                names = {s.name for s in v.free_symbols}
                allowed = {"temperature", f"self.mu{tag}{X}", f"self.a{tag}{X}", f"self.epsilon{tag}{X}",
                           f"self.T{tag}{X}"}
                extra = names - allowed
                chk.ob("R10.1", fi.where(), f"{f}{X} {side} branch uses only the {tag} coefficients of the {X} phase",
                       not extra, f"foreign symbols: {sorted(extra)}", key=f"coeffs|{f}{X}|{side}")
        # R10.2
        for side in ("lower", "upper"):
            p_, dp_, ddp_ = (branch[(f, X)].get(side) for f in ("p", "dp", "ddp"))
            if p_ is None or dp_ is None or ddp_ is None:
                continue
            ok, how = is_zero(sp.diff(p_, T) - dp_, chk.seed)
            chk.ob("R10.2", S.func(f"{TH}.dp{X}").where(), f"{X} {side} branch: dp == d/dT p", ok, how,
                   key=f"dp|{X}|{side}", how=how)
            ok, how = is_zero(sp.diff(dp_, T) - ddp_, chk.seed)
            chk.ob("R10.2", S.func(f"{TH}.ddp{X}").where(), f"{X} {side} branch: ddp == d/dT dp", ok, how,
                   key=f"ddp|{X}|{side}", how=how)
        # R10.5 table branches
        attr = fn("attr_veffValue")
        exp_p = -attr(fn(FE[X])(T))
        exp_dp = -attr(fn(f"{FE[X]}.derivative")(T, 1))
        exp_ddp = -attr(fn(f"{FE[X]}.derivative")(T, 2))
        for f, want in (("p", exp_p), ("dp", exp_dp), ("ddp", exp_ddp)):
            v = branch[(f, X)].get("table")
            chk.ob("R10.5", S.func(f"{TH}.{f}{X}").where(),
                   f"{f}{X} table branch is {want}", v is not None and sp.simplify(v - want) == 0, f"found {v}",
                   key=f"table|{f}{X}")

    # ---------------- R10.3 ------------------------------------------------
    inl = Extractor(S, positive={"temperature"},
                    inline=lambda n: n.split(".")[-1][:2] in ("eH", "eL", "wH", "wL", "de") and n.startswith(TH))
    Tt = inl.sym("temperature")
    for X in PHASES:
        P, DP, DDP = fn(f"p{X}"), fn(f"dp{X}"), fn(f"ddp{X}")
        for f, want in (("e", Tt * DP(Tt) - P(Tt)), ("w", Tt * DP(Tt)), ("de", Tt * DDP(Tt))):
            fi = S.func(f"{TH}.{f}{X}")
            chk.touch(fi.name)
            v = sib[X].single(fi)
            ok, how = is_zero(v - want.subs(Tt, T), chk.seed)
            chk.ob("R10.3", fi.where(), f"{f}{X}(T) == {want}", ok, f"found {v}", key=f"rel|{f}{X}", how=how)
        # de is the T-derivative of e when dp = p', ddp = dp'
        pf = sp.Function("pf")
        e_gen = T * sp.diff(pf(T), T) - pf(T)
        de_gen = T * sp.diff(pf(T), T, 2)
        ok, how = is_zero(sp.diff(e_gen, T) - de_gen, chk.seed)
        chk.ob("R10.3", S.func(f"{TH}.de{X}").where(), f"de{X} = T ddp is d/dT (T dp - p)", ok, how,
               key=f"de-consistency|{X}", how=how)
        # csq: all three branches
        fi = _positional_free_energy_calls(S, S.func(f"{TH}.csq{X}"))
        for side, arg in (("table", Tt), ("lower", inl.sym(f"self.TMin{X}")), ("upper", inl.sym(f"self.TMax{X}"))):
            paths = inl.returns(fi)
            val = None
            for p in paths:
                c, _ = _classify(p, X, Tt, inl)
                if c == side:
                    val = p.value
            want = DP(arg) / (arg * DDP(arg))
            ok, how = (None, "branch missing") if val is None else is_zero(val - want, chk.seed)
            chk.ob("R10.3", fi.where(), f"csq{X} {side} branch == dp/de at {arg}", ok, f"found {val}; {how}",
                   key=f"csq|{X}|{side}", how=how)

    # ---------------- R10.4 / R10.6(b) ---------------------------------------
    fi = S.func(f"{TH}.setExtrapolate")
    chk.touch(fi.name)
    # R10.6(c): the range ends are refreshed BEFORE the matching evaluates p / w / csq at them: those functions choose the table branch or the
    # extrapolation branch by comparing with self.TMin* / self.TMax*, so with stale ends the new template is matched to the old extrapolation
    from ..flow import CFG as _CFG
    g_ = _CFG(fi.node)
    eos = re.compile(r"^(p|dp|ddp|w|e|de|csq)(HighT|LowT)$")
    nested_eos = {f.node.name for f in S.modules[fi.module].funcs.values() if f.parent is fi
                  and any(isinstance(c_, ast.Call) and isinstance(c_.func, ast.Attribute) and eos.match(c_.func.attr or "") for c_ in ast.walk(f.node))}

    def evaluates_eos(q) -> bool:
        for c_ in _own_calls(q):
            f_ = c_.func
            if isinstance(f_, ast.Attribute) and isinstance(f_.value, ast.Name) and f_.value.id == "self" and eos.match(f_.attr):
                return True
            if isinstance(f_, ast.Name) and f_.id in nested_eos:
                return True
        return False

    def stores(q, attr) -> bool:
        if not isinstance(q, (ast.Assign, ast.AnnAssign)):
            return False
        tg = q.targets if isinstance(q, ast.Assign) else [q.target]
        return any(isinstance(x, ast.Attribute) and x.attr == attr and isinstance(x.value, ast.Name) and x.value.id == "self" and isinstance(x.ctx, ast.Store)
                   for t in tg for x in ast.walk(t))

    users = [q for q in g_.nodes if g_.kind.get(q) not in ("def", "handler") and evaluates_eos(q)]
    late = []
    for X in PHASES:
        for tag in ("Min", "Max"):
            attr = f"T{tag}{X}"
            for q in users:
                if not g_.must_pass(_CFG.ENTRY, q, lambda z, attr=attr, q=q: z is not q and stores(z, attr)):
                    late.append(f"self.{attr} not yet refreshed at line {getattr(q, 'lineno', '?')}")
    chk.ob("R10.6", fi.where(), "setExtrapolate refreshes the four range ends before it evaluates p / w / csq at them (the table-or-template branch of "
           "those functions is chosen by the stored ends)", bool(users) and not late, "; ".join(sorted(set(late)))[:300], key="refresh-before-matching")
    ps = inl.paths(fi)        # e / w / de looked through: the coefficients are terms in csq, p, dp, ddp of a named phase at a named temperature
    if len(ps) != 1:
        raise Undecided("setExtrapolate: expected straight-line code")
    env = ps[0].env
    for X in PHASES:
        for tag, mm in (("Min", "min"), ("Max", "max")):
            bsym = exu.sym(f"self.{FE[X]}.{mm}PossibleTemperature[0]")
            got = env.get(f"self.T{tag}{X}")
            chk.ob("R10.6", fi.where(), f"setExtrapolate refreshes T{tag}{X} from {FE[X]}.{mm}PossibleTemperature[0]",
                   got == bsym, f"found {got}", key=f"refresh|T{tag}{X}")
            Tb = sp.Symbol("Tb", positive=True)
            P0, DP0, DDP0 = sp.Symbol("P0", real=True), sp.Symbol("DP0", positive=True), sp.Symbol("DDP0", positive=True)
            coeff = {}
            missing = False
            for c in ("mu", "a", "epsilon"):
                v = env.get(f"self.{c}{tag}{X}")
                if not isinstance(v, sp.Basic):
                    missing = True
                    continue
                coeff[c] = v
            if missing:
                chk.ob("R10.4", fi.where(), f"setExtrapolate assigns mu/a/epsilon {tag}{X}", False, "assignment missing",
                       key=f"assign|{tag}{X}")
                continue

            def ground(v):
                # evaluate table functions at the boundary of the matching phase
                out = v
                for ph in PHASES:
                    for nm, rep in ((f"csq{ph}", lambda x, ph=ph: DP0 / (Tb * DDP0)), (f"w{ph}", lambda x: Tb * DP0),
                                    (f"p{ph}", lambda x: P0), (f"dp{ph}", lambda x: DP0), (f"ddp{ph}", lambda x: DDP0)):
                        if ph == X:
                            out = out.replace(fn(nm), lambda x, rep=rep, nm=nm: rep(x) if x == bsym else fn(nm + "_WRONGARG")(x))
                return out.subs(bsym, Tb)

            # sequential substitution (a depends on mu, epsilon on a, mu)
            vals = {c: ground(coeff[c]) for c in coeff}
            bad = [str(v) for v in vals.values()
                   if any(isinstance(a, sp.core.function.AppliedUndef) for a in v.atoms(sp.Function))]
            chk.ob("R10.4", fi.where(), f"{tag}{X} coefficients are built from csq{X}, w{X}, p{X} at T{tag}{X} only",
                   not bad, "; ".join(bad)[:200], key=f"pairing|{tag}{X}")
            if bad:
                continue
            side = "lower" if tag == "Min" else "upper"
            sub = {exu.sym(f"self.{c}{tag}{X}"): vals[c] for c in vals}
            sub[T] = Tb
            sub[exu.sym(f"self.T{tag}{X}")] = Tb
            for f, tab in (("p", P0), ("dp", DP0), ("ddp", DDP0)):
                v = branch[(f, X)].get(side)
                if v is None:
                    continue
                res = v.subs(sub, simultaneous=True) - tab
                ok, how = is_zero(res, chk.seed)
                chk.ob("R10.4", fi.where(), f"{f}{X} is continuous at T{tag}{X} (extrapolation == table value)", ok,
                       f"residual {sp.simplify(res) if ok is False else ''} {how}", key=f"cont|{f}{X}|{tag}", how=how)
            # constant sound speed in the extrapolated region: dp/(T ddp) of the branch == 1/(mu-1) == csq(Tb)
            dpv, ddpv = branch[("dp", X)].get(side), branch[("ddp", X)].get(side)
            if dpv is not None and ddpv is not None:
                cs = (dpv / (T * ddpv)).subs({exu.sym(f"self.{c}{tag}{X}"): vals[c] for c in vals}, simultaneous=True)
                ok, how = is_zero(cs - DP0 / (Tb * DDP0), chk.seed)
                chk.ob("R10.4", fi.where(), f"sound speed of the {side} extrapolation of {X} is constant and equals csq{X}(T{tag}{X})",
                       ok, how, key=f"cs|{X}|{tag}", how=how)

    # ---------------- R10.5 (spline derivatives) -----------------------------
    f_int = normalised(S, S.func("interpolatableFunction:InterpolatableFunction._interpolate"))      # a loop over the literal orders is written out
    chk.touch(f_int.name)
    ci = Ctx(S, f_int)
    gi = CFG(f_int.node)
    FN, DER = "self._interpolatedFunction", "self._interpolatedDerivatives"

    def stores_of(attr):
        """[(statement, value)] of the stores into self.<attr>: `a, b = x, y` is two assignments (value None: a store that is not decoded)"""
        out = []
        for st in own_nodes(f_int.node):
            if isinstance(st, ast.Assign):
                for t in st.targets:
                    if dotted(t) == attr:
                        out.append((st, st.value))
                    elif isinstance(t, (ast.Tuple, ast.List)) and any(dotted(x) == attr for x in ast.walk(t)):
                        v = st.value
                        if len(st.targets) == 1 and isinstance(v, (ast.Tuple, ast.List)) and len(v.elts) == len(t.elts) \
                                and not any(isinstance(x, ast.Starred) for x in list(t.elts) + list(v.elts)) and all(dotted(x) == attr or not any(
                                    dotted(y) == attr for y in ast.walk(x)) for x in t.elts):
                            out += [(st, vv) for tt, vv in zip(t.elts, v.elts) if dotted(tt) == attr]
                        else:
                            out.append((st, None))
            elif isinstance(st, (ast.AnnAssign, ast.AugAssign)) and dotted(st.target) == attr:
                out.append((st, st.value if isinstance(st, ast.AnnAssign) else None))
            elif isinstance(st, (ast.For, ast.AsyncFor, ast.With, ast.AsyncWith, ast.NamedExpr, ast.Delete)):
                tg = [st.target] if isinstance(st, (ast.For, ast.AsyncFor, ast.NamedExpr)) else (
                    st.targets if isinstance(st, ast.Delete) else [i.optional_vars for i in st.items if i.optional_vars is not None])
                if any(dotted(x) == attr for t in tg for x in ast.walk(t)):
                    out.append((st, None))
        return out

    fn_stores = stores_of(FN)
    # the value spline may be built into a local first (`spline = CubicSpline(..); self._interpolatedFunction = spline`): that local -- a single-assignment
    # name, so the same object wherever it is read -- IS the stored spline when the store is the only one and is executed on every path
    defs_i = ci.local_defs()
    locals_of_spline: set = set()
    if len(fn_stores) == 1 and isinstance(fn_stores[0][1], ast.Name) and fn_stores[0][1].id in defs_i \
            and gi.must_pass(CFG.ENTRY, CFG.EXIT, lambda z: z is fn_stores[0][0]):
        x_ = fn_stores[0][1]
        for _ in range(4):
            if not (isinstance(x_, ast.Name) and x_.id in defs_i):
                break
            locals_of_spline.add(x_.id)
            x_ = defs_i[x_.id]
    spline_same = bool(fn_stores) and all(v is not None and isinstance(ci.resolve(v), ast.Call) and (dotted(ci.resolve(v).func) or "").endswith("CubicSpline")
                                          for _, v in fn_stores)

    def of_value_spline(recv, at) -> bool:
        """the receiver of .derivative, evaluated in statement `at`, is the spline this call stores in self._interpolatedFunction"""
        if isinstance(recv, ast.Name) and recv.id in locals_of_spline:
            return True
        # read back from the attribute: only after the store (a read in the storing statement itself, or before it, sees the previous spline)
        return eqx(recv, FN, ci) and bool(fn_stores) and all(st is not at for st, _ in fn_stores) \
            and gi.must_pass(CFG.ENTRY, at, lambda z: any(z is st for st, _ in fn_stores))

    der_stores = stores_of(DER)
    ok_list = bool(der_stores)
    for n_, value in der_stores:
        if value is None:
            ok_list = False
            continue
        items = [(e, n_) for e in _elements(ci.resolve(value, keep=locals_of_spline))] if not (isinstance(value, ast.List) and not value.elts) else []
        # elements appended to the list afterwards: one unconditional statement each, in program order
        for q in gi.nodes:
            if isinstance(q, ast.Expr) and isinstance(q.value, ast.Call) and isinstance(q.value.func, ast.Attribute) and q.value.func.attr in ("append", "extend", "insert") \
                    and eqx(q.value.func.value, DER, ci):
                plain = q.value.func.attr == "append" and len(q.value.args) == 1 and not q.value.keywords and gi.must_pass(CFG.ENTRY, CFG.EXIT, lambda z, q=q: z is q) \
                    and gi.must_pass(CFG.ENTRY, q, lambda z: z is n_)
                items.append((q.value.args[0] if plain else None, q))
        orders = []
        for e, at in items:
            e = ci.resolve(e, keep=locals_of_spline) if e is not None else None
            nu = kwarg(e, "nu", 0) if isinstance(e, ast.Call) else None
            if isinstance(e, ast.Call) and isinstance(e.func, ast.Attribute) and e.func.attr == "derivative" and of_value_spline(e.func.value, at) \
                    and isinstance(nu, ast.Constant) and type(nu.value) is int:
                orders.append(nu.value)
            else:
                orders.append(None)
        ok_list = ok_list and orders == [1, 2]
    chk.ob("R10.5", f_int.where(), "_interpolatedDerivatives == [spline.derivative(1), spline.derivative(2)] of the value spline",
           ok_list and spline_same, key="spline|derivlist")
    f_der = S.func("interpolatableFunction:InterpolatableFunction.derivative")
    chk.touch(f_der.name)
    cd = Ctx(S, f_der)
    dprm = [p_ for p_ in f_der.params() if p_ != "self"]
    idx_ok = False
    for n_ in own_nodes(f_der.node):
        if isinstance(n_, ast.Subscript) and eqx(n_.value, "self._interpolatedDerivatives", cd) and len(dprm) >= 2:
            idx_ok = eqx(n_.slice, f"{dprm[1]} - 1", cd)
    chk.ob("R10.5", f_der.where(), "derivative() selects _interpolatedDerivatives[order - 1]", idx_ok, key="spline|index")
    f_fed = S.func("freeEnergy:FreeEnergy.derivative")
    chk.touch(f_fed.name)
    cf = Ctx(S, f_fed)
    fprm = [p_ for p_ in f_fed.params() if p_ != "self"]
    sup = [c for c in own_nodes(f_fed.node) if isinstance(c, ast.Call) and isinstance(c.func, ast.Attribute)
           and c.func.attr == "derivative" and isinstance(c.func.value, ast.Call)
           and dotted(c.func.value.func) == "super"]
    okp = False
    if sup and len(dprm) >= 2 and len(fprm) >= 2:
        # (points, order) of the parent signature receive the first two parameters of the override, by position or keyword
        x = kwarg(sup[0], dprm[0], 0)
        o = kwarg(sup[0], dprm[1], 1)
        okp = x is not None and o is not None and eqx(x, fprm[0], cf) and eqx(o, fprm[1], cf) \
            and not any(isinstance(st, (ast.Assign, ast.AugAssign)) and any(isinstance(y, ast.Name) and isinstance(y.ctx, ast.Store) and y.id in fprm[:2] for y in ast.walk(st))
                        for st in own_nodes(f_fed.node))
    chk.ob("R10.5", f_fed.where(), "FreeEnergy.derivative forwards x and order unchanged to the spline machinery", okp,
           key="spline|forward")
    # FreeEnergyValueType.fromArray: veffValue is the last column, fields the others
    f_fa = S.func("freeEnergy:FreeEnergyValueType.fromArray")
    chk.touch(f_fa.name)
    ca = Ctx(S, f_fa)
    aprm = f_fa.params()
    A = aprm[0] if aprm else "arr"
    assigned: dict = {}
    for n_ in own_nodes(f_fa.node):
        if isinstance(n_, ast.Assign) and len(n_.targets) == 1 and isinstance(n_.targets[0], ast.Name):
            assigned.setdefault(n_.targets[0].id, []).append(n_.value)

    def col_kind(e, depth=0) -> set:
        """which part of the row array an expression holds: {'last'}, {'rest'}, or something else"""
        if depth > 4:
            return {"?"}
        if any(eqx(e, f"{A}[{sl}]") for sl in ("-1", ":, -1", "..., -1")):
            return {"last"}
        if any(eqx(e, f"{A}[{sl}]") for sl in (":-1", ":, :-1", "..., :-1")):
            return {"rest"}
        if isinstance(e, ast.Name) and e.id in assigned:
            out = set()
            for v in assigned[e.id]:
                if isinstance(v, ast.Subscript) and isinstance(v.value, ast.Name) and v.value.id == e.id and eqx(v.slice, "0"):
                    continue        # the single row of a one-row table
                out |= col_kind(v, depth + 1)
            return out
        if isinstance(e, ast.Call) and e.args and not e.keywords and len(e.args) == 1 and (dotted(e.func) or "").split(".")[-1] in ("castFromNumpy", "asarray", "Fields"):
            return col_kind(e.args[0], depth + 1)
        return {"?"}
    ctor = [c for c in calls_in(f_fa.node, "FreeEnergyValueType")]
    ok_fa = False
    if ctor:
        vv = kwarg(ctor[0], "veffValue", 0)
        ff = kwarg(ctor[0], "fieldsAtMinimum", 1)
        ok_fa = vv is not None and ff is not None and col_kind(vv) == {"last"} and col_kind(ff) == {"rest"}
    f_fi = S.func("freeEnergy:FreeEnergy._functionImplementation")
    cfi = Ctx(S, f_fi)
    ok_fi = False
    firsts = [n_.targets[0].elts[0] for n_ in own_nodes(f_fi.node) if isinstance(n_, ast.Assign) and isinstance(n_.targets[0], ast.Tuple) and n_.targets[0].elts
              and isinstance(n_.value, ast.Call) and (dotted(n_.value.func) or "").endswith("findLocalMinimum")]
    for c in calls_in(f_fi.node, "concatenate"):
        a0 = cfi.resolve(c.args[0]) if c.args else None
        ax = kwarg(c, "axis", 1)
        ax = cfi.resolve(ax) if ax is not None else None
        if isinstance(a0, (ast.Tuple, ast.List)) and len(a0.elts) == 2 and ax is not None and (eqx(ax, "1") or eqx(ax, "-1")):
            # (locations, potential column): the first element is the value returned first by findLocalMinimum
            ok_fi = len(firsts) == 1 and isinstance(firsts[0], ast.Name) and eqx(a0.elts[0], firsts[0].id)
    chk.ob("R10.5", f_fa.where(), "free-energy rows are [fields..., Veff] in writer (_functionImplementation) and reader (fromArray)",
           ok_fa and ok_fi, key="row-layout")

    # ---------------- R10.6 ordering in the manager --------------------------
    # (loops over literal cases are written out and procedures that contain one of the anchored calls are looked into: see c01.normalised)
    fm = normalised(S, S.func("manager:WallGoManager.setupThermodynamicsHydrodynamics"))
    chk.touch(fm.name)
    g = CFG(fm.node)
    n_ext = g.stmts_calling("setExtrapolate")
    n_hyd = g.stmts_calling("_initHydrodynamics")
    n_trc = g.stmts_calling("initTemperatureRange")
    if not n_hyd or not n_trc:
        raise AnchorMissing("manager.setupThermodynamicsHydrodynamics: anchors not found")
    ok = bool(n_ext) and all(g.must_pass(CFG.ENTRY, h, lambda n: n in n_ext) for h in n_hyd)
    chk.ob("R10.6", fm.where(), "every path to _initHydrodynamics() passes thermodynamics.setExtrapolate()", ok,
           key="order|extrapolate-before-hydro")
    ok = bool(n_ext) and all(g.must_pass(CFG.ENTRY, e, lambda n: n in n_trc) for e in n_ext)
    chk.ob("R10.6", fm.where(), "every path to setExtrapolate() passes initTemperatureRange() (both phases traced)", ok,
           key="order|trace-before-extrapolate")
    fr = normalised(S, S.func("manager:WallGoManager.initTemperatureRange"))
    chk.touch(fr.name)
    cr = Ctx(S, fr)
    tr = calls_in(fr.node, "tracePhase")
    # whose phase is traced: the receiver of each tracePhase call, temporaries looked through
    traced = {nf(cr.resolve(c.func.value), cr) for c in tr if isinstance(c.func, ast.Attribute)}
    both = {nf_of_pattern(f"self.thermodynamics.{FE[X]}", cr) for X in PHASES}
    chk.ob("R10.6", fr.where(), "initTemperatureRange traces both free energies", len(tr) >= 2 and both <= traced,
           f"{len(tr)} tracePhase calls, on {sorted(traced)}", key="order|two-traces")
    # Hydrodynamics is only constructed in _initHydrodynamics
    ctor = []
    for fi2 in S.modules["manager"].funcs.values():
        for c in calls_in(fi2.node, "Hydrodynamics"):
            if dotted(c.func) == "Hydrodynamics":
                ctor.append(fi2.qual)
    chk.ob("R10.6", "src/WallGo/manager.py", "Hydrodynamics(...) is constructed only by _initHydrodynamics",
           ctor == ["WallGoManager._initHydrodynamics"], str(ctor), key="order|ctor")

    # ---------------- R10.7 mirror -------------------------------------------
    def mirror(v):
        if not isinstance(v, sp.Basic):
            return v
        rep = {}
        for s in v.free_symbols:
            rep[s] = sp.Symbol(s.name.replace("HighT", "LowT").replace("freeEnergyHigh", "freeEnergyLow"), **s.assumptions0)
        out = v.xreplace(rep)
        for a in list(out.atoms(sp.Function)):
            if isinstance(a, sp.core.function.AppliedUndef):
                nm = a.func.__name__
                nn = nm.replace("HighT", "LowT").replace("freeEnergyHigh", "freeEnergyLow")
                if nn != nm:
                    out = out.replace(fn(nm), fn(nn))
        return out

    for f in ("p", "dp", "ddp", "csq"):
        for side in ("lower", "upper", "table"):
            a, b = branch[(f, "HighT")].get(side), branch[(f, "LowT")].get(side)
            if a is None or b is None:
                continue
            ok, how = is_zero(mirror(a) - b, chk.seed)
            chk.ob("R10.7", S.func(f"{TH}.{f}LowT").where(), f"{f}LowT {side} branch mirrors {f}HighT", ok, how,
                   key=f"mirror|{f}|{side}", how=how)
    for f in ("e", "de", "w"):
        a, b = sib["HighT"].single(S.func(f"{TH}.{f}HighT")), sib["LowT"].single(S.func(f"{TH}.{f}LowT"))      # siblings of the same phase looked through
        ok, how = is_zero(mirror(a) - b, chk.seed)
        chk.ob("R10.7", S.func(f"{TH}.{f}LowT").where(), f"{f}LowT mirrors {f}HighT", ok, how, key=f"mirror|{f}", how=how)

    chk.floor("R10.1", 50)
    chk.floor("R10.2", 8)
    chk.floor("R10.3", 14)
    chk.floor("R10.4", 16)
    chk.floor("R10.5", 10)
    chk.floor("R10.6", 8)
    chk.floor("R10.7", 15)
    # R10.8: the tabulated range of each phase is that phase's own: no mutable class-level attribute of the free-energy / interpolation classes is
    # mutated in place (two phases sharing one [T, flag] list would clip each other's range and move the extrapolation points)
    from .shared import per_object_state
    chk.stage(per_object_state, chk, "R10.8", ("Thermodynamics", "FreeEnergy", "InterpolatableFunction"))
    chk.stage(_range_limit_writers, chk)
