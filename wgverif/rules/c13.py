"""C13 -- out-of-equilibrium moments are the momentum integrals they are defined to be.

R13.1 measure and the four weights; which Delta receives which weight; axes and Jacobians
R13.2 deltaToTmunu: T30/T33 equal the direct moment expression of p^mu p^nu boosted to the wall frame
R13.3 linearity: no weight depends on deltaF
R13.4 boundary points dropped consistently; container arithmetic maps each Delta to itself
R13.5 cached momenta and Jacobians consumed by the moments stay mutually consistent under rescaling (typestate rule shared with C17)

Recognition is spelling-independent: getDeltas is read through the forward substitution of c12 (`Flat`: locals, temporaries and
simple helpers are replaced by their definitions) and every weight is compared as a sympy term over ROLE symbols (momenta,
Jacobians, masses: identified by the public attribute / method they are read from); arguments are bound by keyword or position.
Copy-pasted statements folded into one comprehension / loop over a literal collection of cases (tuple, list, dict display, zip / enumerate /
.items() of them; unpacked, indexed, or splatted into a call with * / **) are written out case by case first (`written_out`).  One loop that
fills several collections (with loop-local temporaries) is one comprehension per collection; `dataclasses.fields(self)` / `__dataclass_fields__`
of a dataclass of the package are its declared field names, `getattr(x, "name")` is `x.name`, tests between written-out labels are decided.
A tuple / list of literal labels bound once at class level or module level and never re-bound / changed anywhere in the package (`_class_constant`,
`_module_constant`) is that display wherever it is read; `dataclasses.replace(obj, **changes)` on an instance of the method's own dataclass is the
constructor call with the fields not named taken from obj; a class-level alias `__rmul__ = __mul__` is that method (`_builder`).
`functools.partial(f, a, k=v)(b)` -- written directly or through a single-assignment local that holds the partial object -- is `f(a, b, k=v)` when f
and the frozen arguments are stable paths / literals (`_partial_call`).
"""
from __future__ import annotations

import ast
import copy

import sympy as sp

from ..core import AnchorMissing, Check, FuncInfo, Undecided, calls_in, dotted, kwarg, own_nodes, src
from ..flow import CFG
from ..nf import Ctx, eqx, has, nf, same
from ..terms import Extractor, SUM, is_zero
from .c12 import Flat, Roles, _leaf_axis

LEVEL = "other"
BS = "boltzmann:BoltzmannSolver"
DELTAS = ("Delta00", "Delta02", "Delta20", "Delta11")


def n(x) -> str:
    return " ".join(src(x).split())


def _fields(ci) -> list:
    """field names of a dataclass, in declaration order"""
    return [st.target.id for st in ci.node.body if isinstance(st, ast.AnnAssign) and isinstance(st.target, ast.Name)]


def _ctor_args(call: ast.Call, fields: list) -> dict:
    """{field: value} of a dataclass construction, keywords and positions alike"""
    out = {f: a for f, a in zip(fields, call.args)}
    for k in call.keywords:
        if k.arg is not None:
            out[k.arg] = k.value
    return out


def _none_given(param: str):
    """the optional argument is given: decides `param is None` as False"""
    def choose(t):
        if eqx(t, f"{param} is None"):
            return False
        if eqx(t, f"{param} is not None"):
            return True
        return None
    return choose


# ------------------------------------------------------------------------------------------------ comprehensions over literal cases
# Four copy-pasted statements (`Delta02 = poly.integrate((2, 3), pz**2 * w)` ..., `Delta02 = deltas.Delta02.coefficients[:, i]` ...) may be
# folded into one comprehension over a literal collection of cases -- a tuple / list / dict display, possibly held in a single-assignment
# temporary, possibly through zip / enumerate / .items() -- whose result is unpacked (`a, b = (f(x) for x in (p, q))`) or splatted into a
# call (`C(**{k: f(w) for k, w in weights.items()})`, `C(*[f(w) for w in ws])`).  `written_out` writes such code out again: one element per
# case with the comprehension variables substituted, `**{"k": v}` as the keyword argument `k=v`, `*[a, b]` as positional arguments.  The
# written-out form evaluates the same element expressions on the same case values in the same order, so the rules see the statements the
# folded form executes, whichever way the code is folded.  A loop that only collects (`X = {}` + `for ..: X[k] = v`, `X = []` + `for ..:
# X.append(v)`) is the comprehension it spells (`_collecting_loops`); `d["k"]` / `t[1]` of a display held in a local that is only read is
# that element; other `for` statements over literal cases are written out by c01.normalised.  A list / dict that is stored into, aliased or
# handed to a callee after it was built is not a literal collection (`frozen`): code folded over it is left as it is, and the rule reports.


def _binds(e) -> set:
    """names bound by lambdas / comprehensions inside e"""
    out = set()
    for x in ast.walk(e):
        if isinstance(x, ast.Lambda):
            out |= {a.arg for a in ast.walk(x.args) if isinstance(a, ast.arg)}
        elif isinstance(x, ast.comprehension):
            out |= {t.id for t in ast.walk(x.target) if isinstance(t, ast.Name)}
        elif isinstance(x, ast.NamedExpr):
            out |= {t.id for t in ast.walk(x.target) if isinstance(t, ast.Name)}
    return out


# -- constants: a tuple / list display of literal labels that is bound exactly once, directly in a class body or at module level, and that nothing in
#    the package re-binds, shadows, deletes or (for a list) changes or keeps.  A read of such a name evaluates to that display, whatever path led there.
_READ_CALLS = ("len", "zip", "enumerate", "tuple", "list", "sorted", "reversed", "set", "frozenset")
_SCAN: dict = {}
_DEFS = (ast.FunctionDef, ast.AsyncFunctionDef, ast.ClassDef)


def _label_display(v) -> bool:
    return isinstance(v, (ast.Tuple, ast.List)) and 0 < len(v.elts) <= 12 \
        and all(isinstance(e, ast.Constant) and isinstance(e.value, (str, int)) and not isinstance(e.value, bool) for e in v.elts)


def _bound_in(fnode) -> set:
    """names bound somewhere inside a function (parameters, stores, definitions, imports, global / nonlocal declarations; nested scopes included)"""
    out = set()
    for x in ast.walk(fnode):
        if isinstance(x, ast.Name) and isinstance(x.ctx, (ast.Store, ast.Del)):
            out.add(x.id)
        elif isinstance(x, ast.arg):
            out.add(x.arg)
        elif isinstance(x, _DEFS) and x is not fnode:
            out.add(x.name)
        elif isinstance(x, (ast.Global, ast.Nonlocal)):
            out |= set(x.names)
        elif isinstance(x, (ast.Import, ast.ImportFrom)):
            out |= {(al.asname or al.name).split(".")[0] for al in x.names}
        elif isinstance(x, ast.ExceptHandler) and x.name:
            out.add(x.name)
        elif isinstance(x, (ast.MatchAs, ast.MatchStar)) and x.name:
            out.add(x.name)
    return out


def _scope_bindings(body, name: str) -> list:
    """the statements of a class / module body (compound statements entered, function and class bodies not) that bind `name`"""
    out = []
    stack = list(body)
    while stack:
        x = stack.pop()
        if isinstance(x, _DEFS):
            if x.name == name:
                out.append(x)
            # decorators / defaults / base classes are evaluated in this scope (a walrus there binds here)
            stack.extend(x.decorator_list)
            continue
        if isinstance(x, ast.Lambda):
            continue
        if isinstance(x, ast.Name) and isinstance(x.ctx, (ast.Store, ast.Del)) and x.id == name:
            out.append(x)
        elif isinstance(x, (ast.Import, ast.ImportFrom)) and any((al.asname or al.name).split(".")[0] == name or al.name == "*" for al in x.names):
            out.append(x)
        elif isinstance(x, (ast.Global, ast.Nonlocal)) and name in x.names:
            out.append(x)
        elif isinstance(x, ast.ExceptHandler) and x.name == name:
            out.append(x)
        stack.extend(ast.iter_child_nodes(x))
    return out


def _package_scan(S) -> dict:
    hit = _SCAN.get(id(S))
    if hit is not None and hit[0] is S:
        return hit[1]
    sc = {"stored": set(), "dynamic": set(), "any": False, "imported": {}, "globals": {}, "class_level": {}}
    for mn, m in S.modules.items():
        for x in ast.walk(m.tree):
            if isinstance(x, ast.Attribute) and isinstance(x.ctx, (ast.Store, ast.Del)):
                sc["stored"].add(x.attr)
            elif isinstance(x, ast.Attribute) and x.attr in ("__dict__", "__setattr__", "__delattr__"):
                sc["dynamic"].add(mn)
            elif isinstance(x, ast.Call) and (dotted(x.func) or "").split(".")[-1] in ("setattr", "delattr"):
                a = x.args[1] if len(x.args) > 1 else None
                if isinstance(a, ast.Constant) and isinstance(a.value, str):
                    sc["stored"].add(a.value)
                else:
                    sc["any"] = True
            elif isinstance(x, ast.Call) and dotted(x.func) in ("globals", "vars", "locals"):
                sc["dynamic"].add(mn)
            elif isinstance(x, ast.ImportFrom):
                for al in x.names:
                    sc["imported"].setdefault(al.name, set()).add(mn)
            elif isinstance(x, ast.Global):
                sc["globals"].setdefault(mn, set()).update(x.names)
            elif isinstance(x, ast.ClassDef):
                for st in x.body:
                    for t in (st.targets if isinstance(st, ast.Assign) else [st.target] if isinstance(st, (ast.AnnAssign, ast.AugAssign)) else []):
                        for y in ast.walk(t):
                            if isinstance(y, ast.Name):
                                sc["class_level"].setdefault(y.id, set()).add(id(x))
                    if isinstance(st, _DEFS):
                        sc["class_level"].setdefault(st.name, set()).add(id(x))
    _SCAN[id(S)] = (S, sc)
    return sc


def _only_read(roots, is_ref) -> bool:
    """every reference to the collection under `roots` only reads it: iterates over it, indexes / slices it, measures it, asks for membership, hands
    it to a builtin that builds something new from its elements (a reference that could change it, keep it or pass it on is none of these)"""
    for root in roots:
        parent = {id(c): p for p in ast.walk(root) for c in ast.iter_child_nodes(p)}
        for x in ast.walk(root):
            if not is_ref(x):
                continue
            p = parent.get(id(x))
            ok = (isinstance(p, (ast.For, ast.AsyncFor, ast.comprehension)) and p.iter is x) \
                or (isinstance(p, ast.Subscript) and p.value is x and isinstance(p.ctx, ast.Load)) \
                or (isinstance(p, ast.Call) and any(a is x for a in p.args) and isinstance(p.func, ast.Name) and p.func.id in _READ_CALLS) \
                or (isinstance(p, ast.Compare) and any(c is x for c in p.comparators) and all(isinstance(o, (ast.In, ast.NotIn)) for o in p.ops))
            if not ok:
                return False
    return True


def _class_constant(S, ci, name: str):
    """the display that `<instance or class>.name` evaluates to for the class ci, when `name` is such a constant of ci; else None"""
    sc = _package_scan(S)
    if name in sc["stored"] or sc["any"] or ci.module in sc["dynamic"] or name.startswith("__") or sc["class_level"].get(name, set()) != {id(ci.node)}:
        return None
    if any(mm in ci.methods for mm in ("__getattribute__", "__setattr__", "__getattr__")) or any(k.arg == "metaclass" for k in ci.node.keywords):
        return None
    binds = _scope_bindings(ci.node.body, name)
    st = next((s_ for s_ in ci.node.body if isinstance(s_, (ast.Assign, ast.AnnAssign)) and s_.value is not None
               and any(b is (s_.targets[0] if isinstance(s_, ast.Assign) and len(s_.targets) == 1 else getattr(s_, "target", None)) for b in binds)), None)
    if len(binds) != 1 or st is None or not _label_display(st.value):
        return None
    if isinstance(st, ast.AnnAssign) and "ClassVar" not in src(st.annotation) and "Final" not in src(st.annotation):
        is_dc = any("dataclass" in src(d) for d in ci.node.decorator_list)
        if is_dc or ci.bases:
            return None              # an annotated name of a dataclass is a field: each instance has its own
    if isinstance(st.value, ast.List):
        trees = [m.tree for m in S.modules.values()]
        if not _only_read(trees, lambda x: isinstance(x, ast.Attribute) and x.attr == name) \
                or not _only_read([ci.node], lambda x: isinstance(x, ast.Name) and x.id == name and isinstance(x.ctx, ast.Load)):
            return None
    return st.value


def _module_constant(S, module: str, name: str):
    """the display that the global `name` of the module evaluates to, when it is such a constant; else None"""
    sc = _package_scan(S)
    m = S.modules[module]
    if name in sc["stored"] or sc["any"] or module in sc["dynamic"] or name in sc["globals"].get(module, set()) or name.startswith("__"):
        return None
    binds = _scope_bindings(m.tree.body, name)
    st = next((s_ for s_ in m.tree.body if isinstance(s_, (ast.Assign, ast.AnnAssign)) and s_.value is not None
               and any(b is (s_.targets[0] if isinstance(s_, ast.Assign) and len(s_.targets) == 1 else getattr(s_, "target", None)) for b in binds)), None)
    if len(binds) != 1 or st is None or not _label_display(st.value):
        return None
    if isinstance(st.value, ast.List):
        if name in sc["imported"] or not _only_read([m.tree], lambda x: isinstance(x, ast.Name) and x.id == name and isinstance(x.ctx, ast.Load)):
            return None
    return st.value


class _WriteOut(ast.NodeTransformer):
    MAX_CASES = 12
    READERS = ("items", "values", "keys", "get", "copy", "index", "count")

    def __init__(self, S, fi, node):
        self.orig, self.fn = fi.node, node            # node: the copy of fi.node that is rewritten
        self.S, self.fi = S, fi
        self.defs = Ctx(S, fi).local_defs()
        self.changed = False
        self._frozen: dict = {}
        self._bound = None

    def visit_FunctionDef(self, x):
        return self.generic_visit(x) if x is self.fn else x        # nested functions have their own temporaries

    visit_AsyncFunctionDef = visit_FunctionDef

    # -- literal collections
    def frozen(self, name: str) -> bool:
        """the list / dict held by this single-assignment local is only read after it was built (never stored into, passed on or asked to change)"""
        if name not in self._frozen:
            ok = True
            parent = {id(c): p for p in ast.walk(self.orig) for c in ast.iter_child_nodes(p)}
            for x in ast.walk(self.orig):
                if not (isinstance(x, ast.Name) and x.id == name and isinstance(x.ctx, ast.Load)):
                    continue
                p = parent.get(id(x))
                if isinstance(p, (ast.Subscript, ast.Attribute)) and p.value is x:
                    pp = parent.get(id(p))
                    if not isinstance(p.ctx, ast.Load):
                        ok = False
                    elif isinstance(p, ast.Attribute) and not (isinstance(pp, ast.Call) and pp.func is p and p.attr in self.READERS):
                        ok = False
                    elif isinstance(pp, (ast.Subscript, ast.Attribute)) and pp.value is p and not isinstance(pp.ctx, ast.Load):
                        ok = False
                elif isinstance(p, ast.Call) and p.func is not x and not (isinstance(p.func, ast.Name) and p.func.id in ("len", "zip", "enumerate", "tuple", "list", "dict", "sorted", "reversed")):
                    ok = False           # handed to a callee that might keep or change it
                elif isinstance(p, ast.keyword) and p.arg is not None:
                    ok = False
                elif isinstance(p, ast.Assign) and p.value is x and all(isinstance(t, (ast.Tuple, ast.List)) for t in p.targets):
                    pass                 # unpacked
                elif isinstance(p, (ast.Assign, ast.AnnAssign, ast.AugAssign, ast.Return, ast.Tuple, ast.List, ast.Dict, ast.Set)):
                    ok = False           # aliased
            self._frozen[name] = ok
        return self._frozen[name]

    def display(self, e, kinds):
        """the display of one of `kinds` that e is (directly, or held in a single-assignment local that is only read)"""
        for _ in range(4):
            if isinstance(e, kinds):
                return e
            if isinstance(e, ast.Name) and e.id in self.defs and isinstance(self.defs[e.id], (ast.Tuple, ast.List, ast.Dict, ast.Name)) \
                    and (isinstance(self.defs[e.id], (ast.Tuple, ast.Name)) or self.frozen(e.id)):
                e = self.defs[e.id]
            else:
                return None
        return None

    def dict_items(self, e):
        d = self.display(e, ast.Dict)
        if d is None or any(k is None or not (isinstance(k, ast.Constant) and isinstance(k.value, (str, int))) for k in d.keys) \
                or len({(type(k.value), k.value) for k in d.keys}) != len(d.keys):
            return None
        return list(zip(d.keys, d.values))

    # -- a tuple / list of literal labels bound once at class level (`_COMPONENTS = ("Delta00", ..)`, read as `self._COMPONENTS`, `cls.`, `type(self).`,
    #    `ClassName.`) or at module level, and never re-bound or changed anywhere in the package: every read of it is that display
    def constant(self, e):
        if not isinstance(getattr(e, "ctx", None), ast.Load):
            return None
        if isinstance(e, ast.Attribute):
            ci = self._own_class(e.value)
            return _class_constant(self.S, ci, e.attr) if ci is not None else None
        if isinstance(e, ast.Name):
            return _module_constant(self.S, self.fi.module, e.id) if self.constant_free(e.id) else None
        return None

    def visit_Attribute(self, x):
        self.generic_visit(x)
        d = self.constant(x)
        if d is None:
            return x
        self.changed = True
        return ast.copy_location(copy.deepcopy(d), x)

    def visit_Name(self, x):
        d = self.constant(x)
        if d is None:
            return x
        self.changed = True
        return ast.copy_location(copy.deepcopy(d), x)

    # -- the fields of a dataclass of the package: `dataclasses.fields(self)` are its declared fields, in declaration order
    FIELD = "__dataclass_field__"

    def _dataclass(self, e):
        """the ClassInfo of the package dataclass whose instance / class the expression e is: `self`, `type(self)`, `self.__class__`, the class
        name, a parameter annotated with the class of the method; None when unknown"""
        ci = self._own_class(e)
        if ci is None:
            return None
        is_dc = any(src(d.func if isinstance(d, ast.Call) else d) in ("dataclass", "dataclasses.dataclass") for d in ci.node.decorator_list)
        return ci if is_dc and not ci.bases else None       # inherited fields are not followed

    def _own_class(self, e, instance_only: bool = False):
        """the ClassInfo of the method's own class when the expression e is an instance of it or the class itself (see _dataclass)"""
        fi = self.fi
        if fi.cls is None or fi.cls not in self.S.modules[fi.module].classes:
            return None
        ci = self.S.modules[fi.module].classes[fi.cls]
        a = fi.node.args
        params = a.posonlyargs + a.args + a.kwonlyargs
        deco = {"staticmethod" if "staticmethod" in src(d) else "classmethod" if "classmethod" in src(d) else "" for d in fi.node.decorator_list}
        first = params[0].arg if params and "staticmethod" not in deco else None
        own = False
        if isinstance(e, ast.Name):
            ann = {p.arg: p.annotation for p in params}
            stored = {x.id for x in ast.walk(self.orig) if isinstance(x, ast.Name) and isinstance(x.ctx, ast.Store)}
            if e.id in stored:
                return None
            own = (e.id == first and not (instance_only and "classmethod" in deco)) or (e.id == fi.cls and not instance_only) \
                or (e.id != first and e.id in ann and ann[e.id] is not None and (
                    (isinstance(ann[e.id], ast.Constant) and ann[e.id].value == fi.cls) or (isinstance(ann[e.id], ast.Name) and ann[e.id].id == fi.cls)))
        elif instance_only:
            own = False
        elif isinstance(e, ast.Call) and isinstance(e.func, ast.Name) and e.func.id == "type" and len(e.args) == 1 and not e.keywords:
            own = isinstance(e.args[0], ast.Name) and e.args[0].id == first and "classmethod" not in deco
        elif isinstance(e, ast.Attribute) and e.attr == "__class__":
            own = isinstance(e.value, ast.Name) and e.value.id == first and "classmethod" not in deco
        return ci if own else None

    def field_cases(self, it):
        """the cases of an iteration over the declared fields of a package dataclass: `fields(x)` / `dataclasses.fields(x)` yields one field object
        per declared field (written here as a marker name of which only `.name` may be read), `x.__dataclass_fields__` the field names"""
        imports = self.S.modules[self.fi.module].imports
        obj, names_only = None, False
        if isinstance(it, ast.Call) and len(it.args) == 1 and not it.keywords and not isinstance(it.args[0], ast.Starred):
            f = it.func
            if (isinstance(f, ast.Name) and imports.get(f.id) == "dataclasses:fields") or \
                    (isinstance(f, ast.Attribute) and f.attr == "fields" and isinstance(f.value, ast.Name) and imports.get(f.value.id) == "dataclasses"):
                obj = it.args[0]
        elif isinstance(it, ast.Attribute) and it.attr == "__dataclass_fields__":
            obj, names_only = it.value, True
        ci = self._dataclass(obj) if obj is not None else None
        if ci is None:
            return None
        names = []
        for st in ci.node.body:
            if isinstance(st, ast.AnnAssign) and isinstance(st.target, ast.Name):
                if any(w in src(st.annotation) for w in ("ClassVar", "InitVar", "KW_ONLY")):
                    return None          # pseudo-fields: not decoded
                names.append(st.target.id)
        if not names:
            return None
        return [ast.Constant(value=nm) if names_only else ast.Name(id=self.FIELD + nm, ctx=ast.Load()) for nm in names]

    def _field_names(self, head):
        """head with `<field object>.name` replaced by the field's name; None when a field object is used in any other way"""
        outer = self

        class T(ast.NodeTransformer):
            def visit_Attribute(self, x):
                if isinstance(x.value, ast.Name) and x.value.id.startswith(outer.FIELD) and x.attr == "name" and isinstance(x.ctx, ast.Load):
                    return ast.copy_location(ast.Constant(value=x.value.id[len(outer.FIELD):]), x)
                return self.generic_visit(x)
        head = T().visit(head)
        return None if any(isinstance(x, ast.Name) and x.id.startswith(self.FIELD) for x in ast.walk(head)) else head

    def cases(self, it):
        from .c01 import _literal_cases
        fc = self.field_cases(it)
        if fc is not None:
            return fc
        if isinstance(it, ast.Call) and isinstance(it.func, ast.Attribute) and it.func.attr in ("items", "values", "keys") and not it.args and not it.keywords:
            kv = self.dict_items(it.func.value)
            if kv is None:
                return None
            return [ast.Tuple(elts=[k, v], ctx=ast.Load()) if it.func.attr == "items" else v if it.func.attr == "values" else k for k, v in kv]
        kv = self.dict_items(it)
        if kv is not None:
            return [k for k, _ in kv]
        # range(<n>) / range(<a>, <b>) of integer literals: the integers
        if isinstance(it, ast.Call) and isinstance(it.func, ast.Name) and it.func.id == "range" and self.constant_free("range") and not it.keywords \
                and 1 <= len(it.args) <= 2 and all(isinstance(a_, ast.Constant) and isinstance(a_.value, int) and not isinstance(a_.value, bool) for a_ in it.args):
            lo, hi = (0, it.args[0].value) if len(it.args) == 1 else (it.args[0].value, it.args[1].value)
            return [ast.Constant(value=v) for v in range(lo, hi)] if 0 < hi - lo <= self.MAX_CASES else None
        # lists held in a temporary must not have been changed since they were built
        for x in ast.walk(it):
            if isinstance(x, ast.Name) and x.id in self.defs and isinstance(self.defs[x.id], ast.List) and not self.frozen(x.id):
                return None
        return _literal_cases(it, self.defs)

    def elements(self, comp, heads):
        """[substitution applied to every head] per case, or None when the comprehension does not run over literal cases"""
        from .c01 import _bind_target, _chain, _Subst
        if len(comp.generators) != 1:
            return None
        g = comp.generators[0]
        if g.ifs or g.is_async or any(not isinstance(x, (ast.Name, ast.Tuple, ast.List, ast.Store)) for x in ast.walk(g.target)):
            return None
        cases = self.cases(g.iter)
        if cases is None or not (0 < len(cases) <= self.MAX_CASES):
            return None
        # cases written inside the comprehension are all evaluated before the first element: they may only read, not call
        if any(isinstance(y, (ast.NamedExpr, ast.Yield, ast.YieldFrom, ast.Await, ast.Lambda, ast.Call)) for d in ast.walk(g.iter) if isinstance(d, (ast.Tuple, ast.List, ast.Dict))
               for e in ast.iter_child_nodes(d) for y in ast.walk(e)):
            return None
        targets = {x.id for x in ast.walk(g.target) if isinstance(x, ast.Name)}
        if any(targets & _binds(h) for h in heads):
            return None
        out = []
        for c in cases:
            bind: dict = {}
            if not _bind_target(g.target, c if isinstance(g.target, ast.Name) else _chain(self.defs, c), bind):
                return None
            row = [self._field_names(ast.copy_location(_Subst(bind).visit(copy.deepcopy(h)), h)) for h in heads]
            if any(r is None for r in row):
                return None
            out.append(row)
        return out

    def visit_ListComp(self, x):
        self.generic_visit(x)
        el = self.elements(x, [x.elt])
        if el is None:
            return x
        self.changed = True
        return ast.copy_location(ast.List(elts=[e[0] for e in el], ctx=ast.Load()), x)

    def visit_DictComp(self, x):
        self.generic_visit(x)
        el = self.elements(x, [x.key, x.value])
        if el is None:
            return x
        self.changed = True
        return ast.copy_location(ast.Dict(keys=[e[0] for e in el], values=[e[1] for e in el]), x)

    def _generator(self, x):
        """a generator expression that is consumed completely, at once, by the construct it is written in: the tuple of its elements"""
        if not isinstance(x, ast.GeneratorExp):
            return None
        el = self.elements(x, [x.elt])
        if el is None:
            return None
        self.changed = True
        return ast.copy_location(ast.Tuple(elts=[e[0] for e in el], ctx=ast.Load()), x)

    def visit_Subscript(self, x):
        """`d["k"]` / `t[1]` of a display (held in a local that is only read): that element"""
        self.generic_visit(x)
        if not isinstance(x.ctx, ast.Load) or not (isinstance(x.value, ast.Name) or _label_display(x.value)):
            return x
        k = x.slice
        if isinstance(k, ast.UnaryOp) and isinstance(k.op, ast.USub) and isinstance(k.operand, ast.Constant) and isinstance(k.operand.value, int):
            k = ast.Constant(value=-k.operand.value)
        if not (isinstance(k, ast.Constant) and isinstance(k.value, (str, int)) and not isinstance(k.value, bool)):
            return x
        kv = self.dict_items(x.value)
        if kv is not None:
            hit = [v for kk, v in kv if type(kk.value) is type(k.value) and kk.value == k.value]
            if len(hit) == 1:
                self.changed = True
                return ast.copy_location(copy.deepcopy(hit[0]), x)
            return x
        seq = self.display(x.value, (ast.Tuple, ast.List))
        if seq is not None and isinstance(k.value, int) and not any(isinstance(e, ast.Starred) for e in seq.elts) and -len(seq.elts) <= k.value < len(seq.elts):
            self.changed = True
            return ast.copy_location(copy.deepcopy(seq.elts[k.value]), x)
        return x

    # -- tests on written-out cases: `"Delta02" == "Delta02"`, `"deltaF" in ("deltaF", "Deltas")` and the conditional expressions they decide
    @staticmethod
    def _label(e):
        return isinstance(e, ast.Constant) and isinstance(e.value, (str, int)) and not isinstance(e.value, bool)

    def visit_Compare(self, x):
        self.generic_visit(x)
        if len(x.ops) != 1 or not self._label(x.left):
            return x
        op, r = x.ops[0], x.comparators[0]
        if isinstance(op, (ast.Eq, ast.NotEq)) and self._label(r):
            same_ = type(x.left.value) is type(r.value) and x.left.value == r.value
            self.changed = True
            return ast.copy_location(ast.Constant(value=same_ == isinstance(op, ast.Eq)), x)
        if isinstance(op, (ast.In, ast.NotIn)):
            seq = self.display(r, (ast.Tuple, ast.List, ast.Set))
            if seq is not None and seq.elts and all(self._label(e) for e in seq.elts):
                hit = any(type(x.left.value) is type(e.value) and x.left.value == e.value for e in seq.elts)
                self.changed = True
                return ast.copy_location(ast.Constant(value=hit == isinstance(op, ast.In)), x)
        return x

    def visit_IfExp(self, x):
        self.generic_visit(x)
        if isinstance(x.test, ast.Constant) and isinstance(x.test.value, bool):
            self.changed = True
            return x.body if x.test.value else x.orelse
        return x

    def visit_Assign(self, x):
        self.generic_visit(x)
        if len(x.targets) == 1 and isinstance(x.targets[0], (ast.Tuple, ast.List)):
            x.value = self._generator(x.value) or x.value
        return x

    def visit_Call(self, x):
        self.generic_visit(x)
        d = dotted(x.func) or ""
        # getattr(obj, "name") is obj.name
        if d == "getattr" and "getattr" not in self.defs and len(x.args) == 2 and not x.keywords and isinstance(x.args[1], ast.Constant) \
                and isinstance(x.args[1].value, str) and x.args[1].value.isidentifier() and not isinstance(x.args[0], ast.Starred):
            self.changed = True
            return ast.copy_location(ast.Attribute(value=x.args[0], attr=x.args[1].value, ctx=ast.Load()), x)
        if d in ("tuple", "list", "sum", "np.sum", "np.array", "np.asarray", "max", "min") and len(x.args) == 1 and not x.keywords:
            x.args = [self._generator(x.args[0]) or x.args[0]]
        # f(*[a, b]) == f(a, b);  f(**{"k": v}) == f(k=v)
        args = []
        for a in x.args:
            if isinstance(a, ast.Starred):
                a.value = self._generator(a.value) or a.value
            disp = self.display(a.value, (ast.Tuple, ast.List)) if isinstance(a, ast.Starred) else None
            if disp is not None and not any(isinstance(e, ast.Starred) for e in disp.elts):
                args += [copy.deepcopy(e) for e in disp.elts]
                self.changed = True
            else:
                args.append(a)
        kws = []
        for k in x.keywords:
            kv = self.dict_items(k.value) if k.arg is None else None
            if kv is not None and all(isinstance(kk.value, str) and kk.value.isidentifier() for kk, _ in kv):
                kws += [ast.keyword(arg=kk.value, value=copy.deepcopy(v)) for kk, v in kv]
                self.changed = True
            else:
                kws.append(k)
        x.args, x.keywords = args, kws
        return self._replace_call(x) or self._partial_call(x) or x

    def _partial_of(self, e):
        """(callee, positional arguments, keywords) when e is `functools.partial(callee, ...)` whose callee and frozen arguments are stable: the
        callee an attribute path of names (`poly.integrate`), the arguments numbers / strings / attribute paths / tuples of those, every name read
        a parameter or local that is bound at most once and outside any loop (so that it denotes at the call what it denoted when the partial was
        built -- partial evaluates them once, the written-out call evaluates them again)"""
        imports = self.S.modules[self.fi.module].imports
        if not (isinstance(e, ast.Call) and e.args and not any(isinstance(a, ast.Starred) for a in e.args) and all(k.arg is not None for k in e.keywords)):
            return None
        f = e.func
        if not ((isinstance(f, ast.Name) and imports.get(f.id) == "functools:partial" and self.constant_free(f.id))
                or (isinstance(f, ast.Attribute) and f.attr == "partial" and isinstance(f.value, ast.Name) and imports.get(f.value.id) == "functools"
                    and self.constant_free(f.value.id))):
            return None
        a = self.orig.args
        params = {p.arg for p in a.posonlyargs + a.args + a.kwonlyargs}
        stores: dict = {}
        for y in ast.walk(self.orig):
            if isinstance(y, ast.Name) and isinstance(y.ctx, (ast.Store, ast.Del)):
                stores[y.id] = stores.get(y.id, 0) + 1
            elif isinstance(y, (ast.Global, ast.Nonlocal)):
                for nm in y.names:
                    stores[nm] = stores.get(nm, 0) + 2

        def name_ok(nm: str) -> bool:
            return (nm in params and not stores.get(nm)) or (nm in self.defs and stores.get(nm) == 1) or (nm not in params and not stores.get(nm) and self.constant_free(nm))

        def path(v) -> bool:
            return (isinstance(v, ast.Name) and name_ok(v.id)) or (isinstance(v, ast.Attribute) and path(v.value))

        def value(v) -> bool:
            if isinstance(v, ast.Constant):
                return isinstance(v.value, (int, float, str, bool, type(None)))
            if isinstance(v, ast.Tuple):
                return all(value(q) for q in v.elts)
            if isinstance(v, ast.UnaryOp) and isinstance(v.op, ast.USub):
                return isinstance(v.operand, ast.Constant) and isinstance(v.operand.value, (int, float))
            return path(v)

        callee = e.args[0]
        if not (isinstance(callee, ast.Attribute) and path(callee)) or not all(value(v) for v in e.args[1:]) or not all(value(k.value) for k in e.keywords):
            return None
        return callee, list(e.args[1:]), list(e.keywords)

    def _partial_call(self, x):
        """`partial(f, a, k=v)(b, ..)` -- directly, or through a single-assignment local that holds the partial object -- is `f(a, b, .., k=v)`;
        None when x is not such a call (a keyword given twice would override the frozen one: not decoded)"""
        f = x.func
        if isinstance(f, ast.Name) and f.id in self.defs:
            f = self.defs[f.id]
        got = self._partial_of(f) if isinstance(f, ast.Call) else None
        if got is None or any(isinstance(a, ast.Starred) for a in x.args) or any(k.arg is None for k in x.keywords):
            return None
        callee, pos, kws = got
        if {k.arg for k in kws} & {k.arg for k in x.keywords}:
            return None
        self.changed = True
        return ast.copy_location(ast.Call(func=copy.deepcopy(callee), args=[copy.deepcopy(v) for v in pos] + list(x.args),
                                          keywords=[copy.deepcopy(k) for k in kws] + list(x.keywords)), x)

    def _replace_call(self, x):
        """`dataclasses.replace(obj, k=v, ..)` on an instance of the method's own dataclass: the constructor call of that class in which every field
        that is not named is taken from `obj.<field>` (that is what replace does); None when x is not such a call"""
        imports = self.S.modules[self.fi.module].imports
        f = x.func
        if not ((isinstance(f, ast.Name) and imports.get(f.id) == "dataclasses:replace" and self.constant_free(f.id))
                or (isinstance(f, ast.Attribute) and f.attr == "replace" and isinstance(f.value, ast.Name) and imports.get(f.value.id) == "dataclasses"
                    and self.constant_free(f.value.id))):
            return None
        if len(x.args) != 1 or not isinstance(x.args[0], ast.Name) or any(k.arg is None for k in x.keywords):
            return None
        ci = self._own_class(x.args[0], instance_only=True)
        if ci is None or self._dataclass(x.args[0]) is None:
            return None
        names = []
        for st in ci.node.body:
            if isinstance(st, ast.AnnAssign) and isinstance(st.target, ast.Name):
                if any(w in src(st.annotation) for w in ("ClassVar", "InitVar", "KW_ONLY")) or (st.value is not None and "init" in src(st.value)):
                    return None          # pseudo-fields / fields the constructor does not take: not decoded
                names.append(st.target.id)
        given = [k.arg for k in x.keywords]
        if not names or len(set(given)) != len(given) or set(given) - set(names):
            return None
        # (replace builds an object of obj's run-time class: the class of the method, unless the package derives from it)
        if any(ci.name in [b.split(".")[-1] for b in c2.bases] for m in self.S.modules.values() for c2 in m.classes.values()):
            return None
        by = {k.arg: k.value for k in x.keywords}
        kws = [ast.keyword(arg=nm, value=by[nm] if nm in by else ast.Attribute(value=ast.Name(id=x.args[0].id, ctx=ast.Load()), attr=nm, ctx=ast.Load()))
               for nm in names]
        self.changed = True
        return ast.copy_location(ast.Call(func=ast.Name(id=ci.name, ctx=ast.Load()), args=[], keywords=kws), x)

    def constant_free(self, name: str) -> bool:
        """the global name is not bound inside the function or a function around it (parameter, local, nested definition, import, declaration)"""
        if self._bound is None:
            self._bound, f = set(), self.fi
            while f is not None:
                self._bound |= _bound_in(f.node)
                f = f.parent
        return name not in self._bound


def _mentions(e, name: str) -> bool:
    return any(isinstance(x, ast.Name) and x.id == name for x in ast.walk(e))


def _empty_display(v):
    """'dict' / 'list' when v is an empty display ({} / dict() / [] / list()), else None"""
    if (isinstance(v, ast.Dict) and not v.keys) or (isinstance(v, ast.Call) and dotted(v.func) == "dict" and not v.args and not v.keywords):
        return "dict"
    if (isinstance(v, ast.List) and not v.elts) or (isinstance(v, ast.Call) and dotted(v.func) == "list" and not v.args and not v.keywords):
        return "list"
    return None


def _empty_assigned(st):
    """(name, 'dict' | 'list') when st is `name = <empty display>`, else None"""
    if isinstance(st, (ast.Assign, ast.AnnAssign)) and st.value is not None:
        t = st.targets[0] if isinstance(st, ast.Assign) and len(st.targets) == 1 else st.target if isinstance(st, ast.AnnAssign) else None
        kind = _empty_display(st.value)
        if isinstance(t, ast.Name) and kind:
            return t.id, kind
    return None


def _split_empties(st):
    """`a, b = [], []` (every right-hand side an empty display) as the separate statements `a = []`, `b = []`, else None"""
    if (isinstance(st, ast.Assign) and len(st.targets) == 1 and isinstance(st.targets[0], (ast.Tuple, ast.List)) and isinstance(st.value, (ast.Tuple, ast.List))
            and len(st.targets[0].elts) == len(st.value.elts) > 1 and all(isinstance(t, ast.Name) for t in st.targets[0].elts)
            and all(_empty_display(v) for v in st.value.elts) and len({t.id for t in st.targets[0].elts}) == len(st.value.elts)):
        return [ast.copy_location(ast.Assign(targets=[ast.Name(id=t.id, ctx=ast.Store())], value=v), st) for t, v in zip(st.targets[0].elts, st.value.elts)]
    return None


def _collected(loop: ast.For, root) -> list | None:
    """[(collection name, 'list' | 'dict', key | None, value)] when the body of `loop` only collects: every statement is either
    `X.append(V)` / `X[K] = V` -- one such statement per collection X -- or the assignment of a loop-local temporary (a plain name that is
    assigned once per iteration, before it is read, and that nothing outside the loop mentions), which is replaced by its definition in the
    collected keys / values.  Neither the iterable, the keys, the values nor the temporaries read a collection.  None otherwise."""
    from .c01 import _Subst
    if loop.orelse or not all(isinstance(x, (ast.Name, ast.Tuple, ast.List, ast.Store)) for x in ast.walk(loop.target)):
        return None
    loopvars = {x.id for x in ast.walk(loop.target) if isinstance(x, ast.Name)}
    inside = {id(x) for x in ast.walk(loop)}
    steps = []      # ('temp', name, value) | ('collect', name, kind, key, value), in body order
    for b in loop.body:
        if isinstance(b, ast.Assign) and len(b.targets) == 1 and isinstance(b.targets[0], ast.Subscript) and isinstance(b.targets[0].value, ast.Name):
            steps.append(("collect", b.targets[0].value.id, "dict", b.targets[0].slice, b.value))
        elif isinstance(b, ast.Expr) and isinstance(b.value, ast.Call) and isinstance(b.value.func, ast.Attribute) and b.value.func.attr == "append" \
                and isinstance(b.value.func.value, ast.Name) and len(b.value.args) == 1 and not b.value.keywords and not isinstance(b.value.args[0], ast.Starred):
            steps.append(("collect", b.value.func.value.id, "list", None, b.value.args[0]))
        elif isinstance(b, ast.Assign) and len(b.targets) == 1 and isinstance(b.targets[0], ast.Name):
            steps.append(("temp", b.targets[0].id, b.value))
        elif isinstance(b, ast.AnnAssign) and b.value is not None and isinstance(b.target, ast.Name):
            steps.append(("temp", b.target.id, b.value))
        else:
            return None
    names = [s_[1] for s_ in steps if s_[0] == "collect"]
    tnames = [s_[1] for s_ in steps if s_[0] == "temp"]
    if not names or len(set(names)) != len(names) or len(set(tnames)) != len(tnames) or set(names) & (loopvars | set(tnames)) or set(tnames) & loopvars:
        return None
    # a temporary lives inside one iteration: nothing outside the loop mentions it
    if any(isinstance(x, ast.Name) and x.id in tnames and id(x) not in inside for x in ast.walk(root)):
        return None
    if any(_mentions(loop.iter, x) for x in names + tnames):
        return None
    temps: dict = {}
    out = []
    for s_ in steps:
        parts = [p for p in s_[2:] if isinstance(p, ast.AST)]
        reads = {x.id for p in parts for x in ast.walk(p) if isinstance(x, ast.Name)}
        # no part reads a collection, a temporary that is assigned later (it would carry the value of the previous iteration), or re-binds a temporary
        if reads & set(names) or reads & (set(tnames) - set(temps)) or any(set(tnames) & _binds(p) for p in parts):
            return None
        parts = [_Subst(temps).visit(copy.deepcopy(p)) if temps else p for p in parts]
        if s_[0] == "temp":
            temps[s_[1]] = parts[0]
        else:
            out.append((s_[1], s_[2], parts[0] if s_[2] == "dict" else None, parts[-1]))
    return out


def _collecting_loops(stmts: list, root=None) -> tuple:
    """`X = {}` + `for T in IT: X[K] = V`  is  `X = {K: V for T in IT}`;  `X = []` + `for T in IT: X.append(V)`  is  `X = [V for T in IT]`.
    Several collections filled by one loop (`A = []; B = []; for T in IT: A.append(V); B.append(W)`) are one comprehension each, in the order the
    empty displays were assigned.  Exactly: the loop directly follows the empty displays of its collections (only empty displays of names the loop
    does not mention may stand in between), its body only collects (see _collected), and neither IT, K nor V reads a collection."""
    root = root if root is not None else ast.Module(body=stmts, type_ignores=[])
    flat = []
    for st in stmts:
        flat += _split_empties(st) or [st]
    out, nested, folded = [], False, False
    for st in flat:
        items = _collected(st, root) if isinstance(st, ast.For) else None
        if items is not None:
            want = {nm: kind for nm, kind, _, _ in items}
            found: dict = {}
            k = len(out)
            while k > 0 and _empty_assigned(out[k - 1]) is not None:
                nm, kind = _empty_assigned(out[k - 1])
                if (nm in want and (want[nm] != kind or nm in found)) or (nm not in want and _mentions(st, nm)):
                    break
                if nm in want:
                    found[nm] = k - 1
                k -= 1
            if set(found) == set(want):
                by_name = {nm: (kind, key, val) for nm, kind, key, val in items}
                new = []
                for nm in sorted(found, key=found.get):
                    kind, key, val = by_name[nm]
                    gen = ast.comprehension(target=copy.deepcopy(st.target), iter=copy.deepcopy(st.iter), ifs=[], is_async=0)
                    comp = ast.DictComp(key=key, value=val, generators=[gen]) if kind == "dict" else ast.ListComp(elt=val, generators=[gen])
                    new.append(ast.copy_location(ast.Assign(targets=[ast.Name(id=nm, ctx=ast.Store())], value=ast.copy_location(comp, st)), st))
                out = [s_ for j, s_ in enumerate(out) if j not in found.values()] + new
                folded = True
                continue
        for fld in ("body", "orelse", "finalbody"):
            sub = getattr(st, fld, None)
            if isinstance(sub, list) and sub and isinstance(sub[0], ast.stmt) and not isinstance(st, (ast.FunctionDef, ast.AsyncFunctionDef, ast.ClassDef)):
                new_sub, ch = _collecting_loops(sub, root)
                setattr(st, fld, new_sub)
                nested = nested or ch
        for h in getattr(st, "handlers", []) or []:
            h.body, ch = _collecting_loops(h.body, root)
            nested = nested or ch
        out.append(st)
    return (out, True) if folded else (list(stmts), nested)


_WRITTEN: dict = {}


def written_out(S, fi: FuncInfo) -> FuncInfo:
    """fi with its loops and comprehensions over literal cases written out case by case and splatted displays turned into plain arguments
    (fi itself when there is nothing to write out)"""
    key = (id(S), id(fi.node))
    if key in _WRITTEN and _WRITTEN[key][0] is fi.node:
        return _WRITTEN[key][1]
    from .c01 import normalised
    node = copy.deepcopy(fi.node)
    node.body, folded = _collecting_loops(node.body, node)
    cur = FuncInfo(fi.module, fi.qual, ast.fix_missing_locations(node), fi.cls, fi.parent) if folded else fi
    cur = normalised(S, cur)
    for _ in range(4):
        node = copy.deepcopy(cur.node)
        w = _WriteOut(S, cur, node)
        node = w.visit(node)
        if not w.changed:
            break
        ast.fix_missing_locations(node)
        cur = FuncInfo(fi.module, fi.qual, node, fi.cls, fi.parent)
    _WRITTEN[key] = (fi.node, cur)
    return cur


def r13_1(chk: Check) -> None:
    S = chk.src
    fi = written_out(S, S.func(f"{BS}.getDeltas"))
    chk.touch(fi.name)
    prm = [p for p in fi.params() if p != "self"]
    if len(prm) != 1:
        raise AnchorMissing("getDeltas: expected the single parameter deltaF")
    P = prm[0]
    G = Flat(S, fi, choose=_none_given(P))
    ex = Extractor(S)
    env0 = {"__module__": "boltzmann", "__class__": "BoltzmannSolver"}
    # returned BoltzmannResults(... Deltas=BoltzmannDeltas(Delta00=..., ...))
    ctor = [c for _, v in G.returns for c in ast.walk(v) if isinstance(c, ast.Call) and (dotted(c.func) or "").split(".")[-1] == "BoltzmannDeltas"]
    if len(ctor) != 1:
        raise AnchorMissing("getDeltas: BoltzmannDeltas(...) construction not found in the returned result")
    kw = _ctor_args(ctor[0], _fields(S.cls("containers:BoltzmannDeltas")))
    where = fi.where(G.returns[0][0])
    chk.ob("R13.1", where, "BoltzmannDeltas is built with the four keywords Delta00, Delta02, Delta20, Delta11",
           set(kw) == set(DELTAS), str(sorted(kw)), key="keywords")
    roles = Roles()
    sy = ex.sym
    E = sp.sqrt(sy("MSQ") + sy("PZ") ** 2 + sy("PP") ** 2)
    base_ref = sy("JAC1") * sy("JAC2") * sy("PP") / (4 * sp.pi**2 * E)
    weights = {"Delta00": base_ref, "Delta02": sy("PZ") ** 2 * base_ref, "Delta20": E**2 * base_ref, "Delta11": E * sy("PZ") * base_ref}
    desc = {"Delta00": "1", "Delta02": "p_z^2", "Delta20": "E^2", "Delta11": "E p_z"}
    recvs = []
    dependent = []
    for k in DELTAS:
        v = kw.get(k)
        ok, how, axes, shown = None, "", None, ""
        if isinstance(v, ast.Call) and isinstance(v.func, ast.Attribute) and v.func.attr == "integrate":
            axes, w = kwarg(v, "axis", 0), kwarg(v, "weight", 1)
            recvs.append(v.func.value)
            if w is not None:
                if any(isinstance(x, ast.Name) and x.id == P for x in ast.walk(w)) or has(w, "self.solveBoltzmannEquations()"):
                    dependent.append(k)
                a = roles.abstract(w)
                ast.fix_missing_locations(a)
                t = ex.expr(a, env0)
                shown = str(t)
                if isinstance(t, sp.Basic):
                    ok, how = is_zero(t - weights[k], chk.seed)
        elif v is not None:
            ok = False
            shown = n(v)[:120]
        chk.ob("R13.1", where, f"{k} = integral of deltaF * {desc[k]} * (dpz/drz)(dpp/drp) p_par/(4 pi^2 E), E^2 = m^2+pz^2+pp^2",
               ok, f"found {shown}; {how}"[:300], key=f"weight|{k}", how=how)
        chk.ob("R13.1", where, f"{k} integrates over axes (2, 3) = (pz, pp)", axes is not None and (eqx(axes, "(2, 3)") or eqx(axes, "[2, 3]")),
               n(axes) if axes is not None else "", key=f"axes|{k}")
    # the integrated polynomial: built from deltaF with directions (Array, z, pz, pp), then moved to the cardinal basis
    okp = len(recvs) == 4 and all(same(r, recvs[0]) for r in recvs)
    shown = ""
    if okp:
        c = recvs[0]
        shown = n(c)[:160]
        okp = isinstance(c, ast.Call) and (dotted(c.func) or "").split(".")[-1] == "Polynomial" and eqx(kwarg(c, "coefficients", 0), P) \
            and eqx(kwarg(c, "direction", 3), "('Array', 'z', 'pz', 'pp')") and eqx(kwarg(c, "basis", 2), "('Array', self.basisM, self.basisN, self.basisN)") \
            and eqx(kwarg(c, "grid", 1), "self.grid")
    chk.ob("R13.1", fi.where(), "the integrated Polynomial wraps deltaF with directions (Array, z, pz, pp) and bases (Array, basisM, basisN, basisN)",
           okp, shown, key="poly")
    # broadcasting axes of pz / pp / Jacobians
    want_axes = {"PZ": (2, 4), "PP": (3, 4), "JAC1": (2, 4), "JAC2": (3, 4)}
    got_axes = {}
    okb = True
    for sym, leaf in roles.leaves.values():
        role = sym.split("__")[0]
        if role in want_axes:
            got_axes.setdefault(role, []).append((_leaf_axis(leaf), n(leaf)[:60]))
            okb = okb and _leaf_axis(leaf) == want_axes[role] and "__" not in sym
            if role == "PZ":
                okb = okb and has(leaf, "self.grid.pzValues")
            if role == "PP":
                okb = okb and has(leaf, "self.grid.ppValues")
            if role.startswith("JAC"):
                okb = okb and has(leaf, "self.grid.getCompactificationDerivatives()")
    okb = okb and set(got_axes) == set(want_axes)
    chk.ob("R13.1", fi.where(), "pz and dpz/drz (Jacobian element 1) live on axis 2, pp and dpp/drp (Jacobian element 2) on axis 3 of the (particle, z, pz, pp) array", okb,
           str(got_axes)[:300], key="broadcast-axes")
    chk.floor("R13.1", 13)
    # R13.3 linearity
    chk.ob("R13.3", fi.where(), "no integration weight depends on deltaF (moments are linear in the deviation)", not dependent, str(dependent), key="linear")
    chk.floor("R13.3", 1)


def _arg_values(a0) -> list:
    if isinstance(a0, (ast.Tuple, ast.List)):
        return [e.value if isinstance(e, ast.Constant) else n(e) for e in a0.elts]
    return [a0.value if isinstance(a0, ast.Constant) else n(a0)]


def cardinal_before_weights(chk: Check, rule: str) -> None:
    """Point-wise weights that vary along z (masses, energies, field gradients) are multiplied onto the coefficient
    array inside Polynomial.integrate, which only converts the *integrated* axes: every other polynomial axis must
    already hold grid values (Cardinal basis) -- otherwise the result depends on the basis chosen for deltaF."""
    S = chk.src
    for fname in ("getDeltas", "checkLinearization"):
        fi = written_out(S, S.func(f"{BS}.{fname}"))
        chk.touch(fi.name)
        cx = Ctx(S, fi)
        g = CFG(fi.node)
        # every Polynomial object of the function: local name -> constructor call
        polys = {}
        for st in own_nodes(fi.node):
            if isinstance(st, (ast.Assign, ast.AnnAssign)) and st.value is not None:
                tg = st.targets[0] if isinstance(st, ast.Assign) else st.target
                v = cx.resolve(st.value, keep={tg.id} if isinstance(tg, ast.Name) else set())
                if isinstance(tg, ast.Name) and isinstance(v, ast.Call) and (dotted(v.func) or "").split(".")[-1] == "Polynomial":
                    polys[tg.id] = v
        for name, ctor in polys.items():
            bases = kwarg(ctor, "basis", 2)
            if bases is None:
                continue
            bases = cx.resolve(bases)
            uses_solver_basis = any(isinstance(x, ast.Attribute) and x.attr in ("basisM", "basisN") for x in ast.walk(bases))
            integ = [c for c in calls_in(fi.node, "integrate") if eqx(c.func, f"{name}.integrate")]
            if not integ or not uses_solver_basis:
                continue
            conv = [c for c in calls_in(fi.node, "changeBasis") if eqx(c.func, f"{name}.changeBasis")]
            good, other, detail = [], [], "no changeBasis before integrate"
            for c in conv:
                a0 = kwarg(c, "newBasis", 0)
                tup = _arg_values(cx.resolve(a0)) if a0 is not None else []
                node = g.node_of(c)
                if tup and all(t in ("Array", "Cardinal") for t in tup) and tup.count("Cardinal") >= 3:
                    good.append(node)
                    detail = str(tup)
                else:
                    other.append(node)
                    if not good:
                        detail = str(tup)
            ok = bool(good)
            for c in integ:
                nd = g.node_of(c)
                ok = ok and nd is not None and g.must_pass(CFG.ENTRY, nd, lambda q: any(q is x for x in good)) \
                    and not any(g.reaches([b], nd, avoid=lambda q: any(q is x for x in good)) for b in other if b is not None)
            coef = kwarg(ctor, "coefficients", 0)
            label = f"{n(coef)}Poly" if isinstance(coef, ast.Name) else name
            chk.ob(rule, fi.where(integ[0]), f"{fname}: `{name}` is converted to the Cardinal basis on all polynomial axes before z-dependent "
                   "weights are multiplied in (basis independence of the derived quantities)", ok, detail, key=f"cardinal|{fname}|{label}")


def _alpha(fi: FuncInfo) -> FuncInfo:
    """copy of the function with the variables bound by comprehensions renamed canonically (_k0, _k1, ... in target order)"""
    node = copy.deepcopy(fi.node)
    for x in ast.walk(node):
        if isinstance(x, (ast.ListComp, ast.GeneratorExp, ast.SetComp, ast.DictComp)):
            ren = {}
            for gen in x.generators:
                for t in ast.walk(gen.target):
                    if isinstance(t, ast.Name) and t.id not in ren and not t.id.startswith("_k"):
                        ren[t.id] = f"_k{len(ren)}"
            for y in ast.walk(x):
                if isinstance(y, ast.Name) and y.id in ren:
                    y.id = ren[y.id]
    return FuncInfo(fi.module, fi.qual, node, fi.cls, fi.parent)


def r13_2(chk: Check) -> None:
    S = chk.src
    fi = written_out(S, S.func("equationOfMotion:EOM.deltaToTmunu"))
    chk.touch(fi.name)
    prm = [p for p in fi.params() if p != "self"]
    if len(prm) != 4:
        raise AnchorMissing("deltaToTmunu: expected the parameters (index, fields, velocityMid, offEquilDeltas)")
    P_INDEX, P_FIELDS, P_V, P_DELTAS = prm
    ex = Extractor(S, inline=lambda nm: nm.startswith("helpers:"))
    ps = [p for p in ex.paths(_alpha(fi)) if p.raised is None]
    if len(ps) != 1 or not isinstance(ps[0].value, tuple) or len(ps[0].value) != 2:
        raise Undecided("deltaToTmunu: expected one path returning (T30, T33)")
    T30, T33 = ps[0].value
    env = dict(ps[0].env)
    # the sums run over enumerate(self.particles): _k0 is the position, _k1 the particle
    env["_k0"] = ex.sym("_k0")
    env["_k1"] = ex.sym("_k1")

    def atom(text):
        return ex.expr(ast.parse(text, mode="eval").body, env)

    D = {k: atom(f"{P_DELTAS}.{k}.coefficients[:, {P_INDEX}][_k0]") for k in DELTAS}
    m2 = atom(f"_k1.msqVacuum({P_FIELDS})")
    dof = atom("_k1.totalDOFs")
    v = ex.sym(P_V)
    eta = sp.Symbol("eta", real=True)
    gam = 1 / sp.sqrt(1 - v**2)
    u = {0: gam, 3: gam * v}
    ub = {0: gam * v, 3: gam}
    gmet = {(3, 0): 0, (3, 3): -1}

    def ref(mu, nu):
        perp = sp.Rational(1, 2) * (D["Delta20"] - D["Delta02"] - m2 * D["Delta00"])
        return dof * (D["Delta20"] * u[mu] * u[nu] + D["Delta02"] * ub[mu] * ub[nu]
                      + D["Delta11"] * (u[mu] * ub[nu] + ub[mu] * u[nu])
                      + perp * (-gmet[(mu, nu)] + u[mu] * u[nu] - ub[mu] * ub[nu]))

    for name, val, (mu, nu) in (("T30", T30, (3, 0)), ("T33", T33, (3, 3))):
        if not (isinstance(val, sp.Basic) and val.func == SUM):
            chk.ob("R13.2", fi.where(), f"{name} is a sum over the out-of-equilibrium particles", False, str(val)[:100], key=f"sum|{name}")
            continue
        res = (val.args[0] - ref(mu, nu)).subs(v, sp.tanh(eta))
        ok, how = is_zero(sp.simplify(res), chk.seed)
        chk.ob("R13.2", fi.where(), f"{name} == dof * [D20 u u + D02 ub ub + D11 (u ub + ub u) + (D20 - D02 - m^2 D00)/2 * (-g + u u - ub ub)]^{{{mu}{nu}}} "
               "with u = gamma(1, v), ub = gamma(v, 1): the direct integral of p^mu p^nu deltaF boosted to the wall frame", ok, how,
               key=f"tmunu|{name}", how=how)
    # the four moments are read from the attributes of the same name, at the grid index, for all particles
    okr = all(has(list(fi.node.body), f"{P_DELTAS}.{k}.coefficients") for k in DELTAS)
    chk.ob("R13.2", fi.where(), "all four moments of the container are consumed", okr, key="all-moments")
    # caller pairing: the solver is handed  c1 - T30  and  c2 - T33  (tuple positions 0 and 1 of deltaToTmunu)
    fp = S.func("equationOfMotion:EOM.findPlasmaProfilePoint")
    chk.touch(fp.name)
    calls = calls_in(fp.node, "deltaToTmunu")
    G = Flat(S, fp, keep_calls={"deltaToTmunu"})
    s = {}
    call = None
    rc = {nf(c): c for vals in G.defs.values() for v_ in vals for c in ast.walk(v_) if isinstance(c, ast.Call) and (dotted(c.func) or "").endswith("deltaToTmunu")}
    if len(calls) == 1 and len(rc) == 1:
        call = next(iter(rc.values()))
        ctxt = n(call)
        for vals in G.defs.values():
            for val in vals:
                for c_ in ("c1", "c2"):
                    for pos in (0, 1):
                        if eqx(val, f"{c_} - {ctxt}[{pos}]"):
                            s.setdefault(c_, set()).add(pos)
    chk.ob("R13.2", fp.where(), "T30 is subtracted from c1 and T33 from c2 (tuple positions 0 and 1 of deltaToTmunu)",
           s == {"c1": {0}, "c2": {1}}, str(s), key="pairing|c1c2")
    okc = call is not None and all(eqx(kwarg(call, p_, i), p_) for i, p_ in enumerate((P_INDEX, P_FIELDS, P_V, P_DELTAS))) and len(call.args) + len(call.keywords) == 4
    chk.ob("R13.2", fp.where(), "deltaToTmunu is called with (index, fields, velocityMid, offEquilDeltas)",
           okc, n(call) if call is not None else f"{len(calls)} calls", key="call-args")
    chk.floor("R13.2", 5)


def _builder(ci, meth: str, depth: int = 0):
    """the method that constructs the result of ci.<meth>, looking through plain delegation to a sibling method
    (`return self.__mul__(number)`, `return self * number`, class-level `__rmul__ = __mul__`)"""
    if depth > 3:
        return None
    fm = ci.methods.get(meth)
    # what the class body binds the name to: its last binding wins (`def __rmul__` ... or the class-level alias `__rmul__ = __mul__`)
    last = None
    for st in ci.node.body:
        if isinstance(st, (ast.FunctionDef, ast.AsyncFunctionDef)) and st.name == meth:
            last = st
        elif isinstance(st, (ast.Assign, ast.AnnAssign)) and getattr(st, "value", None) is not None \
                and any(isinstance(y, ast.Name) and y.id == meth for t in (st.targets if isinstance(st, ast.Assign) else [st.target]) for y in ast.walk(t)):
            last = st
    if fm is None or (last is not None and not isinstance(last, (ast.FunctionDef, ast.AsyncFunctionDef))):
        alias = last.value if last is not None and isinstance(last, (ast.Assign, ast.AnnAssign)) else None
        single = isinstance(last, ast.AnnAssign) or (isinstance(last, ast.Assign) and len(last.targets) == 1 and isinstance(last.targets[0], ast.Name))
        # the alias names a method that the class body defines once (the function object it denotes is that definition)
        if single and isinstance(alias, ast.Name) and alias.id != meth \
                and len([s_ for s_ in ci.node.body if isinstance(s_, (ast.FunctionDef, ast.AsyncFunctionDef)) and s_.name == alias.id]) == 1 \
                and len(_scope_bindings(ci.node.body, alias.id)) == 1:
            return _builder(ci, alias.id, depth + 1)
        return None
    body = [st for st in fm.node.body if not (isinstance(st, ast.Expr) and isinstance(st.value, ast.Constant) and isinstance(st.value.value, str))]
    prm = [p for p in fm.params() if p != "self"]
    if len(body) == 1 and isinstance(body[0], ast.Return) and body[0].value is not None and len(prm) == 1:
        v = body[0].value
        for sib in ci.methods:
            if sib != meth and (eqx(v, f"self.{sib}({prm[0]})") or eqx(v, f"{ci.name}.{sib}(self, {prm[0]})")):
                return _builder(ci, sib, depth + 1)
        if meth == "__rmul__" and isinstance(v, ast.BinOp) and isinstance(v.op, ast.Mult) and eqx(v.left, "self") and eqx(v.right, prm[0]):
            return _builder(ci, "__mul__", depth + 1)
    return fm


def r13_4(chk: Check) -> None:
    S = chk.src
    fi = written_out(S, S.func(f"{BS}.getDeltas"))
    cx = Ctx(S, fi)
    ts = [c for c in calls_in(fi.node, "takeSlice")]
    ok = False
    if ts:
        a0, a1, ax = kwarg(ts[0], "idxStart", 0), kwarg(ts[0], "idxEnd", 1), kwarg(ts[0], "axis", 2)
        axr = cx.resolve(ax) if ax is not None else None
        ok = eqx(a0, "1", cx) and eqx(a1, "-1", cx) and axr is not None and ((isinstance(axr, ast.Attribute) and axr.attr == "overFieldPoints") or eqx(axr, "0")) \
            and isinstance(ts[0].func, ast.Attribute) and eqx(ts[0].func.value, "self.background.fieldProfiles", cx)
    chk.ob("R13.4", fi.where(), "field profile drops exactly the two boundary points (takeSlice(1, -1) along the point axis) that deltaF lacks",
           ok, n(ts[0]) if ts else "", key="boundary-drop")
    ft = S.func("fields:Fields.takeSlice")
    chk.touch(ft.name)
    prm = [p for p in ft.params() if p != "self"]
    ok = False
    if len(prm) == 3:
        A, B, AX = prm

        def mode(points: bool):
            def choose(t):
                for txt, val in ((f"{AX} == self.overFieldPoints", True), (f"{AX} != self.overFieldPoints", False), (f"{AX} == self.overFieldTypes", False),
                                 (f"{AX} != self.overFieldTypes", True), (f"{AX} == 0", True), (f"{AX} == 1", False)):
                    if eqx(t, txt):
                        return val == points
                return None
            return choose
        rows, cols = Flat(S, ft, choose=mode(True)), Flat(S, ft, choose=mode(False))
        ok = len(rows.returns) == 1 and len(cols.returns) == 1 and bool(rows.decided) and bool(cols.decided) \
            and (eqx(rows.returns[0][1], f"self[{A}:{B}, :]") or eqx(rows.returns[0][1], f"self[{A}:{B}]")) and eqx(cols.returns[0][1], f"self[:, {A}:{B}]")
    chk.ob("R13.4", ft.where(), "Fields.takeSlice slices rows for the point axis and columns for the field axis", ok, key="takeSlice")
    fcls = S.cls("fields:Fields")
    vals = {k: (v.value if isinstance(v, ast.Constant) else None) for k, v in fcls.consts.items()}
    chk.ob("R13.4", "src/WallGo/fields.py", "Fields.overFieldPoints == 0 and overFieldTypes == 1 (points x fields layout)",
           vals.get("overFieldPoints") == 0 and vals.get("overFieldTypes") == 1, str(vals), key="axes-consts")
    # container arithmetic
    for cname, attrs, mod, checked in (("BoltzmannDeltas", DELTAS, "containers", DELTAS), ("BoltzmannResults", None, "results", ("deltaF", "Deltas"))):
        ci = S.cls(f"{mod}:{cname}")
        flds = _fields(ci)
        for meth in ("__mul__", "__rmul__", "__add__"):
            fm = _builder(ci, meth)
            if fm is None:
                raise AnchorMissing(f"{cname}.{meth} not found")
            fm = written_out(S, fm)
            chk.touch(fm.name)
            cm = Ctx(S, fm)
            rets = [cm.resolve(r.value) for r in own_nodes(fm.node) if isinstance(r, ast.Return) and r.value is not None]
            c = [x for r in rets for x in ast.walk(r) if isinstance(x, ast.Call) and (dotted(x.func) or "").split(".")[-1] == cname]
            bad = []
            if len(c) != 1 or len(rets) != 1:
                bad.append("no constructor call")
            else:
                given = _ctor_args(c[0], flds)
                for k in checked:
                    if k not in given:
                        bad.append(f"{k} missing")
                        continue
                    used = {x.attr for x in ast.walk(given[k]) if isinstance(x, ast.Attribute) and x.attr in checked}
                    if used != {k}:
                        bad.append(f"{k} built from {sorted(used)}")
                    # an attribute whose name is computed (getattr(other, table[name]), vars(self)[...]) may be any of them
                    dyn = [n(x)[:60] for x in ast.walk(given[k]) if (isinstance(x, ast.Call) and (dotted(x.func) or "").split(".")[-1] in ("getattr", "vars", "attrgetter", "__getattribute__"))
                           or (isinstance(x, ast.Attribute) and x.attr == "__dict__")]
                    if dyn:
                        bad.append(f"{k} built from an attribute chosen at run time: {dyn[0]}")
            # linearity (moments are linear in the deviation): number * container scales every one of these components by that number,
            # container + container adds them component by component -- whichever way the constructor call is spelled
            prm = [p for p in fm.params()][1:]
            me = fm.params()[0] if fm.params() else "self"
            nonlin = []
            if not bad and len(prm) == 1:
                for k in checked:
                    want = f"{prm[0]} * {me}.{k}" if meth != "__add__" else f"{prm[0]}.{k} + {me}.{k}"
                    if not eqx(given[k], want, cm):
                        nonlin.append(f"{k} = {n(given[k])[:80]}")
            else:
                nonlin.append("constructor call not understood")
            chk.ob("R13.4", fm.where(), f"{cname}.{meth} is linear: " + ("every component is multiplied by the number" if meth != "__add__" else
                                                                        "the components of the two operands are added"), not nonlin, "; ".join(nonlin),
                   key=f"linear|{cname}.{meth}")
            if cname == "BoltzmannDeltas":
                chk.ob("R13.4", fm.where(), f"{cname}.{meth} maps each moment to itself", not bad, "; ".join(bad), key=f"container|{cname}.{meth}")
            else:
                chk.ob("R13.4", fm.where(), f"BoltzmannResults.{meth} combines deltaF with deltaF and Deltas with Deltas", not bad,
                       "; ".join(bad), key=f"container|BoltzmannResults.{meth}")
    chk.floor("R13.4", 9)


def rules(chk: Check) -> None:
    chk.stage(r13_1, chk)
    chk.stage(cardinal_before_weights, chk, "R13.1")
    chk.stage(r13_2, chk)
    chk.stage(r13_4, chk)
    # the momenta and Jacobians read by getDeltas are cached grid state: they must be mutually consistent
    # for every history of rescaling calls (shared typestate rule of C17)
    from .c17 import cache_coherence, jacobian_identity
    chk.stage(cache_coherence, chk, "R13.5")
    chk.floor("R13.5", 8)
    # the momentum Jacobians in the measure are the derivatives of the momentum maps (both grid classes share them)
    chk.stage(jacobian_identity, chk, "R13.6", "grid:Grid", (1, 2))
    chk.stage(jacobian_identity, chk, "R13.6", "grid3Scales:Grid3Scales", (1, 2))
    chk.floor("R13.6", 4)
    # getDeltas integrates the same Polynomial four times: each integral must see the same deltaF (R13.7: integrate / evaluate leave the stored
    # coefficients untouched, shared with C16 R16.5), through the same quadrature (R13.8, shared with C09 R09.4)
    from ..core import Remap
    from .c16 import coefficients_not_modified
    from . import c09
    chk.stage(coefficients_not_modified, chk, "R13.7")
    chk.floor("R13.7", 6)
    chk.stage(c09.r09_4, Remap(chk, {"R09.4": "R13.8"}))
    chk.floor("R13.8", 2)
    # R13.9: the moments are reproducible: getDeltas (and everything it calls) never updates in place an array it obtained from the grid's cache, the
    # background or the polynomial (numpy basic indexing returns views) -- the second call would integrate with a corrupted measure
    from .shared import no_inplace_mutation_of_aliased_state
    chk.stage(no_inplace_mutation_of_aliased_state, chk, "R13.9", ("boltzmann", "polynomial", "containers", "equationOfMotion"), 3)
