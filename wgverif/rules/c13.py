"""C13 -- out-of-equilibrium moments are the momentum integrals they are defined to be.

R13.1 measure and the four weights; which Delta receives which weight; axes and Jacobians
R13.2 deltaToTmunu: T30/T33 equal the direct moment expression of p^mu p^nu boosted to the wall frame
R13.3 linearity: no weight depends on deltaF
R13.4 boundary points dropped consistently; container arithmetic maps each Delta to itself
R13.5 cached momenta and Jacobians consumed by the moments stay mutually consistent under rescaling (typestate rule shared with C17)
"""
from __future__ import annotations

import ast

import sympy as sp

from ..core import AnchorMissing, Check, Undecided, calls_in, dotted, kwarg, own_nodes, src, slice_src
from ..terms import Extractor, SUM, is_zero

LEVEL = "other"
BS = "boltzmann:BoltzmannSolver"
DELTAS = ("Delta00", "Delta02", "Delta20", "Delta11")


def n(x) -> str:
    return " ".join(src(x).split())


def r13_1(chk: Check) -> None:
    S = chk.src
    fi = S.func(f"{BS}.getDeltas")
    chk.touch(fi.name)
    ex = Extractor(S)
    paths = [p for p in ex.paths(fi) if p.raised is None]
    if not paths:
        raise Undecided("getDeltas: no path")
    env = paths[-1].env
    # returned BoltzmannResults(... Deltas=BoltzmannDeltas(Delta00=..., ...))
    ctor = [c for c in calls_in(fi.node, "BoltzmannDeltas")]
    if len(ctor) != 1:
        raise AnchorMissing("getDeltas: BoltzmannDeltas(...) construction not found")
    kw = {k.arg: ex.expr(k.value, env) for k in ctor[0].keywords}
    chk.ob("R13.1", fi.where(ctor[0]), "BoltzmannDeltas is built with the four keywords Delta00, Delta02, Delta20, Delta11",
           set(kw) == set(DELTAS), str(sorted(kw)), key="keywords")
    pz, pp = ex.sym("self.grid.pzValues"), ex.sym("self.grid.ppValues")
    msq = env.get("msq")
    E = sp.sqrt(msq + pz**2 + pp**2) if isinstance(msq, sp.Basic) else None
    # Jacobians: elements 1 and 2 of getCompactificationDerivatives()
    jac = None
    for st in own_nodes(fi.node):
        if isinstance(st, ast.Assign) and isinstance(st.targets[0], ast.Tuple) and isinstance(st.value, ast.Call) \
                and (dotted(st.value.func) or "") == "self.grid.getCompactificationDerivatives":
            jac = [n(e) for e in st.targets[0].elts]
    if jac is None or len(jac) != 3:
        raise AnchorMissing("getDeltas: Jacobians not taken from self.grid.getCompactificationDerivatives()")
    g = sp.Function("grid.getCompactificationDerivatives")()
    J1, J2 = sp.Function("getitem")(g, 1), sp.Function("getitem")(g, 2)
    base_ref = J1 * J2 * pp / (4 * sp.pi**2 * E) if E is not None else None
    weights = {"Delta00": lambda: base_ref, "Delta02": lambda: pz**2 * base_ref, "Delta20": lambda: E**2 * base_ref,
               "Delta11": lambda: E * pz * base_ref}
    desc = {"Delta00": "1", "Delta02": "p_z^2", "Delta20": "E^2", "Delta11": "E p_z"}
    for k in DELTAS:
        v = kw.get(k)
        ok = None
        how = ""
        axes = None
        if isinstance(v, sp.Basic) and v.func.__name__.endswith(".integrate") and len(v.args) == 2:
            axes, w = v.args
            ok, how = is_zero(w - weights[k](), chk.seed)
            recv = v.func.__name__
        chk.ob("R13.1", fi.where(ctor[0]), f"{k} = integral of deltaF * {desc[k]} * (dpz/drz)(dpp/drp) p_par/(4 pi^2 E), E^2 = m^2+pz^2+pp^2",
               ok, f"found {v}; {how}"[:300], key=f"weight|{k}", how=how)
        chk.ob("R13.1", fi.where(ctor[0]), f"{k} integrates over axes (2, 3) = (pz, pp)", axes == sp.Tuple(2, 3), str(axes), key=f"axes|{k}")
    # the integrated polynomial: built from deltaF with directions (Array, z, pz, pp), then moved to the cardinal basis
    poly = [c for c in calls_in(fi.node, "Polynomial")]
    okp = False
    if poly:
        a = poly[0].args
        okp = len(a) >= 4 and n(a[0]) == "deltaF" and n(a[3]).replace('"', "'") == "('Array', 'z', 'pz', 'pp')" \
            and n(a[2]).replace('"', "'") == "('Array', self.basisM, self.basisN, self.basisN)"
    chk.ob("R13.1", fi.where(), "the integrated Polynomial wraps deltaF with directions (Array, z, pz, pp) and bases (Array, basisM, basisN, basisN)",
           okp, n(poly[0])[:160] if poly else "", key="poly")
    # broadcasting axes of pz / pp / Jacobians
    want_axes = {"pz": "None, None, :, None", "pp": "None, None, None, :", "dpzdrz": "None, None, :, None", "dppdrp": "None, None, None, :"}
    got_axes = {}
    for st in own_nodes(fi.node):
        if isinstance(st, ast.Assign) and isinstance(st.targets[0], ast.Name) and isinstance(st.value, ast.Subscript):
            nm = st.targets[0].id
            if nm in ("pz", "pp"):
                got_axes[nm] = (slice_src(st.value.slice), n(st.value.value))
            if nm in jac[1:]:
                got_axes["dpzdrz" if nm == jac[1] else "dppdrp"] = (slice_src(st.value.slice), n(st.value.value))
    ok = all(got_axes.get(k, ("",))[0] == v for k, v in want_axes.items()) and \
        got_axes.get("pz", ("", ""))[1] == "self.grid.pzValues" and got_axes.get("pp", ("", ""))[1] == "self.grid.ppValues"
    chk.ob("R13.1", fi.where(), "pz and dpz/drz (Jacobian element 1) live on axis 2, pp and dpp/drp (Jacobian element 2) on axis 3 of the (particle, z, pz, pp) array", ok,
           str(got_axes), key="broadcast-axes")
    chk.floor("R13.1", 13)
    # R13.3 linearity
    dF = ex.sym("deltaF")
    bad = [k for k in DELTAS if isinstance(kw.get(k), sp.Basic) and kw[k].args[1].has(dF)]
    chk.ob("R13.3", fi.where(), "no integration weight depends on deltaF (moments are linear in the deviation)", not bad, str(bad), key="linear")
    chk.floor("R13.3", 1)


def cardinal_before_weights(chk: Check, rule: str) -> None:
    """Point-wise weights that vary along z (masses, energies, field gradients) are multiplied onto the coefficient
    array inside Polynomial.integrate, which only converts the *integrated* axes: every other polynomial axis must
    already hold grid values (Cardinal basis) -- otherwise the result depends on the basis chosen for deltaF."""
    S = chk.src
    for fname in ("getDeltas", "checkLinearization"):
        fi = S.func(f"{BS}.{fname}")
        chk.touch(fi.name)
        polys = {}
        for st in own_nodes(fi.node):
            if isinstance(st, ast.Assign) and isinstance(st.value, ast.Call) and n(st.value.func) == "Polynomial" \
                    and isinstance(st.targets[0], ast.Name) and len(st.value.args) >= 3:
                polys[st.targets[0].id] = st.value
        for name, ctor in polys.items():
            bases = ctor.args[2]
            declared = [n(e) for e in bases.elts] if isinstance(bases, ast.Tuple) else [n(bases)]
            uses_solver_basis = any("self.basis" in d for d in declared)
            integ = [c for c in calls_in(fi.node, "integrate") if n(c.func) == f"{name}.integrate"]
            if not integ or not uses_solver_basis:
                continue
            conv = [c for c in calls_in(fi.node, "changeBasis") if n(c.func) == f"{name}.changeBasis" and c.lineno < integ[0].lineno]
            ok = False
            detail = "no changeBasis before integrate"
            if conv:
                a0 = conv[-1].args[0]
                tup = [e.value if isinstance(e, ast.Constant) else n(e) for e in a0.elts] if isinstance(a0, ast.Tuple) else [n(a0)]
                ok = all(t in ("Array", "Cardinal") for t in tup) and tup.count("Cardinal") >= 3
                detail = str(tup)
            chk.ob(rule, fi.where(integ[0]), f"{fname}: `{name}` is converted to the Cardinal basis on all polynomial axes before z-dependent "
                   "weights are multiplied in (basis independence of the derived quantities)", ok, detail, key=f"cardinal|{fname}|{name}")


def r13_2(chk: Check) -> None:
    S = chk.src
    fi = S.func("equationOfMotion:EOM.deltaToTmunu")
    chk.touch(fi.name)
    ex = Extractor(S, inline=lambda nm: nm.startswith("helpers:"))
    ps = [p for p in ex.paths(fi) if p.raised is None]
    if len(ps) != 1 or not isinstance(ps[0].value, tuple) or len(ps[0].value) != 2:
        raise Undecided("deltaToTmunu: expected one path returning (T30, T33)")
    T30, T33 = ps[0].value
    env = dict(ps[0].env)
    env["i"] = ex.sym("i")
    env["particle"] = ex.sym("particle")

    def atom(text):
        return ex.expr(ast.parse(text, mode="eval").body, env)

    D = {k: atom(f"offEquilDeltas.{k}.coefficients[:, index][i]") for k in DELTAS}
    m2 = atom("particle.msqVacuum(fields)")
    dof = atom("particle.totalDOFs")
    v = ex.sym("velocityMid")
    eta = sp.Symbol("eta", real=True)
    gam = 1 / sp.sqrt(1 - v**2)
    u = {0: gam, 3: gam * v}
    ub = {0: gam * v, 3: gam}
    gmet = {(3, 0): 0, (3, 3): -1}

    def ref(mu, nu):
        perp = sp.Rational(1, 2) * (D["Delta20"] - D["Delta02"] - m2 * D["Delta00"])
        return dof * (D["Delta20"] * u[mu] * u[nu] + D["Delta02"] * ub[mu] * ub[nu]
                      + D["Delta11"] * (u[mu] * ub[nu] + ub[mu] * u[nu])
                      + perp * (-gmet[(mu, nu)] + u[mu] * u[nu] - ub[mu] * ub[nu]))

    for name, val, (mu, nu) in (("T30", T30, (3, 0)), ("T33", T33, (3, 3))):
        if not (isinstance(val, sp.Basic) and val.func == SUM):
            chk.ob("R13.2", fi.where(), f"{name} is a sum over the out-of-equilibrium particles", False, str(val)[:100], key=f"sum|{name}")
            continue
        res = (val.args[0] - ref(mu, nu)).subs(v, sp.tanh(eta))
        ok, how = is_zero(sp.simplify(res), chk.seed)
        chk.ob("R13.2", fi.where(), f"{name} == dof * [D20 u u + D02 ub ub + D11 (u ub + ub u) + (D20 - D02 - m^2 D00)/2 * (-g + u u - ub ub)]^{{{mu}{nu}}} "
               "with u = gamma(1, v), ub = gamma(v, 1): the direct integral of p^mu p^nu deltaF boosted to the wall frame", ok, how,
               key=f"tmunu|{name}", how=how)
    # the four moments are read from the attributes of the same name, at the grid index, for all particles
    okr = True
    for k in DELTAS:
        if f"offEquilDeltas.{k}.coefficients" not in " ".join(n(s) for s in own_nodes(fi.node) if isinstance(s, ast.Assign)):
            okr = False
    chk.ob("R13.2", fi.where(), "all four moments of the container are consumed", okr, key="all-moments")
    # caller pairing: (Tout30, Tout33) = deltaToTmunu(...); s1 = c1 - Tout30 ; s2 = c2 - Tout33
    fp = S.func("equationOfMotion:EOM.findPlasmaProfilePoint")
    chk.touch(fp.name)
    ex2 = Extractor(S)
    env2 = None
    for st in fp.node.body:
        pass
    tup = None
    for st in own_nodes(fp.node):
        if isinstance(st, ast.Assign) and isinstance(st.value, ast.Call) and n(st.value.func) == "self.deltaToTmunu" \
                and isinstance(st.targets[0], ast.Tuple):
            tup = [n(e) for e in st.targets[0].elts]
            callargs = [n(a) for a in st.value.args]
    s = {}
    for st in own_nodes(fp.node):
        if isinstance(st, ast.Assign) and isinstance(st.targets[0], ast.Name) and isinstance(st.value, ast.BinOp) \
                and isinstance(st.value.op, ast.Sub) and tup and n(st.value.right) in tup:
            s[n(st.value.left)] = tup.index(n(st.value.right))
    chk.ob("R13.2", fp.where(), "T30 is subtracted from c1 and T33 from c2 (tuple positions 0 and 1 of deltaToTmunu)",
           s == {"c1": 0, "c2": 1}, str(s), key="pairing|c1c2")
    chk.ob("R13.2", fp.where(), "deltaToTmunu is called with (index, fields, velocityMid, offEquilDeltas)",
           tup is not None and callargs == ["index", "fields", "velocityMid", "offEquilDeltas"], str(callargs if tup else None), key="call-args")
    chk.floor("R13.2", 5)


def r13_4(chk: Check) -> None:
    S = chk.src
    fi = S.func(f"{BS}.getDeltas")
    ts = calls_in(fi.node, "takeSlice")
    ok = False
    if ts:
        a = [n(x) for x in ts[0].args]
        ax = kwarg(ts[0], "axis", 2)
        ok = a[:2] == ["1", "-1"] and ax is not None and n(ax).endswith("overFieldPoints")
    chk.ob("R13.4", fi.where(), "field profile drops exactly the two boundary points (takeSlice(1, -1) along the point axis) that deltaF lacks",
           ok, n(ts[0]) if ts else "", key="boundary-drop")
    ft = S.func("fields:Fields.takeSlice")
    chk.touch(ft.name)
    txt = " ".join(n(s) for s in ft.node.body)
    ok = "if axis == self.overFieldPoints: return self[idxStart:idxEnd, :]" in txt.replace("  ", " ") or \
         ("self[idxStart:idxEnd, :]" in txt and "self[:, idxStart:idxEnd]" in txt and "axis == self.overFieldPoints" in txt)
    chk.ob("R13.4", ft.where(), "Fields.takeSlice slices rows for the point axis and columns for the field axis", ok, key="takeSlice")
    fcls = S.cls("fields:Fields")
    vals = {k: (v.value if isinstance(v, ast.Constant) else None) for k, v in fcls.consts.items()}
    chk.ob("R13.4", "src/WallGo/fields.py", "Fields.overFieldPoints == 0 and overFieldTypes == 1 (points x fields layout)",
           vals.get("overFieldPoints") == 0 and vals.get("overFieldTypes") == 1, str(vals), key="axes-consts")
    # container arithmetic
    for cname, attrs, mod in (("BoltzmannDeltas", DELTAS, "containers"),):
        ci = S.cls(f"{mod}:{cname}")
        for meth in ("__mul__", "__rmul__", "__add__"):
            fm = ci.methods.get(meth)
            if fm is None:
                raise AnchorMissing(f"{cname}.{meth} not found")
            chk.touch(fm.name)
            c = [x for x in calls_in(fm.node, cname)]
            bad = []
            if not c:
                bad.append("no constructor call")
            else:
                for k in c[0].keywords:
                    used = {x.attr for x in ast.walk(k.value) if isinstance(x, ast.Attribute) and x.attr in attrs}
                    if used != {k.arg}:
                        bad.append(f"{k.arg} built from {sorted(used)}")
                if {k.arg for k in c[0].keywords} != set(attrs):
                    bad.append("keywords missing")
            chk.ob("R13.4", fm.where(), f"{cname}.{meth} maps each moment to itself", not bad, "; ".join(bad), key=f"container|{cname}.{meth}")
    ci = S.cls("results:BoltzmannResults")
    for meth in ("__mul__", "__rmul__", "__add__"):
        fm = ci.methods.get(meth)
        if fm is None:
            raise AnchorMissing(f"BoltzmannResults.{meth} not found")
        chk.touch(fm.name)
        c = [x for x in calls_in(fm.node, "BoltzmannResults")]
        bad = []
        for k in (c[0].keywords if c else []):
            if k.arg in ("deltaF", "Deltas"):
                used = {x.attr for x in ast.walk(k.value) if isinstance(x, ast.Attribute) and x.attr in ("deltaF", "Deltas")}
                if used != {k.arg}:
                    bad.append(f"{k.arg} built from {sorted(used)}")
        chk.ob("R13.4", fm.where(), f"BoltzmannResults.{meth} combines deltaF with deltaF and Deltas with Deltas", bool(c) and not bad,
               "; ".join(bad), key=f"container|BoltzmannResults.{meth}")
    chk.floor("R13.4", 9)


def rules(chk: Check) -> None:
    r13_1(chk)
    cardinal_before_weights(chk, "R13.1")
    r13_2(chk)
    r13_4(chk)
    # the momenta and Jacobians read by getDeltas are cached grid state: they must be mutually consistent
    # for every history of rescaling calls (shared typestate rule of C17)
    from .c17 import cache_coherence, jacobian_identity
    cache_coherence(chk, "R13.5")
    chk.floor("R13.5", 8)
    # the momentum Jacobians in the measure are the derivatives of the momentum maps (both grid classes share them)
    jacobian_identity(chk, "R13.6", "grid:Grid", (1, 2))
    jacobian_identity(chk, "R13.6", "grid3Scales:Grid3Scales", (1, 2))
    chk.floor("R13.6", 4)
