"""C06 -- matching solutions are physically admissible and correctly classified.

R06.1 the Jouguet condition is d(v+^2)/dT- = 0 and vJ = v+ at that point
R06.2 template: the closed-form vJ is the Chapman-Jouguet point (zero discriminant, v- = cb)
R06.3 classification: detonation branch iff vw > vJ, in both classes
R06.4 v-^2 = min(vw^2, cs-^2) (hybrids leave at the sound speed); template v- = min(cb, vw)
R06.5 weak-detonation branch: root bracketed between Tn and the minimiser of the same residual
R06.6 fastest deflagration / slowest detonation / minimal velocity bookkeeping
"""
from __future__ import annotations

import ast

import sympy as sp

from ..core import AnchorMissing, Check, Undecided, calls_in, dotted, kwarg, own_nodes, src, walk_guarded
from ..hydro import HY, TM, SideTyper, drop_ite, fn, hydro_extractor, junction_terms, n, th, same_term
from ..terms import Extractor, is_zero

LEVEL = "other"


def r06_1(chk: Check):
    S = chk.src
    ex, fj, vpvm, vpovm = junction_terms(S)
    fo = S.func(f"{HY}.findJouguetVelocity")
    fd = S.func(f"{HY}.findJouguetVelocity.vpDerivNum")
    chk.touch(fo.name, fd.name)
    exo = hydro_extractor(S)
    outer = {"__module__": "hydrodynamics", "__class__": "Hydrodynamics"}
    for st in fo.node.body:
        if isinstance(st, ast.FunctionDef):
            break
        for e_, g_, o_ in exo.stmt(st, outer, [], 0):
            outer = e_
    Tn = exo.sym("self.Tnucl")
    chk.ob("R06.1", fo.where(), "the high-T data of the Jouguet condition are p+(Tn), e+(Tn) (undisturbed plasma in front of a detonation)",
           outer.get("pHighT") == th("pHighT")(Tn) and outer.get("eHighT") == th("eHighT")(Tn), f"{outer.get('pHighT')}, {outer.get('eHighT')}",
           key="front-data")
    val = exo.single(fd, None, outer)
    tm = exo.sym("tm")
    pLf, eLf = sp.Function("pLf"), sp.Function("eLf")
    pH, eH = th("pHighT")(Tn), th("eHighT")(Tn)
    N = (pH - pLf(tm)) * (pH + eLf(tm))
    D = (eH - eLf(tm)) * (eH + pLf(tm))
    ref = sp.diff(N, tm) * D - N * sp.diff(D, tm)
    ref = ref.subs({sp.Derivative(pLf(tm), tm): th("dpLowT")(tm), sp.Derivative(eLf(tm), tm): th("deLowT")(tm)})
    ref = ref.replace(pLf, lambda a: th("pLowT")(a)).replace(eLf, lambda a: th("eLowT")(a))
    ok, how = is_zero(val - ref, chk.seed)
    chk.ob("R06.1", fd.where(), "vpDerivNum == N' D - N D' for v+^2 = N/D, N = (p+ - p-)(p+ + e-), D = (e+ - e-)(e+ + p-), with p-' = dpLowT, e-' = deLowT",
           ok, how, key="numerator", how=how)
    # returned value
    rets = [r for r in own_nodes(fo.node) if isinstance(r, ast.Return)]
    defs = {}
    for st in own_nodes(fo.node):
        if isinstance(st, ast.Assign) and isinstance(st.targets[0], ast.Name):
            defs.setdefault(st.targets[0].id, []).append(st.value)
    okr = None
    how = "return value not understood"
    if len(rets) == 1:
        e = rets[0].value
        env2 = dict(outer)
        # resolve `vp = np.sqrt(...)` ; return float(vp)
        tgt = e
        while isinstance(tgt, ast.Call) and n(tgt.func) == "float":
            tgt = tgt.args[0]
        if isinstance(tgt, ast.Name) and tgt.id in defs:
            tgt = defs[tgt.id][-1]
        v = exo.expr(tgt, env2)
        ts = exo.sym("tmSol")
        Tp, Tm = ex.sym("Tp"), ex.sym("Tm")
        A = drop_ite(vpvm * vpovm).subs({Tp: Tn, Tm: ts}, simultaneous=True)
        okr, how = is_zero(sp.expand(v**2) - A, chk.seed) if isinstance(v, sp.Basic) else (None, how)
    chk.ob("R06.1", fo.where(), "the returned vJ satisfies vJ^2 == vpvm*vpovm(Tn, T-sol): it is v+ (= vw) of the detonation at the stationary point", okr, how,
           key="vJ-value", how=how)
    roots = calls_in(fo.node, "root_scalar")
    ok = len(roots) == 2 and all(n(c.args[0]) == "vpDerivNum" for c in roots)
    chk.ob("R06.1", fo.where(), "T-sol is the root of vpDerivNum (bracketed or secant) and a non-converged root raises", ok and
           any(isinstance(x, ast.Raise) for x in own_nodes(fo.node)), key="root")
    okb = any(n(kwarg(c, "bracket")).replace(" ", "") == "[self.Tnucl,Tmax]" for c in roots if kwarg(c, "bracket") is not None)
    chk.ob("R06.1", fo.where(), "the bracket starts at Tn (T- >= Tn for detonations)", okb, key="bracket")
    chk.floor("R06.1", 5)


def r06_2(chk: Check):
    S = chk.src
    fjv = S.func(f"{TM}.findJouguetVelocity")
    fdt = S.func(f"{TM}.detonationVAndT")
    chk.touch(fjv.name, fdt.name)
    ex = hydro_extractor(S)
    cb = sp.Symbol("cb", positive=True)
    al = sp.Symbol("alpha", positive=True)
    ps = [p for p in ex.paths(fjv, {"alN": al}) if p.raised is None]
    vJ = ps[-1].value
    sub = {ex.sym("self.cb"): cb, ex.sym("self.cb2"): cb**2, ex.sym("self.alN"): al}
    vJ = vJ.subs(sub)
    want = cb * (1 + sp.sqrt(3 * al * (1 - cb**2 + 3 * cb**2 * al))) / (1 + 3 * cb**2 * al)
    ok, how = is_zero(vJ - want, chk.seed)
    chk.ob("R06.2", fjv.where(), "template vJ == cb (1 + sqrt(3 a (1 - cb^2 + 3 cb^2 a)))/(1 + 3 cb^2 a)", ok, how, key="vJ-closed-form", how=how)
    pd = [p for p in ex.paths(fdt) if p.raised is None]
    if len(pd) != 1:
        raise Undecided("detonationVAndT: path")
    vp, vm, Tp, Tm = pd[0].value
    part = pd[0].env.get("part")
    vw = ex.sym("vw")
    disc = (part**2 - 4 * ex.sym("self.cb2") * vp**2).subs(sub).subs(vw, want)
    ok, how = is_zero(sp.simplify(disc), chk.seed)
    chk.ob("R06.2", fdt.where(), "at vw = vJ the discriminant of the detonation branch vanishes (vJ is where the branch begins)", ok, how,
           key="discriminant", how=how)
    vmJ = vm.subs(sub).subs(vw, want)
    ok, how = is_zero(sp.simplify(vmJ**2 - cb**2), chk.seed)
    if ok is None:
        ok, how = is_zero(sp.simplify(sp.expand(vmJ**2 - cb**2)), chk.seed)
    chk.ob("R06.2", fdt.where(), "at vw = vJ the detonation leaves at the sound speed: v- == cb (Chapman-Jouguet point)", ok, how, key="CJ", how=how)
    chk.ob("R06.2", fdt.where(), "template detonation: v+ = vw, T+ = Tnucl", vp == vw and Tp == ex.sym("self.Tnucl"), f"{vp}, {Tp}", key="deton-front")
    # branch sign: '+' root (weak detonation: v- > cb... the larger root)
    w = sp.Wild("w")
    plus = is_zero(vm - (part + sp.sqrt(part**2 - 4 * ex.sym("self.cb2") * vp**2)) / (2 * vp), chk.seed)[0]
    chk.ob("R06.2", fdt.where(), "template detonation takes the '+' root (weak branch, v- >= cb)", bool(plus), str(vm)[:120], key="weak-root")
    chk.floor("R06.2", 5)


def r06_3(chk: Check):
    S = chk.src
    fm = S.func(f"{HY}.findMatching")
    chk.touch(fm.name)
    first = fm.node.body
    iff = [st for st in fm.node.body if isinstance(st, ast.If)]
    ok = False
    if iff:
        t = iff[0].test
        ok = n(t).replace(" ", "") == "vwTry>self.vJ" and any(isinstance(c, ast.Call) and n(c.func) == "self.matchDeton" for s_ in iff[0].body for c in ast.walk(s_)) \
            and not any(isinstance(c, ast.Call) and n(c.func) == "self.matchDeton" for s_ in iff[0].orelse for c in ast.walk(s_))
    chk.ob("R06.3", fm.where(), "Hydrodynamics.findMatching takes the detonation branch iff vw > vJ", ok, key="class|Hydrodynamics")
    ft = S.func(f"{TM}.findMatching")
    chk.touch(ft.name)
    iff = [st for st in ft.node.body if isinstance(st, ast.If)]
    ok = bool(iff) and n(iff[0].test).replace(" ", "") == "vw>self.vJ" and any(isinstance(s_, ast.Return) and "detonationVAndT" in n(s_) for s_ in iff[0].body)
    chk.ob("R06.3", ft.where(), "template findMatching takes the detonation branch iff vw > vJ", ok, key="class|template")
    fe = S.func("equationOfMotion:EOM.solveWall")
    okc = False
    for guards, st in walk_guarded(fe.node):
        if isinstance(st, ast.Assign) and n(st.targets[0]) == "solutionType" and "DETONATION" in n(st.value):
            okc = any(pol and n(t).replace(" ", "") == "wallVelocity>self.hydrodynamics.vJ" for t, pol in guards if not isinstance(t, tuple))
    chk.ob("R06.3", fe.where(), "the wall solver labels a solution DETONATION iff its velocity exceeds vJ", okc, key="class|EOM")
    fw = S.func("equationOfMotion:EOM.wallPressure")
    okw = any(isinstance(st, ast.If) and n(st.test).replace(" ", "") == "wallVelocity>self.hydrodynamics.vJ" for st in own_nodes(fw.node))
    chk.ob("R06.3", fw.where(), "the pressure iteration switches algorithm at the same threshold", okw, key="class|wallPressure")
    chk.floor("R06.3", 4)


def r06_4(chk: Check):
    S = chk.src
    ft = S.func(f"{TM}.findMatching")
    vm_defs = [st for st in own_nodes(ft.node) if isinstance(st, ast.Assign) and n(st.targets[0]) == "vm"]
    ok = len(vm_defs) == 1 and n(vm_defs[0].value).replace(" ", "") in ("min(self.cb,vw)", "min(vw,self.cb)")
    chk.ob("R06.4", ft.where(), "template: v- = min(cb, vw)", ok, key="vm|template")
    for name in ("solveAlpha", "_shooting", "matchDeflagOrHybInitial"):
        f_ = S.func(f"{TM}.{name}")
        chk.touch(f_.name)
        d = [st for st in own_nodes(f_.node) if isinstance(st, ast.Assign) and n(st.targets[0]) == "vm"]
        ok = len(d) == 1 and n(d[0].value).replace(" ", "") in ("min(self.cb,vw)", "min(vw,self.cb)")
        chk.ob("R06.4", f_.where(), f"template {name}: v- = min(cb, vw)", ok, key=f"vm|{name}")
    # full solver: the matching residual (R02.2) and the post-solve value (R05.1) use min(vw^2, csqLowT(T-)); here: both sites agree
    fo = S.func(f"{HY}.matchDeflagOrHyb")
    sites = [x for x in ast.walk(fo.node) if isinstance(x, ast.Assign) and n(x.targets[0]) == "vmsq"]
    forms = {n(x.value).replace(" ", "").replace("Tpm[1]", "T-").replace("Tm", "T-") for x in sites}
    chk.ob("R06.4", fo.where(), "both sites of matchDeflagOrHyb set v-^2 = min(vw^2, csqLowT(T-))", len(sites) == 2 and
           forms == {"min(vw**2,self.thermodynamics.csqLowT(T-))"}, str(forms), key="vm|both-sites")
    chk.floor("R06.4", 5)


def r06_5(chk: Check):
    S = chk.src
    fo = S.func(f"{HY}.matchDeton")
    chk.touch(fo.name)
    mins = calls_in(fo.node, "minimize_scalar")
    roots = calls_in(fo.node, "root_scalar")
    ok = len(mins) == 1 and len(roots) == 1 and n(mins[0].args[0]) == n(roots[0].args[0]) == "tmFromvpsq"
    chk.ob("R06.5", fo.where(), "the detonation root and the bracketing minimisation use the same residual function", ok, key="same-residual")
    defs = {}
    for st in own_nodes(fo.node):
        if isinstance(st, ast.Assign) and isinstance(st.targets[0], ast.Name):
            defs.setdefault(st.targets[0].id, []).append(n(st.value))
    b = kwarg(roots[0], "bracket") if roots else None
    ok = b is not None and n(b).replace(" ", "") == "[self.Tnucl,Tmax]" and defs.get("Tmax") == ["minimizeResult.x"]
    chk.ob("R06.5", fo.where(), "the root is bracketed by [Tn, argmin residual]: the weak (lower-temperature) branch", ok, n(b) if b is not None else "",
           key="weak-bracket")
    bm = kwarg(mins[0], "bounds") if mins else None
    ok = bm is not None and n(bm).replace(" ", "") == "[self.Tnucl,self.TMaxHydro]"
    chk.ob("R06.5", fo.where(), "the minimisation runs over [Tn, TMaxHydro]", ok, key="min-bounds")
    raises = [x for x in own_nodes(fo.node) if isinstance(x, ast.If) and any(isinstance(s_, ast.Raise) for s_ in x.body + x.orelse)]
    chk.ob("R06.5", fo.where(), "no sign change (minimum residual > 0), failed minimisation and non-converged root all raise", len(raises) >= 3,
           f"{len(raises)} guarded raises", key="raises")
    chk.floor("R06.5", 4)


def r06_6(chk: Check):
    S = chk.src
    ff = S.func(f"{HY}.fastestDeflag")
    chk.touch(ff.name)
    rets = sorted([r for r in own_nodes(ff.node) if isinstance(r, ast.Return)], key=lambda r: r.lineno)
    last = rets[-1] if rets else None
    ok = last is not None and same_term(S, "hydrodynamics", "Hydrodynamics", last.value, "min(vmax1, vmax2)")
    chk.ob("R06.6", ff.where(), "fastestDeflag returns the smaller of the two range-limited velocities", ok, n(last.value) if last else "", key="fastest|min")
    # vmax1 from the T- root against TMaxLowT, vmax2 from the T+ root against TMaxHighT  (sides: R02.4); here: flags
    flags = []
    for guards, st in walk_guarded(ff.node):
        if isinstance(st, ast.Assign) and "doesPhaseTraceLimitvmax" in n(st.targets[0]) and n(st.value) == "True":
            g = [n(t) for t, pol in guards if pol and not isinstance(t, (tuple, ast.ExceptHandler))]
            flags.append((n(st.targets[0]), g[-1] if g else ""))
    want = {("self.doesPhaseTraceLimitvmax[1]", "not self.thermodynamics.freeEnergyLow.maxPossibleTemperature[1]"),
            ("self.doesPhaseTraceLimitvmax[0]", "not self.thermodynamics.freeEnergyHigh.maxPossibleTemperature[1]")}
    chk.ob("R06.6", ff.where(), "doesPhaseTraceLimitvmax[k] is raised only when phase k's upper range end is not a genuine end of the phase "
           "(index 0 = high-T, 1 = low-T)", set(flags) == want, str(flags), key="fastest|flags")
    roots = calls_in(ff.node, "root_scalar")
    fns = sorted(n(c.args[0]) for c in roots)
    closures = {f.name: f for f in ast.walk(ff.node) if isinstance(f, ast.FunctionDef)}
    okc = fns == ["TmMax", "TpMax"] and "TmMax" in closures and "TpMax" in closures
    detail = ""
    if okc:
        tm_ret = [r for r in ast.walk(closures["TmMax"]) if isinstance(r, ast.Return)][0]
        tp_ret = [r for r in ast.walk(closures["TpMax"]) if isinstance(r, ast.Return)][0]
        okc = same_term(S, "hydrodynamics", "Hydrodynamics", tm_ret.value, "TpTm(vw)[1] - self.TMaxLowT") and \
            same_term(S, "hydrodynamics", "Hydrodynamics", tp_ret.value, "TpTm(vw)[0] - self.TMaxHighT")
        detail = f"{n(tm_ret.value)}; {n(tp_ret.value)}"
    chk.ob("R06.6", ff.where(), "the two velocities are the roots of T-(vw) = TMaxLowT and T+(vw) = TMaxHighT", okc, detail, key="fastest|roots")
    early = [r for r in rets if n(r.value) == "self.vJ"]
    chk.ob("R06.6", ff.where(), "vJ is returned when both temperatures stay inside their ranges just below vJ", len(early) == 1, key="fastest|vJ")
    other = [r for r in rets if r is not last and r not in early]
    chk.ob("R06.6", ff.where(), "fastestDeflag has no other exit: a velocity limited by one phase range is never returned before the other range was examined",
           not other, "; ".join(f"line {r.lineno}: return {n(r.value)}" for r in other), key="fastest|exits")
    for q in ("fastestDeflag", "slowestDeton"):
        fq = S.func(f"{HY}.{q}")
        conf = SideTyper(fq.node).conflicts()
        chk.ob("R06.6", fq.where(), f"{q}: T- is compared with the low-T range and T+ with the high-T range", not conf,
               "; ".join(f"line {c.lineno}: {m}" for c, m in conf)[:300], key=f"sides|{q}")
    fe = S.func("equationOfMotion:EOM.findWallVelocityDeflagrationHybrid")
    chk.touch(fe.name)
    d = [st for st in own_nodes(fe.node) if isinstance(st, ast.Assign) and n(st.targets[0]) in ("vmax", "vmin")]
    m = {n(st.targets[0]): n(st.value).replace(" ", "") for st in d}
    dd = {n(st.targets[0]): st.value for st in d}
    ok = "vmax" in dd and "vmin" in dd and same_term(S, "equationOfMotion", "EOM", dd["vmax"], "min(self.hydrodynamics.vJ, self.hydrodynamics.fastestDeflag())") \
        and same_term(S, "equationOfMotion", "EOM", dd["vmin"], "self.hydrodynamics.vMin")
    chk.ob("R06.6", fe.where(), "the wall solver searches [vMin, min(vJ, fastestDeflag())]", ok, str(m), key="window")
    call = [c for c in calls_in(fe.node, "solveWall")]
    ok = len(call) == 1 and [n(a) for a in call[0].args[:2]] == ["vmin", "vmax"]
    chk.ob("R06.6", fe.where(), "and passes that window to solveWall in (min, max) order", ok, key="window-order")
    fs = S.func(f"{HY}.slowestDeton")
    chk.touch(fs.name)
    rets = [n(r.value).replace(" ", "") for r in own_nodes(fs.node) if isinstance(r, ast.Return)]
    ok = "1" in rets and "self.vJ" in rets and any(r.startswith("float(min(1,vmin+") for r in rets)
    chk.ob("R06.6", fs.where(), "slowestDeton returns 1, vJ or the range-limited root (plus its safety margin, capped at 1)", ok, str(rets), key="slowest")
    roots = calls_in(fs.node, "root_scalar")
    ok = len(roots) == 1 and n(kwarg(roots[0], "bracket")).replace(" ", "").startswith("[self.vJ+")
    chk.ob("R06.6", fs.where(), "its root is searched above vJ only", ok, key="slowest|bracket")
    fi = S.func(f"{HY}.__init__")
    d = [st for st in own_nodes(fi.node) if isinstance(st, ast.Assign) and n(st.targets[0]) == "self.vMin"]
    ok = len(d) == 1 and same_term(S, "hydrodynamics", "Hydrodynamics", d[0].value, "max(self.vBracketLow, self.minVelocity())")
    chk.ob("R06.6", fi.where(), "vMin = max(vBracketLow, minVelocity())", ok, key="vMin")
    fmn = S.func(f"{HY}.minVelocity")
    chk.touch(fmn.name)
    roots = calls_in(fmn.node, "root_scalar")
    ok = len(roots) == 1 and n(roots[0].args[0]) == "strongestshockTnucl" and n(kwarg(roots[0], "bracket")).replace(" ", "") == "(self.vBracketLow,self.vJ)"
    chk.ob("R06.6", fmn.where(), "minVelocity is the root of strongestShock(vw) - Tnucl on (vBracketLow, vJ); 0 when there is none", ok, key="minVelocity")
    chk.floor("R06.6", 13)


def rules(chk: Check) -> None:
    r06_1(chk)
    r06_2(chk)
    r06_3(chk)
    r06_4(chk)
    r06_5(chk)
    r06_6(chk)
